#!/bin/bash
# Build the framework from files on disk only (offline): generated facts, Lean library (models,
# proofs, property theorems, driver), kernel shims for the current working tree of /repo.
cd "$(dirname "$0")"
export PYTHONDONTWRITEBYTECODE=1
/venv/bin/python harness/translate.py || exit 1
cd lean
# one invocation for everything first (full parallelism); failures are reported per target below
lake build PyamgV.Driver.Main $(for f in PyamgV/Props/C*.lean; do echo PyamgV.Props.$(basename "$f" .lean); done) >/dev/null 2>&1
lake build PyamgV.Driver.Main 2>&1 | grep -E "^error|✖|Build completed" | tail -5
[ "${PIPESTATUS[0]}" = 0 ] || { echo "setup: the Lean driver does not build"; exit 1; }
for f in PyamgV/Props/C*.lean; do
  m=$(basename "$f" .lean)
  lake build PyamgV.Props.$m 2>&1 | grep -E "^error|✖" | head -5
  [ "${PIPESTATUS[0]}" = 0 ] || echo "setup: note: PyamgV.Props.$m does not build (its check will report it)"
done
cd ..
/venv/bin/python harness/corebuild.py || exit 1
/venv/bin/python harness/corebuild.py --asan || echo "setup: note: sanitizer build of the kernels failed (the C17 search will say so)"
echo "setup done"
