#!/bin/bash
# Build the framework from files on disk only (offline): generated facts, Lean library (models,
# proofs, property theorems, driver), kernel shims for the current working tree of /repo.
set -e
cd "$(dirname "$0")"
export PYTHONDONTWRITEBYTECODE=1
/venv/bin/python harness/translate.py
( cd lean && lake build 2>&1 | grep -E "error|✖|Build completed|warning: declaration uses" | tail -20 )
/venv/bin/python harness/corebuild.py
/venv/bin/python harness/corebuild.py --asan || echo "note: sanitizer build of the kernels failed (C17 search will say so)"
echo "setup done"
