import Probe.Model
open Probe

def parseRat (s : String) : Rat :=
  match s.splitOn "/" with
  | [a] => (a.toInt?.getD 0 : Int)
  | [a, b] => (a.toInt?.getD 0 : Int) / (b.toInt?.getD 1 : Int)
  | _ => 0

def parseNats (s : String) : Array Nat := (s.splitOn ",").toArray.map (·.toNat?.getD 0)
def parseRats (s : String) : Array Rat := (s.splitOn ",").toArray.map parseRat

partial def loop (h : IO.FS.Stream) : IO Unit := do
  let line ← h.getLine
  if line.isEmpty then return ()
  match line.trimAscii.toString.splitOn " " with
  | ["gs", n, ap, aj, ax, b, x] =>
    let A : Csr Rat := { n := n.toNat?.getD 0, ap := parseNats ap, aj := parseNats aj, ax := parseRats ax }
    let r := gsSweep A (parseRats b) (parseRats x) (List.range A.n)
    IO.println (String.intercalate "," (r.toList.map fun q => s!"{q.num}/{q.den}"))
  | _ => IO.println "bad-op"
  loop h

def main : IO Unit := do loop (← IO.getStdin)
