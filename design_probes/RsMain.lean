import Probe.RsModel
open Probe.RS
def parseNats (s : String) : Array Nat := if s = "-" then #[] else (s.splitOn ",").toArray.map (·.toNat?.getD 0)
partial def loop (h : IO.FS.Stream) : IO Unit := do
  let line ← h.getLine
  if line.isEmpty then return ()
  match line.trimAscii.toString.splitOn " " with
  | ["rs", n, sp, sj, tp, tj] =>
    let n := n.toNat?.getD 0
    let r := run ⟨n, parseNats sp, parseNats sj⟩ ⟨n, parseNats tp, parseNats tj⟩
    IO.println (String.intercalate "," (r.toList.map toString))
  | _ => IO.println "bad-op"
  loop h
def main : IO Unit := do loop (← IO.getStdin)
