import Probe.RsPass2
open Probe.RS
def parseNats (s : String) : Array Nat := if s = "-" then #[] else (s.splitOn ",").toArray.map (·.toNat?.getD 0)
def parseInts (s : String) : Array Int := if s = "-" then #[] else (s.splitOn ",").toArray.map (·.toInt?.getD 0)
partial def loop (h : IO.FS.Stream) : IO Unit := do
  let line ← h.getLine
  if line.isEmpty then return ()
  match line.trimAscii.toString.splitOn " " with
  | ["p2", n, sp, sj, split] =>
    let r := pass2 ⟨n.toNat?.getD 0, parseNats sp, parseNats sj⟩ (parseInts split)
    IO.println (String.intercalate "," (r.toList.map toString))
  | _ => IO.println "bad-op"
  loop h
def main : IO Unit := do loop (← IO.getStdin)
