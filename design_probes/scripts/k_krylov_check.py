import warnings; warnings.simplefilter('ignore')
import patch_ms, numpy as np, subprocess, time, sys
sys.set_int_max_str_digits(0)
from fractions import Fraction as Fr
from pyamg.krylov import cg, steepest_descent, minimal_residual
rng=np.random.default_rng(6); lines=[]; exp=[]
def fv(v): return ','.join(str(Fr(float(t))) for t in v)
for t in range(600):
    n=int(rng.integers(1,7)); Q=rng.integers(-2,3,size=(n,n)).astype(float); A=Q@Q.T+np.eye(n)*int(rng.integers(1,4))
    b=rng.integers(-3,4,size=n).astype(float)
    kind=['cg','sd','mr'][t%3]
    xk=t%4
    if xk==0: x0=np.zeros(n)
    elif xk==1: x0=rng.integers(-3,4,size=n).astype(float)
    elif xk==2: x0=np.linalg.solve(A,b); 
    else: x0=rng.integers(-3,4,size=n).astype(float); b=np.zeros(n) if t%8==3 else b
    if xk==2:
        # make exact solution representable: choose xs integer, b = A xs
        xs=rng.integers(-3,4,size=n).astype(float); b=A@xs; x0=xs.copy()
    tol=float(rng.choice([0.5,0.125,2.0**-10,2.0**-20])); maxiter=int(rng.integers(1,8))
    f={'cg':cg,'sd':steepest_descent,'mr':minimal_residual}[kind]
    res=[]; cb=[]
    try:
        x,info=f(A,b,x0=x0.copy(),tol=tol,maxiter=maxiter,residuals=res,callback=lambda x: cb.append(np.array(x,copy=True)))
    except Exception as e:
        x,info=None,repr(e)
    lines.append(f'{kind} {";".join(fv(r) for r in A)} {fv(b)} {fv(x0)} {Fr(tol)**2} {maxiter}')
    exp.append((x,info,len(res),cb))
open('/tmp/leanprobe/kry_ops.txt','w').write('\n'.join(lines)+'\n')
t0=time.time()
r=subprocess.run('cd /tmp/leanprobe/probe && lake env lean --run KryMain.lean < /tmp/leanprobe/kry_ops.txt',shell=True,capture_output=True,text=True)
got=r.stdout.strip().split('\n'); print('lean time %.2f'%(time.time()-t0),len(got),r.stderr[:200])
from collections import Counter
cnt=Counter(); near=0; shown=0
for ln,g,(x,info,nres,cb) in zip(lines,got,exp):
    parts=g.split(' '); st=int(parts[0]); mn=int(parts[1]); mx=[Fr(v) for v in parts[2].split(',')]
    kind=ln.split()[0]
    if st==-98:   # model: division by zero; implementation should produce non-finite values
        if x is not None and np.isfinite(x).all(): cnt[kind+'-div0-finite']+=1
        else: cnt[kind+'-div0-agree']+=1
        continue
    ok = (st==info) and (mn==nres) and len(mx)==len(x) and all(abs(a-Fr(float(bv)))<=Fr(1,10**8)*(1+abs(a)) for a,bv in zip(mx,x))
    if not ok:
        cnt[kind+'-mismatch']+=1
        if shown<5: print('MISMATCH',ln[:120],'| lean',g[:100],'| impl',info,nres,None if x is None else x[:4]); shown+=1
    else: cnt[kind+'-ok']+=1
print(dict(cnt))
