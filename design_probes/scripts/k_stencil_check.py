import warnings; warnings.simplefilter('ignore')
import numpy as np, subprocess, time
from fractions import Fraction as Fr
from pyamg.gallery import stencil_grid
rng=np.random.default_rng(5); lines=[]; exp=[]
for t in range(600):
    nd=int(rng.integers(1,4)); grid=tuple(int(g) for g in rng.integers(1,5,size=nd))
    shp=tuple(int(2*k+1) for k in rng.integers(0,3,size=nd))
    S=rng.integers(-3,4,size=shp).astype(float)
    if not S.any(): continue
    M=stencil_grid(S,grid,format='csr').toarray()
    ents=[]
    for idx in np.ndindex(*shp):
        if S[idx]!=0: ents.append(','.join(str(i-s//2) for i,s in zip(idx,shp))+':'+str(Fr(float(S[idx]))))
    lines.append('stencil '+','.join(map(str,grid))+' '+'|'.join(ents)); exp.append(M)
open('/tmp/leanprobe/st_ops.txt','w').write('\n'.join(lines)+'\n')
t0=time.time()
r=subprocess.run('cd /tmp/leanprobe/probe && lake env lean --run StMain.lean < /tmp/leanprobe/st_ops.txt',shell=True,capture_output=True,text=True)
got=r.stdout.strip().split('\n'); print('lean time %.2f'%(time.time()-t0),len(got),r.stderr[:200])
bad=0
for ln,g,M in zip(lines,got,exp):
    D=np.zeros_like(M)
    if g!='-':
        for e in g.split('|'):
            rr,cc,v=e.split(','); D[int(rr),int(cc)]+=float(Fr(v))
    if not np.array_equal(D,M):
        bad+=1
        if bad<4: print('MISMATCH',ln)
print('bad',bad,'of',len(lines))
