import warnings; warnings.simplefilter('ignore')
import numpy as np, scipy.sparse as sp, pyamg, subprocess, time
from fractions import Fraction as Fr
from pyamg import amg_core
rng=np.random.default_rng(2)
def f(a): return ','.join(str(int(v)) for v in a) if len(a) else '-'
def fr(a): return ','.join(str(Fr(float(v))) for v in a) if len(a) else '-'
def randcsr(n, unsorted=False, zero_diag=True):
    M=(rng.random((n,n))<rng.choice([0.2,0.5,0.9]))*rng.integers(-4,5,size=(n,n)).astype(float)
    d=rng.choice([1,2,4,8,-2,0.5],size=n)
    if zero_diag: d=np.where(rng.random(n)<0.15,0,d)
    M[np.arange(n),np.arange(n)]=d
    A=sp.csr_array(M)  # explicit zeros dropped; zero diag -> missing
    A.indptr=A.indptr.astype(np.int32); A.indices=A.indices.astype(np.int32)
    if unsorted:
        for i in range(n):
            s,e=A.indptr[i],A.indptr[i+1]; p=rng.permutation(e-s)
            A.indices[s:e]=A.indices[s:e][p]; A.data[s:e]=A.data[s:e][p]
    return A
lines=[]; exp=[]
def sweep(n):
    k=rng.integers(0,4)
    if k==0: return (0,n,1)
    if k==1: return (n-1,-1,-1)
    if k==2: return (0, n + (n%2), 2) if n%2==0 else (0, n+1, 2)   # stop reachable: 0,2,..  (n even: stop=n; n odd: stop=n+1)
    return (n-1, -1, -2) if (n-1)%2==1 else (n-1, -2, -2)
for t in range(1500):
    n=int(rng.integers(1,9)); A=randcsr(n, unsorted=t%3==0)
    b=rng.integers(-5,6,size=n).astype(float); x=rng.integers(-5,6,size=n).astype(float)
    s0,s1,s2=sweep(n)
    om=float(rng.choice([1.0,0.5,1.5,0.25]))
    kind=t%8
    hdr=f'{n} {f(A.indptr)} {f(A.indices)} {fr(A.data)}'
    if kind==0:
        xx=x.copy(); amg_core.gauss_seidel(A.indptr,A.indices,A.data,xx,b,s0,s1,s2)
        lines.append(f'gs {hdr} {fr(b)} {fr(x)} {s0} {s1} {s2}'); exp.append(xx)
    elif kind==1:
        xx=x.copy(); amg_core.sor_gauss_seidel(A.indptr,A.indices,A.data,xx,b,s0,s1,s2,om)
        lines.append(f'sor {Fr(om)} {hdr} {fr(b)} {fr(x)} {s0} {s1} {s2}'); exp.append(xx)
    elif kind==2:
        xx=x.copy(); temp=np.zeros(n); amg_core.jacobi(A.indptr,A.indices,A.data,xx,b,temp,s0,s1,s2,np.array([om]))
        lines.append(f'jac {Fr(om)} {hdr} {fr(b)} {fr(x)} {s0} {s1} {s2}'); exp.append(xx)
    elif kind==3:
        idx=rng.integers(0,n,size=rng.integers(0,n+2)).astype(np.int32)
        xx=x.copy(); amg_core.jacobi_indexed(A.indptr,A.indices,A.data,xx,b,idx,np.array([om]))
        lines.append(f'jaci {Fr(om)} {hdr} {fr(b)} {fr(x)} {f(idx)}'); exp.append(xx)
    elif kind==4:
        idx=rng.integers(0,n,size=rng.integers(1,n+2)).astype(np.int32); m=len(idx)
        a0,a1,a2 = (0,m,1) if t%2 else (m-1,-1,-1)
        xx=x.copy(); amg_core.gauss_seidel_indexed(A.indptr,A.indices,A.data,xx,b,idx,a0,a1,a2)
        lines.append(f'gsi {hdr} {fr(b)} {fr(x)} {f(idx)} {a0} {a1} {a2}'); exp.append(xx)
    elif kind==5:
        dinv=rng.choice([1,0.5,0.25,2],size=n)
        xx=x.copy(); amg_core.gauss_seidel_ne(A.indptr,A.indices,A.data,xx,b,s0,s1,s2,dinv,om)
        lines.append(f'gsne {Fr(om)} {hdr} {fr(b)} {fr(x)} {fr(dinv)} {s0} {s1} {s2}'); exp.append(xx)
    elif kind==6:
        dinv=rng.choice([1,0.5,0.25,2],size=n); r=b.copy()
        xx=x.copy(); amg_core.gauss_seidel_nr(A.indptr,A.indices,A.data,xx,r,s0,s1,s2,dinv,om)
        lines.append(f'gsnr {Fr(om)} {hdr} {fr(b)} {fr(x)} {fr(dinv)} {s0} {s1} {s2}'); exp.append(np.concatenate([xx,r]))
    else:
        delta=rng.integers(-3,4,size=n).astype(float); temp=np.zeros(n)
        s0,s1,s2=0,n,1
        xx=x.copy(); amg_core.jacobi_ne(A.indptr,A.indices,A.data,xx,b,delta,temp,s0,s1,s2,np.array([om]))
        lines.append(f'jacne {Fr(om)} {hdr} {fr(delta)} {fr(x)} {s0} {s1} {s2}'); exp.append(xx)
open('/tmp/leanprobe/k_ops.txt','w').write('\n'.join(lines)+'\n')
t0=time.time()
r=subprocess.run('cd /tmp/leanprobe/probe && lake env lean --run KMain.lean < /tmp/leanprobe/k_ops.txt',shell=True,capture_output=True,text=True)
got=r.stdout.strip().split('\n'); print('lean time %.2f'%(time.time()-t0), len(got), r.stderr[:300])
bad=0; exact=0
from collections import Counter
cnt=Counter()
for ln,g,e in zip(lines,got,exp):
    vals=[Fr(v) for part in g.split(';') for v in part.split(',') if v]
    ev=[Fr(float(v)) for v in e]
    if len(vals)!=len(ev): bad+=1; cnt[ln.split()[0]]+=1; continue
    ok=all(abs(a-b)<=Fr(1,10**9)*(1+abs(a)) for a,b in zip(vals,ev))
    if not ok:
        bad+=1; cnt[ln.split()[0]]+=1
        if bad<4: print('MISMATCH', ln[:200], g, e)
    if vals==ev: exact+=1
print('bad',bad,dict(cnt),'bit-exact',exact,'of',len(lines))
