import importlib, pyamg, pyamg.util.utils as U
from scipy.sparse.linalg._isolve.utils import make_system as _ms
def make_system(A, M, x0, b):
    out = _ms(A, M, x0, b)
    if len(out) == 4:
        return (*out, lambda x: x)
    return out
U.make_system = make_system
import pyamg.util
pyamg.util.make_system = make_system
for m in ['_cg','_cr','_cgne','_cgnr','_bicgstab','_gmres_mgs','_gmres_householder','_fgmres','_minimal_residual','_steepest_descent']:
    mod = importlib.import_module('pyamg.krylov.'+m)
    mod.make_system = make_system
