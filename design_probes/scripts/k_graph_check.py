import warnings; warnings.simplefilter('ignore')
import numpy as np, scipy.sparse as sp, pyamg, subprocess, time
from pyamg import amg_core
rng=np.random.default_rng(3)
def f(a): return ','.join(str(int(v)) for v in a) if len(a) else '-'
lines=[]; exp=[]
for t in range(3000):
    n=int(rng.integers(1,13)); M=(rng.random((n,n))<rng.choice([0.1,0.3,0.7])).astype(int)
    if t%5!=0: np.fill_diagonal(M,0)           # some graphs keep self loops
    if t%7!=0: M=((M+M.T)>0).astype(int)        # some nonsymmetric
    S=sp.csr_array(M.astype(float)); S.eliminate_zeros()
    ap=S.indptr.astype(np.int32); aj=S.indices.astype(np.int32)
    hdr=f'{n} {f(ap)} {f(aj)}'
    k=t%7
    if k==0:
        x=np.full(n,-1,dtype=np.int32); amg_core.maximal_independent_set_serial(n,ap,aj,-1,1,0,x)
        lines.append('mis_serial '+hdr); exp.append(f(x))
    elif k==1:
        y=rng.integers(0,6,size=n).astype(float)   # many ties on purpose
        x=np.full(n,-1,dtype=np.int32); amg_core.maximal_independent_set_parallel(n,ap,aj,-1,1,0,x,y,-1)
        lines.append('mis_par '+hdr+' '+f(y)); exp.append(f(x))
    elif k==2:
        x=np.empty(n,dtype=np.int32); amg_core.vertex_coloring_mis(n,ap,aj,x)
        lines.append('color_mis '+hdr); exp.append(f(x))
    elif k==3:
        x=np.empty(n,dtype=np.int32); amg_core.connected_components(n,ap,aj,x)
        lines.append('cc '+hdr); exp.append(f(x))
    elif k==4:
        seed=int(rng.integers(0,n)); order=np.full(n,-9,dtype=np.int32); level=np.full(n,-1,dtype=np.int32)
        amg_core.breadth_first_search(ap,aj,seed,order,level)
        lines.append(f'bfs {hdr} {seed}'); exp.append(f(order)+';'+f(level))
    elif k==5:
        x=np.empty(n,dtype=np.int32); y=np.full(n,-7,dtype=np.int32)
        kk=amg_core.standard_aggregation(n,ap,aj,x,y)
        lines.append('std_agg '+hdr); exp.append(f(x)+';'+f(y[:kk])+';'+str(kk))
    else:
        x=np.empty(n,dtype=np.int32); y=np.full(n,-7,dtype=np.int32)
        kk=amg_core.naive_aggregation(n,ap,aj,x,y)
        lines.append('naive_agg '+hdr); exp.append(f(x)+';'+f(y[:kk])+';'+str(kk))
open('/tmp/leanprobe/g_ops.txt','w').write('\n'.join(lines)+'\n')
t0=time.time()
r=subprocess.run('cd /tmp/leanprobe/probe && lake env lean --run GMain.lean < /tmp/leanprobe/g_ops.txt',shell=True,capture_output=True,text=True)
got=r.stdout.strip().split('\n'); print('lean time %.2f'%(time.time()-t0), len(got), r.stderr[:300])
from collections import Counter
cnt=Counter(); shown=0
for ln,g,e in zip(lines,got,exp):
    if g!=e:
        cnt[ln.split()[0]]+=1
        if shown<6: print('MISMATCH',ln,'| lean',g,'| impl',e); shown+=1
print('mismatches',dict(cnt),'of',len(lines))
