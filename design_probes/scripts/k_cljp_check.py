#!/usr/bin/env python3
"""Correspondence smoke test: Lean model of cljp_naive_splitting (Float weights) vs the real
kernel, random strength patterns (symmetric and not, with and without self loops); the libc
rand() stream seeded as the kernel seeds it is replayed through ctypes."""
import ctypes, struct, subprocess, sys
import numpy as np, scipy.sparse as sp
from pyamg import amg_core
libc = ctypes.CDLL('libc.so.6'); libc.rand.restype = ctypes.c_int
RAND_MAX = 2147483647
def weights(n):
    libc.srand(2448422)
    return [libc.rand() / RAND_MAX for _ in range(n)]
def bits(x): return struct.unpack('<Q', struct.pack('<d', x))[0]
def lst(a): return ','.join(str(int(v)) for v in a) if len(a) else '-'
rng = np.random.default_rng(int(sys.argv[1]) if len(sys.argv) > 1 else 0)
cases, lines, expect = int(sys.argv[2]) if len(sys.argv) > 2 else 1500, [], []
for t in range(cases):
    n = int(rng.integers(1, 14)); dens = float(rng.choice([0.1, 0.25, 0.5]))
    M = (rng.random((n, n)) < dens).astype(float)
    if t % 3 == 0: M = np.maximum(M, M.T)
    if t % 4 != 0: np.fill_diagonal(M, 0)
    S = sp.csr_array(M); S.sort_indices(); T = sp.csr_array(S.T); T.sort_indices()
    Sp, Sj = S.indptr.astype(np.int32), S.indices.astype(np.int32)
    Tp, Tj = T.indptr.astype(np.int32), T.indices.astype(np.int32)
    out = np.empty(n, dtype=np.int32)
    amg_core.cljp_naive_splitting(n, Sp, Sj, Tp, Tj, out, 0)
    w = weights(n)
    lines.append(f"cljp {n} {lst(Sp)} {lst(Sj)} {lst(Tp)} {lst(Tj)} {','.join(str(bits(x)) for x in w)}")
    expect.append(lst(out))
res = subprocess.run(['lake', 'env', 'lean', '--run', 'CljpMain.lean'], input='\n'.join(lines) + '\n',
                     capture_output=True, text=True, cwd=sys.argv[3] if len(sys.argv) > 3 else '.')
got = res.stdout.strip().split('\n')
bad = [(i, lines[i], expect[i], got[i]) for i in range(len(expect)) if i >= len(got) or got[i] != expect[i]]
print(f'{len(expect)} cases, {len(bad)} mismatches'); print(bad[:3]); print(res.stderr[-300:])
