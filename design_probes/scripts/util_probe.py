import numpy as np, scipy.sparse as sp, warnings
warnings.simplefilter('ignore')
from pyamg.util import utils as U
from pyamg.util import linalg as L
rng=np.random.default_rng(0)
def rnd(n,m,dens=0.4,cplx=False):
    A=sp.random(n,m,density=dens,format='csr',random_state=rng.integers(1<<30))
    if cplx: A=A+1j*sp.random(n,m,density=dens,format='csr',random_state=rng.integers(1<<30))
    return A.tocsr()
bad=[]
for t in range(300):
    n=int(rng.integers(1,9)); cplx=bool(rng.integers(2))
    A=rnd(n,n,0.5,cplx); D=A.toarray()
    # get_diagonal
    for ne in [False,True]:
        for inv in [False,True]:
            try:
                d=U.get_diagonal(A,norm_eq=ne,inv=inv)
                ref=np.diag(D) if not ne else np.diag(D.conj().T@D) if ne==1 else None
                if ne: ref=np.diag(D.conj().T@D)
                if inv:
                    ref=np.where(ref==0,0,1/np.where(ref==0,1,ref)) if True else ref
                if not np.allclose(d,ref): bad.append(('get_diagonal',ne,inv,n,cplx)); 
            except Exception as e: bad.append(('get_diagonal-exc',ne,inv,type(e).__name__,str(e)[:60]))
    # scale_rows / columns
    v=rng.standard_normal(n)+(1j*rng.standard_normal(n) if cplx else 0)
    for copy in [True,False]:
        B=A.copy(); R=U.scale_rows(B,v,copy=copy)
        if not np.allclose(R.toarray(),np.diag(v)@D): bad.append(('scale_rows',copy,n,cplx))
        if copy and not np.allclose(B.toarray(),D): bad.append(('scale_rows-mut',n))
        B=A.copy(); R=U.scale_columns(B,v,copy=copy)
        if not np.allclose(R.toarray(),D@np.diag(v)): bad.append(('scale_columns',copy,n,cplx))
    # symmetric_rescaling
    try:
        B=A.copy(); Dsq,Dinv,DAD=U.symmetric_rescaling(B)
        dd=np.diag(D); 
        ref_Dsq=np.sqrt(dd) if cplx else np.sqrt(np.abs(dd)); 
        mask=dd!=0
        ref_inv=np.zeros(n,dtype=ref_Dsq.dtype); ref_inv[mask]=1/ref_Dsq[mask]
        refM=np.diag(ref_inv)@D@np.diag(ref_inv)
        if not np.allclose(DAD.toarray(),refM): bad.append(('symmetric_rescaling',n,cplx))
    except Exception as e: bad.append(('symresc-exc',type(e).__name__,str(e)[:60]))
    # filter rows / columns / truncate_rows
    theta=float(rng.random())
    for fn,axis in [(U.filter_matrix_rows,1),(U.filter_matrix_columns,0)]:
        try:
            F=fn(A,theta).toarray()
            Dn=D.copy(); 
            mx=np.abs(D).max(axis=axis)
            ref=D.copy()
            for i in range(n):
                for j in range(n):
                    m=mx[i] if axis==1 else mx[j]
                    if np.abs(D[i,j])<theta*m: ref[i,j]=0
            if not np.allclose(F,ref): bad.append((fn.__name__,n,cplx,theta))
        except Exception as e: bad.append((fn.__name__+'-exc',type(e).__name__,str(e)[:60]))
    k=int(rng.integers(1,4))
    try:
        T=U.truncate_rows(A.copy(),k).toarray()
        for i in range(n):
            row=D[i]; nz=np.nonzero(row)[0]
            if len(nz)<=k: ok=np.allclose(T[i],row)
            else:
                kept=np.nonzero(T[i])[0]
                ok = len(kept)<=k and all(np.isclose(T[i,j],row[j]) for j in kept) and (len(kept)==0 or np.abs(row[kept]).min()>=np.sort(np.abs(row))[-k]-1e-14) and len(kept)==k
            if not ok: bad.append(('truncate_rows',n,k,cplx,i)); break
    except Exception as e: bad.append(('truncate-exc',type(e).__name__,str(e)[:60]))
from collections import Counter
print(Counter([b[0] for b in bad])); print(bad[:8])
