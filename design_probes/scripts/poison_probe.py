import numpy as np, warnings
warnings.simplefilter('ignore')
_empty, _empty_like = np.empty, np.empty_like
SENT = -2147483641
def poison(a):
    if a.dtype.kind == 'f': a[...] = np.nan
    elif a.dtype.kind == 'c': a[...] = complex(np.nan, np.nan)
    elif a.dtype.kind in 'iu' and a.dtype.itemsize >= 4: a[...] = SENT
    return a
def empty(*a, **k): return poison(_empty(*a, **k))
def empty_like(*a, **k): return poison(_empty_like(*a, **k))
np.empty, np.empty_like = empty, empty_like
import pyamg, scipy.sparse as sp
from pyamg.gallery import poisson, linear_elasticity
from pyamg import classical, aggregation
def bad(x):
    x = np.asarray(x)
    if x.dtype.kind in 'fc': return bool(np.isnan(x).any())
    if x.dtype.kind in 'iu': return bool((x == SENT).any())
    return False
found = []
def check(name, ml):
    for i, L in enumerate(ml.levels):
        for attr in ['A', 'P', 'R', 'B', 'AggOp', 'T', 'C', 'splitting']:
            if hasattr(L, attr):
                v = getattr(L, attr)
                arrs = [v.data, v.indices, v.indptr] if sp.issparse(v) else [v]
                if any(bad(a) for a in arrs): found.append((name, i, attr))
A = poisson((12, 12), format='csr')
E, B = linear_elasticity((6, 6), format='bsr')
cfgs = {
 'rs': lambda: pyamg.ruge_stuben_solver(A, keep=True),
 'rs-direct': lambda: pyamg.ruge_stuben_solver(A, interpolation='direct', keep=True),
 'rs-inj': lambda: pyamg.ruge_stuben_solver(A, interpolation='injection', keep=True),
 'rs-pmis': lambda: pyamg.ruge_stuben_solver(A, CF='PMIS', keep=True),
 'rs-cljp': lambda: pyamg.ruge_stuben_solver(A, CF='CLJP', keep=True),
 'rs-cr': lambda: pyamg.ruge_stuben_solver(A, CF='CR', keep=True),
 'air': lambda: pyamg.air_solver(A, keep=True),
 'air-byval': lambda: pyamg.air_solver(A, interpolation=('one_point', {'by_val': True}), keep=True),
 'air-deg1': lambda: pyamg.air_solver(A, restrict=('air', {'theta': 0.05, 'degree': 1}), keep=True),
 'sa': lambda: pyamg.smoothed_aggregation_solver(A, keep=True),
 'sa-evol': lambda: pyamg.smoothed_aggregation_solver(A, strength='evolution', keep=True),
 'sa-energy': lambda: pyamg.smoothed_aggregation_solver(A, smooth='energy', keep=True),
 'sa-naive': lambda: pyamg.smoothed_aggregation_solver(A, aggregate='naive', keep=True),
 'sa-lloyd': lambda: pyamg.smoothed_aggregation_solver(A, aggregate=('lloyd', {'ratio': 0.2}), keep=True),
 'sa-elas': lambda: pyamg.smoothed_aggregation_solver(E, B=B, keep=True),
 'rootnode': lambda: pyamg.rootnode_solver(A, keep=True),
 'rootnode-elas': lambda: pyamg.rootnode_solver(E, B=B, keep=True),
 'pairwise': lambda: pyamg.pairwise_solver(A, keep=True),
}
for name, f in cfgs.items():
    try:
        ml = f(); check(name, ml)
        b = np.ones(ml.levels[0].A.shape[0])
        for cyc in ['V', 'W', 'F']:
            x = ml.solve(b, maxiter=3, cycle=cyc, tol=1e-12)
            if bad(x): found.append((name, 'solve', cyc))
    except Exception as e:
        found.append((name, 'EXC', type(e).__name__, str(e)[:80]))
print(found)
