import itertools
U,F,C,PF = 2,0,1,3
class Bad(Exception): pass
def rs(n, Sp, Sj, Tp, Tj, check=True):
    lam = [Tp[i+1]-Tp[i] for i in range(n)]
    lmax = max(lam) if n else 0
    lmax = max(2*lmax, n+1)
    iptr=[0]*lmax; icnt=[0]*lmax; i2n=[0]*n; n2i=[0]*n
    for i in range(n): icnt[lam[i]]+=1
    cs=0
    for i in range(lmax):
        iptr[i]=cs; cs+=icnt[i]; icnt[i]=0
    for i in range(n):
        idx = iptr[lam[i]]+icnt[lam[i]]; i2n[idx]=i; n2i[i]=idx; icnt[lam[i]]+=1
    s=[U]*n
    for i in range(n):
        if lam[i]==0 or (lam[i]==1 and Tj[Tp[i]]==i): s[i]=F
    def inv(top):
        # unvisited positions [0, top]; check permutation + bucket consistency
        if sorted(i2n)!=list(range(n)): raise Bad('perm')
        for k in range(n):
            if n2i[i2n[k]]!=k: raise Bad('inverse')
        # sortedness of lambda over unvisited positions
        for k in range(top):
            if lam[i2n[k]]>lam[i2n[k+1]]: raise Bad(f'sorted at {k} top={top} lam={[lam[i2n[q]] for q in range(top+1)]}')
        # intervals: for each lambda value v present among unvisited, iptr[v]..iptr[v]+icnt[v] covers exactly them
        from collections import defaultdict
        pos=defaultdict(list)
        for k in range(top+1): pos[lam[i2n[k]]].append(k)
        for v in range(lmax):
            if v not in pos and icnt[v]!=0: raise Bad(f'stalecount v={v} icnt={icnt[v]}')
        for v,ps in pos.items():
            if v>=lmax: raise Bad('lam>=lmax')
            if icnt[v]!=len(ps): raise Bad(f'count v={v} icnt={icnt[v]} actual={len(ps)}')
            if iptr[v]!=ps[0]: raise Bad(f'ptr v={v} iptr={iptr[v]} first={ps[0]}')
    top=n-1
    while top>-1:
        if check: inv(top)
        i=i2n[top]; li=lam[i]
        icnt[li]-=1
        if lam[i]<=0: break
        if s[i]==U:
            s[i]=C
            for jj in range(Tp[i],Tp[i+1]):
                j=Tj[jj]
                if s[j]==U: s[j]=PF
            for jj in range(Tp[i],Tp[i+1]):
                j=Tj[jj]
                if s[j]==PF:
                    s[j]=F
                    for kk in range(Sp[j],Sp[j+1]):
                        k=Sj[kk]
                        if s[k]==U:
                            if lam[k]>=n-1: continue
                            lk=lam[k]; old=n2i[k]; new=iptr[lk]+icnt[lk]-1
                            if check and not (0<=new<n and 0<=old<n): raise Bad('pos range')
                            if check and new>=top: raise Bad(f'moved into visited region new={new} top={top}')
                            n2i[i2n[old]]=new; n2i[i2n[new]]=old
                            i2n[old],i2n[new]=i2n[new],i2n[old]
                            icnt[lk]-=1
                            if lk+1>=lmax: raise Bad('OOB write icnt')
                            icnt[lk+1]+=1; iptr[lk+1]=new; lam[k]+=1
            for jj in range(Sp[i],Sp[i+1]):
                j=Sj[jj]
                if s[j]==U:
                    if lam[j]==0: continue
                    lj=lam[j]; old=n2i[j]; new=iptr[lj]
                    if check and new>=top: raise Bad(f'dec moved into visited new={new} top={top}')
                    n2i[i2n[old]]=new; n2i[i2n[new]]=old
                    i2n[old],i2n[new]=i2n[new],i2n[old]
                    icnt[lj]-=1; icnt[lj-1]+=1; iptr[lj]+=1; iptr[lj-1]=iptr[lj]-icnt[lj-1]; lam[j]-=1
        top-=1
    return [F if v==U else v for v in s]

def csr(M):
    n=len(M); p=[0]; j=[]
    for i in range(n):
        for k in range(n):
            if M[i][k]: j.append(k)
        p.append(len(j))
    return p,j
if __name__=='__main__':
    import sys
    nmax=int(sys.argv[1]); sym = sys.argv[2]=='sym'
    bad={}
    for n in range(1,nmax+1):
        cells=[(i,j) for i in range(n) for j in range(n) if (i<j if sym else i!=j)]
        cnt=0
        for mask in range(1<<len(cells)):
            M=[[0]*n for _ in range(n)]
            for k,(i,j) in enumerate(cells):
                if mask>>k&1:
                    M[i][j]=1
                    if sym: M[j][i]=1
            Sp,Sj=csr(M); MT=[list(r) for r in zip(*M)]; Tp,Tj=csr(MT)
            try:
                rs(n,Sp,Sj,Tp,Tj)
            except Bad as e:
                key=str(e).split(' ')[0]
                bad.setdefault(key,[]); 
                if len(bad[key])<2: bad[key].append((M,str(e)))
            cnt+=1
        print(n,cnt,{k:len(v) for k,v in bad.items()})
    for k,v in bad.items(): print(k, v[0])
