import numpy as np, scipy.sparse as sp, scipy.linalg as sla, warnings
warnings.simplefilter('ignore')
import pyamg
from pyamg.gallery import poisson
rng=np.random.default_rng(0)
def dense_smoother(lvl, which, n):
    # probe affine map: x -> S(x,b) ; returns (E, Q) with S(x,b) = E x + Q b
    f = lvl.presmoother if which=='pre' else lvl.postsmoother
    A = lvl.A
    E=np.zeros((n,n)); Qm=np.zeros((n,n))
    for k in range(n):
        x=np.zeros(n); x[k]=1; b=np.zeros(n); f(A,x,b); E[:,k]=x
        x=np.zeros(n); b=np.zeros(n); b[k]=1; f(A,x,b); Qm[:,k]=x
    return E,Qm
def ref_cycle(ml, lvl, x, b, cycle, cpl):
    L=ml.levels[lvl]; A=L.A.toarray(); n=A.shape[0]
    E1,Q1=L._pre; x = E1@x + Q1@b
    r = b - A@x
    rc = L.R.toarray()@r
    nc=rc.shape[0]
    if lvl == len(ml.levels)-2:
        xc = np.linalg.pinv(ml.levels[-1].A.toarray())@rc
    else:
        xc=np.zeros(nc)
        if cycle=='V': xc=ref_cycle(ml,lvl+1,xc,rc,'V',cpl)
        elif cycle=='W':
            xc=ref_cycle(ml,lvl+1,xc,rc,'W',cpl); xc=ref_cycle(ml,lvl+1,xc,rc,'W',cpl)
        elif cycle=='F':
            xc=ref_cycle(ml,lvl+1,xc,rc,'F',cpl)
            for _ in range(cpl): xc=ref_cycle(ml,lvl+1,xc,rc,'V',cpl)
    x = x + L.P.toarray()@xc
    E2,Q2=L._post; x = E2@x + Q2@b
    return x
bad=[]
for t,(ctor,kw) in enumerate([(pyamg.smoothed_aggregation_solver,{}),(pyamg.ruge_stuben_solver,{}),(pyamg.rootnode_solver,{}),(pyamg.pairwise_solver,{})]):
    for n in [(9,9),(40,)]:
        A=poisson(n,format='csr')
        ml=ctor(A,max_coarse=3,max_levels=4,**kw)
        if len(ml.levels)<2: continue
        for L in ml.levels[:-1]:
            m=L.A.shape[0]; L._pre=dense_smoother(L,'pre',m); L._post=dense_smoother(L,'post',m)
        N=A.shape[0]; Ad=A.toarray()
        for cycle in ['V','W','F']:
            for cpl in [1,2]:
                M=ml.aspreconditioner(cycle=cycle) 
                D=np.column_stack([ml.solve(e,x0=np.zeros(N),maxiter=1,cycle=cycle,cycles_per_level=cpl,tol=1e-300) for e in np.eye(N)])
                Ref=np.column_stack([ref_cycle(ml,0,np.zeros(N),e,cycle,cpl) for e in np.eye(N)])
                if not np.allclose(D,Ref,atol=1e-10): bad.append(('M-mismatch',ctor.__name__,n,cycle,cpl,float(np.abs(D-Ref).max())))
                if cpl==1:
                    Dp=np.column_stack([M@e for e in np.eye(N)])
                    if not np.allclose(Dp,D,atol=1e-10): bad.append(('precond-mismatch',ctor.__name__,n,cycle))
                # energy norm of error propagator
                Eop=np.eye(N)-D@Ad
                Ah=sla.sqrtm(Ad).real; Ahi=np.linalg.inv(Ah)
                nrm=np.linalg.norm(Ah@Eop@Ahi,2)
                if nrm>1+1e-10: bad.append(('energy',ctor.__name__,n,cycle,cpl,nrm))
                # fixed point
                xs=rng.standard_normal(N); b=Ad@xs
                x1=ml.solve(b,x0=xs.copy(),maxiter=1,cycle=cycle,cycles_per_level=cpl,tol=1e-300)
                if not np.allclose(x1,xs,atol=1e-9): bad.append(('fixed',ctor.__name__,n,cycle,cpl))
print(len(bad)); print(bad[:10])
