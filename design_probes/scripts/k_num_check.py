import warnings; warnings.simplefilter('ignore')
import numpy as np, scipy.sparse as sp, pyamg, subprocess, time
from fractions import Fraction as Fr
from pyamg import amg_core
rng=np.random.default_rng(4)
def f(a): return ','.join(str(int(v)) for v in a) if len(a) else '-'
def fr(a): return ','.join(('inf' if np.isinf(v) else str(Fr(float(v)))) for v in a) if len(a) else '-'
lines=[]; exp=[]
def randA(n, zero_diag=False):
    M=(rng.random((n,n))<rng.choice([0.2,0.5,0.9]))*rng.integers(-4,5,size=(n,n)).astype(float)
    if rng.random()<0.5: M=np.triu(M)+np.triu(M,1).T
    d=rng.integers(1,9,size=n).astype(float)
    if zero_diag: d=np.where(rng.random(n)<0.2,0,d)
    M[np.arange(n),np.arange(n)]=d
    A=sp.csr_array(M); A.indptr=A.indptr.astype(np.int32); A.indices=A.indices.astype(np.int32)
    return A
for t in range(2500):
    n=int(rng.integers(1,10)); k=t%5
    if k<3:
        A=randA(n, zero_diag=True); th=float(rng.choice([0,0.25,0.5,1.0]))
        Sp=np.empty_like(A.indptr); Sj=np.empty_like(A.indices); Sx=np.empty_like(A.data)
        fn=[amg_core.classical_strength_of_connection_abs, amg_core.classical_strength_of_connection_min, amg_core.symmetric_strength_of_connection][k]
        fn(n, th, A.indptr, A.indices, A.data, Sp, Sj, Sx)
        nnz=Sp[n]
        lines.append(f'{["soc_abs","soc_min","soc_sym"][k]} {Fr(th)} {n} {f(A.indptr)} {f(A.indices)} {fr(A.data)}')
        exp.append(f(Sp)+';'+f(Sj[:nnz])+';'+fr(Sx[:nnz]))
    elif k==3:
        A=randA(n); th=float(rng.choice([0,0.25,0.5]))
        C=pyamg.strength.classical_strength_of_connection(A, theta=th, norm=str(rng.choice(['abs','min'])))
        C=C.copy(); C.eliminate_zeros(); C.data[:]=1.0; C=sp.csr_array(C.multiply(A)); 
        C.indptr=C.indptr.astype(np.int32); C.indices=C.indices.astype(np.int32)
        split=rng.integers(0,2,size=n).astype(np.int32)
        Pp=np.empty_like(A.indptr)
        amg_core.rs_direct_interpolation_pass1(n, C.indptr, C.indices, split, Pp)
        nnz=Pp[-1]; Pj=np.empty(nnz,dtype=np.int32); Px=np.empty(nnz,dtype=float)
        amg_core.rs_direct_interpolation_pass2(n, A.indptr, A.indices, A.data, C.indptr, C.indices, C.data, split, Pp, Pj, Px)
        lines.append(f'direct {n} {f(A.indptr)} {f(A.indices)} {fr(A.data)} {f(C.indptr)} {f(C.indices)} {fr(C.data)} {f(split)}')
        exp.append(('P', Pp, Pj, Px))
    else:
        W=(rng.random((n,n))<0.5)*rng.integers(1,5,size=(n,n)).astype(float); W=np.triu(W,1); W=W+W.T
        G=sp.csr_array(W); G.indptr=G.indptr.astype(np.int32); G.indices=G.indices.astype(np.int32)
        nc=int(rng.integers(1,max(2,n//2+1))); centers=rng.choice(n,size=min(nc,n),replace=False).astype(np.int32)
        d=np.full(n,np.inf); m=np.full(n,-1,dtype=np.int32); p=np.full(n,-1,dtype=np.int32)
        d[centers]=0; m[centers]=np.arange(len(centers))
        d0,m0,p0=d.copy(),m.copy(),p.copy()
        amg_core.bellman_ford(n,G.indptr,G.indices,G.data,centers,d,m,p)
        lines.append(f'bf {n} {f(G.indptr)} {f(G.indices)} {fr(G.data)} {fr(d0)} {f(m0)} {f(p0)}')
        exp.append(fr(d)+';'+f(m)+';'+f(p)+';true')
open('/tmp/leanprobe/n_ops.txt','w').write('\n'.join(lines)+'\n')
t0=time.time()
r=subprocess.run('cd /tmp/leanprobe/probe && lake env lean --run NMain.lean < /tmp/leanprobe/n_ops.txt',shell=True,capture_output=True,text=True)
got=r.stdout.strip().split('\n'); print('lean time %.2f'%(time.time()-t0), len(got), r.stderr[:300])
from collections import Counter
cnt=Counter(); shown=0; naninf=0
for ln,g,e in zip(lines,got,exp):
    ok=True
    if isinstance(e,tuple):
        _,Pp,Pj,Px=e; gp,gj,gx=g.split(';')
        if gp!=f(Pp) or gj!=f(Pj): ok=False
        else:
            gxs=gx.split(',') if gx!='-' else []
            for a,b in zip(gxs,Px):
                if a=='inf':   # model: division by zero; impl must be non-finite
                    naninf+=1
                    if np.isfinite(b): ok=False
                else:
                    if not np.isfinite(b) or abs(Fr(a)-Fr(float(b)))>Fr(1,10**9)*(1+abs(Fr(a))): ok=False
    else:
        def norm(txt):
            out=[]
            for part in txt.split(';'):
                toks=[] if part=='-' else part.split(',')
                out.append([t if t in('inf','true','false') else Fr(t) for t in toks])
            return out
        ok = (norm(g)==norm(e))
    if not ok:
        cnt[ln.split()[0]]+=1
        if shown<5: print('MISMATCH',ln[:150],'| lean',g[:150],'| impl',str(e)[:150]); shown+=1
print('mismatches',dict(cnt),'of',len(lines),'div-by-zero weights agreeing',naninf)
