import numpy as np, scipy.sparse as sp, warnings
warnings.simplefilter('ignore')
import pyamg
from pyamg.gallery import poisson, linear_elasticity
from pyamg.aggregation.tentative import fit_candidates
from pyamg.aggregation.smooth import energy_prolongation_smoother, jacobi_prolongation_smoother, richardson_prolongation_smoother
from pyamg.aggregation.aggregate import standard_aggregation
from pyamg.strength import symmetric_strength_of_connection
rng=np.random.default_rng(0)
bad=[]
def chk(name,cond,info):
    if not cond: bad.append((name,)+info)
for t in range(60):
    n=int(rng.integers(4,9)); A=poisson((n,n),format='csr')
    if t%3==0:
        # nonsymmetric perturbation
        A=(A+sp.diags_array([0.3*np.ones(A.shape[0]-1)],offsets=[1],shape=A.shape)).tocsr()
    C=symmetric_strength_of_connection(A,0.0)
    AggOp,_=standard_aggregation(C)
    k=int(rng.integers(1,3))
    B=np.ones((A.shape[0],k)); 
    if k==2: B[:,1]=np.arange(A.shape[0])
    T,Bc=fit_candidates(AggOp,B)
    chk('TBc',np.allclose(T@Bc,B),(t,k)); chk('TtT',np.allclose((T.T@T).toarray(),np.eye(T.shape[1])),(t,k))
    for krylov in ['cg','cgnr','gmres']:
        for deg in [1,2]:
            for maxiter in [1,4]:
                try:
                    P=energy_prolongation_smoother(A,T,C,Bc,None,(False,{}),krylov=krylov,maxiter=maxiter,degree=deg)
                    chk('PBc-'+krylov,np.allclose(P@Bc,B,atol=1e-8),(t,k,deg,maxiter,float(np.abs(P@Bc-B).max())))
                    # pattern allowed: |C|^deg * T pattern
                    Cp=(abs(C)>0).astype(float); Sp_=T.copy(); Sp_.data[:]=1
                    pat=Sp_
                    for _ in range(deg): pat=Cp@pat
                    pat=(pat.toarray()!=0)|(T.toarray()!=0)
                    chk('pattern-'+krylov,not np.any((P.toarray()!=0)&~pat),(t,k,deg,maxiter))
                except Exception as e: bad.append(('exc-'+krylov,t,type(e).__name__,str(e)[:70]))
    # jacobi filtered
    try:
        P=jacobi_prolongation_smoother(A,T,C,Bc,omega=4/3,degree=2,filter_entries=True,weighting='local')
        chk('jac-filter-PBc',np.allclose(P@Bc,B,atol=1e-8),(t,k))
    except Exception as e: bad.append(('exc-jacfilter',t,type(e).__name__,str(e)[:70]))
from collections import Counter
print(Counter([b[0] for b in bad])); print(bad[:8])
