#!/usr/bin/env python3
"""Feasibility probe for DESIGN §2.3 (not framework code).

Reads every pyamg/amg_core/*_bind.cpp for the Python-visible interface (wrapper parameter lists
and the `m.def` instantiation lists), writes one `extern "C"` forwarder per (kernel,
instantiation) that calls the template in the *working-tree header*, compiles one shared object
per header in parallel, and reports counts and timings. Usage:

    python3 corebuild_probe.py /repo /tmp/corebuild_out [--asan]
"""
import re
import subprocess
import sys
import time
from concurrent.futures import ThreadPoolExecutor
from pathlib import Path

STD = ['vector', 'cmath', 'complex', 'limits', 'algorithm', 'iostream', 'cstdio', 'cassert',
       'map', 'stack', 'numeric', 'cstdlib', 'queue', 'utility', 'iterator', 'functional', 'set']

WRAP = re.compile(r'template\s*<([^>]*)>\s*\n\s*(\w[\w:<> ]*?)\s+_(\w+)\s*\(([^)]*)\)\s*\{', re.S)
DEF = re.compile(r'm\.def\("(\w+)",\s*&_(\w+)<([^;]*?)>\s*,\s*\n', re.S)


def mangle(name, types):
    t = '_'.join(types)
    t = t.replace('std::complex<float>', 'cfloat').replace('std::complex<double>', 'cdouble')
    return f'{name}__{t}'.replace(' ', '')


def split_types(s):
    out, depth, cur = [], 0, ''
    for ch in s:
        if ch == '<':
            depth += 1
        if ch == '>':
            depth -= 1
        if ch == ',' and depth == 0:
            out.append(cur.strip())
            cur = ''
        else:
            cur += ch
    if cur.strip():
        out.append(cur.strip())
    return out


def parse_bind(path):
    src = path.read_text()
    wrappers = {}
    for m in WRAP.finditer(src):
        tparams = [p.strip().split()[-1] for p in m.group(1).split(',')]
        ret, name, params = m.group(2).strip(), m.group(3), m.group(4)
        plist = []
        for p in params.split(','):
            p = p.strip()
            if not p:
                continue
            am = re.match(r'py::array_t<(\w+)>\s*&\s*(\w+)', p)
            if am:
                plist.append(('array', am.group(1), am.group(2)))
            else:
                sm = re.match(r'(?:const\s+)?(\w+)\s+(\w+)', p)
                plist.append(('scalar', sm.group(1), sm.group(2)))
        wrappers[name] = (tparams, ret, plist)
    insts = []
    for m in DEF.finditer(src):
        # group(1) = Python-visible name, group(2) = C++ kernel (they differ for fit_candidates)
        insts.append((m.group(2), split_types(m.group(3))))
    return wrappers, insts


def gen(header, wrappers, insts):
    lines = [f'#include <{h}>' for h in STD]
    lines.append(f'#include "{header}"')
    n = 0
    seen = set()
    for name, types in insts:
        if name not in wrappers:
            continue
        tparams, ret, plist = wrappers[name]
        if len(types) != len(tparams):
            continue
        key = mangle(name, types)
        if key in seen:
            continue
        seen.add(key)
        sub = dict(zip(tparams, types))
        cparams, cargs = [], []
        for kind, ty, nm in plist:
            cty = sub.get(ty, ty)
            if kind == 'array':
                cparams += [f'{cty}* {nm}', f'int {nm}_size']
                cargs += [nm, f'{nm}_size']
            else:
                cparams.append(f'{cty} {nm}')
                cargs.append(nm)
        cret = sub.get(ret, ret)
        call = f'{name}<{", ".join(types)}>({", ".join(cargs)})'
        body = f'return {call};' if cret != 'void' else f'{call};'
        # complex scalars cannot cross an extern "C" boundary by value portably: pass by pointer
        lines.append(f'extern "C" {cret} {key}({", ".join(cparams)}) {{ {body} }}')
        n += 1
    return '\n'.join(lines) + '\n', n


def main():
    repo, out = Path(sys.argv[1]), Path(sys.argv[2])
    asan = '--asan' in sys.argv
    out.mkdir(parents=True, exist_ok=True)
    core = repo / 'pyamg' / 'amg_core'
    jobs, total = [], 0
    for bind in sorted(core.glob('*_bind.cpp')):
        stem = bind.name[:-len('_bind.cpp')]
        wrappers, insts = parse_bind(bind)
        src, n = gen(str(core / f'{stem}.h'), wrappers, insts)
        total += n
        cpp = out / f'{stem}_shim.cpp'
        cpp.write_text(src)
        flags = ['-O1', '-shared', '-fPIC', '-w']
        if asan:
            flags += ['-g', '-fsanitize=address,undefined', '-D_GLIBCXX_ASSERTIONS']
        jobs.append((stem, n, len(wrappers), ['g++', *flags, str(cpp), '-o', str(out / f'{stem}_shim.so')]))
    t0 = time.time()

    def run(job):
        stem, n, nw, cmd = job
        t = time.time()
        r = subprocess.run(cmd, capture_output=True, text=True)
        return stem, n, nw, r.returncode, time.time() - t, r.stderr[-600:]

    with ThreadPoolExecutor(max_workers=8) as ex:
        for stem, n, nw, rc, dt, err in ex.map(run, jobs):
            print(f'{stem:22s} kernels={nw:3d} instantiations={n:3d} rc={rc} {dt:5.1f}s')
            if rc:
                print(err)
    print(f'total instantiations {total}, wall {time.time() - t0:.1f}s')


if __name__ == '__main__':
    main()
