import warnings; warnings.simplefilter('ignore')
import patch_ms, numpy as np, subprocess, time, itertools, pyamg
from pyamg.relaxation.smoothing import change_smoothers
rng=np.random.default_rng(7)
A=pyamg.gallery.poisson((200,),format='csr')
mls={}
for nl in (1,2,3,4):
    ml=pyamg.ruge_stuben_solver(A,max_levels=nl,max_coarse=2); assert len(ml.levels)==nl; mls[nl]=ml
names=[None,'gauss_seidel','jacobi','richardson','sor','chebyshev','block_gauss_seidel','block_jacobi','jacobi_ne','gauss_seidel_ne','gauss_seidel_nr','schwarz','cf_jacobi','fc_jacobi','cf_block_jacobi','fc_block_jacobi','cg','gmres','cgnr','cgne']
sweepable={'gauss_seidel','sor','block_gauss_seidel','gauss_seidel_ne','gauss_seidel_nr','schwarz'}
def rand_cfg():
    nm=names[rng.integers(len(names))]
    kw={}
    if nm is None: return None, ('_','_','_','_','_')
    itk='iterations'
    if nm in('cg','gmres','cgnr','cgne'): itk='maxiter'   # krylov setups take maxiter, flag looks at 'iterations' only
    it=None
    if rng.random()<0.5 and itk=='iterations': it=int(rng.integers(1,3)); kw['iterations']=it
    sw=None
    if nm in sweepable and rng.random()<0.8: sw=str(rng.choice(['forward','backward','symmetric'])); kw['sweep']=sw
    f=c=None
    if nm.startswith(('cf_','fc_')):
        if rng.random()<0.5: f=int(rng.integers(1,3)); kw['f_iterations']=f
        if rng.random()<0.5: c=int(rng.integers(1,3)); kw['c_iterations']=c
    if nm=='sor': kw['omega']=1.0
    enc=(nm, str(it) if it else '_', sw or '_', str(f) if f else '_', str(c) if c else '_')
    return ((nm,kw) if (kw or rng.random()<0.5) else nm), enc
lines=[]; exp=[]
for t in range(6000):
    nl=int(rng.integers(1,5)); ml=mls[nl]
    lp=int(rng.integers(1,4)); lq=int(rng.integers(1,4))
    # bias towards equal names
    pre=[rand_cfg() for _ in range(lp)]
    post=[(pre[min(i,lp-1)] if rng.random()<0.5 else rand_cfg()) for i in range(lq)]
    # randomly flip the sweep of copied entries
    def flip(cfg):
        spec,enc=cfg
        if isinstance(spec,tuple) and 'sweep' in spec[1] and rng.random()<0.6:
            kw=dict(spec[1]); kw['sweep']={'forward':'backward','backward':'forward','symmetric':'symmetric'}[kw['sweep']]
            enc=(enc[0],enc[1],kw['sweep'],enc[3],enc[4]); return ((spec[0],kw),enc)
        return cfg
    post=[flip(c) for c in post]
    P=[c[0] for c in pre]; Q=[c[0] for c in post]
    if lp==1 and rng.random()<0.5: P=P[0]
    if lq==1 and rng.random()<0.5: Q=Q[0]
    try:
        change_smoothers(ml,P,Q); fl=ml.symmetric_smoothing
    except Exception as e:
        continue
    lines.append('|'.join(':'.join(c[1]) for c in pre)+' '+'|'.join(':'.join(c[1]) for c in post)+' '+str(nl-1)); exp.append(str(bool(fl)).lower())
open('/tmp/leanprobe/flag_ops.txt','w').write('\n'.join(lines)+'\n')
r=subprocess.run('cd /tmp/leanprobe/probe && lake env lean --run FlagMain.lean < /tmp/leanprobe/flag_ops.txt',shell=True,capture_output=True,text=True)
got=r.stdout.strip().split('\n'); print(len(got),len(lines),r.stderr[:200])
bad=[(l,g,e) for l,g,e in zip(lines,got,exp) if g!=e]
print('cases',len(lines),'true-rate',sum(e=='true' for e in exp)/len(exp),'mismatch',len(bad))
for b in bad[:8]: print(b)
