import numpy as np, scipy.sparse as sp, warnings, scipy.linalg as sla
warnings.simplefilter('ignore')
from pyamg.util import utils as U
from pyamg.util import linalg as L
from pyamg.multilevel import coarse_grid_solver
rng=np.random.default_rng(1)
bad=[]
# get_block_diag / pinv_array / amalgamate / remove_diagonal
for t in range(200):
    bs=int(rng.integers(1,4)); nb=int(rng.integers(1,5)); n=bs*nb
    cplx=bool(rng.integers(2))
    D=rng.standard_normal((n,n))*(rng.random((n,n))<0.6)
    if cplx: D=D+1j*rng.standard_normal((n,n))*(rng.random((n,n))<0.6)
    A=sp.csr_array(D)
    try:
        B=U.get_block_diag(A,blocksize=bs,inv_flag=False)
        ref=np.array([D[i*bs:(i+1)*bs,i*bs:(i+1)*bs] for i in range(nb)])
        if not np.allclose(B,ref): bad.append(('get_block_diag',n,bs,cplx))
        Bi=U.get_block_diag(A,blocksize=bs,inv_flag=True)
        refi=np.array([np.linalg.pinv(r) for r in ref])
        if not np.allclose(Bi,refi,atol=1e-8): bad.append(('get_block_diag-inv',n,bs,cplx))
    except Exception as e: bad.append(('gbd-exc',type(e).__name__,str(e)[:70]))
    try:
        R=U.remove_diagonal(A).toarray()
        if not np.allclose(R,D-np.diag(np.diag(D))): bad.append(('remove_diagonal',n))
    except Exception as e: bad.append(('rd-exc',type(e).__name__,str(e)[:70]))
    try:
        Am=U.amalgamate(A,bs).toarray()
        ref=np.array([[1.0 if np.any(D[i*bs:(i+1)*bs,j*bs:(j+1)*bs]!=0) else 0.0 for j in range(nb)] for i in range(nb)])
        if not np.allclose(Am!=0,ref!=0): bad.append(('amalgamate',n,bs))
    except Exception as e: bad.append(('amal-exc',type(e).__name__,str(e)[:70]))
# coarse grid solvers
for t in range(200):
    n=int(rng.integers(1,7)); cplx=bool(rng.integers(2))
    M=rng.standard_normal((n,n)); 
    if cplx: M=M+1j*rng.standard_normal((n,n))
    S=M@M.conj().T+np.eye(n)   # HPD
    for name in ['pinv','lu','cholesky','splu']:
        for shape in ['1d','col']:
            b=rng.standard_normal(n)+(1j*rng.standard_normal(n) if cplx else 0)
            bb=b if shape=='1d' else b.reshape(-1,1)
            try:
                cs=coarse_grid_solver(name)
                A=sp.csr_array(S)
                x=cs(A,bb.copy())
                if x.shape!=bb.shape: bad.append(('cgs-shape',name,shape,x.shape)); continue
                if not np.allclose(S@x.ravel(),b,atol=1e-8): bad.append(('cgs-wrong',name,shape,n,cplx)); continue
                b2=rng.standard_normal(n)+(1j*rng.standard_normal(n) if cplx else 0)
                bb2=b2 if shape=='1d' else b2.reshape(-1,1)
                x2=cs(A,bb2.copy())
                if not np.allclose(S@x2.ravel(),b2,atol=1e-8): bad.append(('cgs-reuse',name,shape,n,cplx))
            except Exception as e: bad.append(('cgs-exc',name,shape,cplx,type(e).__name__,str(e)[:60]))
    # singular for pinv: min-norm LS
    if n>=2:
        Sg=S.copy(); Sg[:, -1]=Sg[:, 0]; Sg[-1,:]=Sg[0,:]
        b=rng.standard_normal(n)+(1j*rng.standard_normal(n) if cplx else 0)
        try:
            x=coarse_grid_solver('pinv')(sp.csr_array(Sg),b.copy())
            ref=np.linalg.pinv(Sg)@b
            if not np.allclose(x,ref,atol=1e-7): bad.append(('pinv-singular',n,cplx))
        except Exception as e: bad.append(('pinv-exc',type(e).__name__,str(e)[:60]))
    # splu with zero rows/cols
    if n>=2:
        Z=S.copy(); Z[0,:]=0; Z[:,0]=0
        b=rng.standard_normal(n)+(1j*rng.standard_normal(n) if cplx else 0); b[0]=0
        try:
            x=coarse_grid_solver('splu')(sp.csr_array(Z),b.copy())
            if not np.allclose(Z@x,b,atol=1e-8): bad.append(('splu-zero',n,cplx))
        except Exception as e: bad.append(('splu-zero-exc',type(e).__name__,str(e)[:60]))
# empty matrix
for name in ['pinv','lu','cholesky','splu']:
    try:
        x=coarse_grid_solver(name)(sp.csr_array((3,3)),np.ones(3))
        if not np.allclose(x,0): bad.append(('empty',name,x))
    except Exception as e: bad.append(('empty-exc',name,type(e).__name__,str(e)[:60]))
from collections import Counter
print(Counter([b[0] if b[0]!='cgs-exc' else b[:2] for b in bad])); print(bad[:10])
