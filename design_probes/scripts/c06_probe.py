import sys; sys.path.insert(0,'/verif/design_probes/scripts')
import patch_ms
import numpy as np, scipy.sparse as sp, warnings
warnings.simplefilter('ignore')
from pyamg import krylov
rng=np.random.default_rng(0)
solvers=['cg','cr','cgne','cgnr','bicgstab','gmres','gmres_mgs','gmres_householder','fgmres','minimal_residual','steepest_descent']
bad=[]
for t in range(120):
    n=int(rng.integers(2,10)); cplx=bool(rng.integers(2))
    M0=rng.standard_normal((n,n))+(1j*rng.standard_normal((n,n)) if cplx else 0)
    A=M0@M0.conj().T+n*np.eye(n)          # HPD, well conditioned
    xs=rng.standard_normal(n)+(1j*rng.standard_normal(n) if cplx else 0); b=A@xs
    for name in solvers:
        f=getattr(krylov,name)
        for mode in ['plain','exact','maxiter1']:
            res=[]; cbs=[]
            kw=dict(tol=1e-8,residuals=res,callback=lambda x: cbs.append(np.array(x,copy=True)))
            if mode=='exact': kw['x0']=xs.copy()
            if mode=='maxiter1': kw['maxiter']=1
            A0,b0=A.copy(),b.copy()
            try:
                x,info=f(A,b,**kw)
            except Exception as e:
                bad.append((name,mode,'EXC',type(e).__name__,str(e)[:60])); continue
            r=np.linalg.norm(b-A@x)/np.linalg.norm(b)
            if not np.all(np.isfinite(x)): bad.append((name,mode,'nonfinite'))
            if info==0 and r>1e-6: bad.append((name,mode,'status0-but-res',float(r)))
            if info<0: bad.append((name,mode,'neg-status',info))
            if mode=='exact':
                if info!=0: bad.append((name,mode,'exact-status',info))
                if not np.allclose(x,xs): bad.append((name,mode,'exact-changed'))
                if len(res)!=1: bad.append((name,mode,'exact-nres',len(res)))
            if mode=='maxiter1' and info>0 and info!=1 and name not in ('gmres','gmres_mgs','gmres_householder','fgmres'):
                bad.append((name,mode,'status-vs-maxiter',info))
            if len(res)>=1 and not np.isclose(res[-1],np.linalg.norm(b-A@x),rtol=1e-5,atol=1e-9) and name not in ('gmres','gmres_mgs','gmres_householder','fgmres'):
                bad.append((name,mode,'last-res-mismatch',float(res[-1]),float(np.linalg.norm(b-A@x))))
            if not (np.array_equal(A,A0) and np.array_equal(b,b0)): bad.append((name,mode,'inputs-modified'))
            if name not in ('gmres','gmres_mgs','gmres_householder','fgmres') and len(res)!=len(cbs)+1:
                bad.append((name,mode,'hist-vs-cb',len(res),len(cbs)))
from collections import Counter
print(Counter([b[:3] for b in bad]).most_common(25))
