"""Sanitizer smoke fuzz (C17 search in miniature): random structurally valid CSR patterns,
exact-size buffers, kernels from the ASan/UBSan/_GLIBCXX_ASSERTIONS shims."""
import ctypes, sys, numpy as np, scipy.sparse as sp
D='/tmp/cb_asan/'
rs=ctypes.CDLL(D+'ruge_stuben_shim.so'); sa=ctypes.CDLL(D+'smoothed_aggregation_shim.so'); gr=ctypes.CDLL(D+'graph_shim.so')
P=lambda a: a.ctypes.data_as(ctypes.c_void_p)
I=lambda a: np.ascontiguousarray(a,dtype=np.int32)
rng=np.random.default_rng(int(sys.argv[1])); which=sys.argv[2]
def pat(n,sym,diag,dens):
    M=(rng.random((n,n))<dens).astype(float)*rng.integers(1,5,(n,n))*rng.choice([-1,1],(n,n))
    if sym: M=np.triu(M,1); M=M+M.T
    if diag: M[np.arange(n),np.arange(n)]=rng.integers(1,9,n)
    else: np.fill_diagonal(M,0)
    S=sp.csr_array(M); S.sort_indices()
    if rng.random()<0.3 and S.nnz>1:   # unsorted column indices within rows
        for i in range(n):
            a,b=S.indptr[i],S.indptr[i+1]; p=rng.permutation(b-a); S.indices[a:b]=S.indices[a:b][p]; S.data[a:b]=S.data[a:b][p]
    return S
for t in range(int(sys.argv[3])):
    n=int(rng.integers(1,12)); sym=bool(rng.integers(2)); diag=bool(rng.integers(2)); dens=float(rng.choice([0.0,0.15,0.4,0.9]))
    S=pat(n,sym,diag,dens); T=sp.csr_array(S.T); T.sort_indices()
    Sp,Sj,Sx=I(S.indptr),I(S.indices),np.ascontiguousarray(S.data,dtype=np.float64)
    Tp,Tj=I(T.indptr),I(T.indices)
    print('case',which,t,n,sym,diag,dens,Sp.tolist(),Sj.tolist(),flush=True)
    if which=='rs':
        infl=np.zeros(n,dtype=np.int32); spl=np.empty(n,dtype=np.int32)
        rs.rs_cf_splitting__int(n,P(Sp),len(Sp),P(Sj),len(Sj),P(Tp),len(Tp),P(Tj),len(Tj),P(infl),n,P(spl),n)
        rs.rs_cf_splitting_pass2__int(n,P(Sp),len(Sp),P(Sj),len(Sj),P(spl),n)
        Pp=np.empty(n+1,dtype=np.int32)
        rs.rs_direct_interpolation_pass1__int(n,P(Sp),len(Sp),P(Sj),len(Sj),P(spl),n,P(Pp),n+1)
        nn=int(Pp[n]); Pj=np.empty(nn,dtype=np.int32); Px=np.empty(nn)
        rs.rs_direct_interpolation_pass2__int_double(n,P(Sp),len(Sp),P(Sj),len(Sj),P(Sx),len(Sx),P(Sp),len(Sp),P(Sj),len(Sj),P(Sx),len(Sx),P(spl),n,P(Pp),n+1,P(Pj),nn,P(Px),nn)
        rs.rs_classical_interpolation_pass1__int(n,P(Sp),len(Sp),P(Sj),len(Sj),P(spl),n,P(Pp),n+1)
        nn=int(Pp[n]); Pj=np.empty(nn,dtype=np.int32); Px=np.empty(nn)
        for mod in (0,1):
            rs.rs_classical_interpolation_pass2__int_double(n,P(Sp),len(Sp),P(Sj),len(Sj),P(Sx),len(Sx),P(Sp),len(Sp),P(Sj),len(Sj),P(Sx),len(Sx),P(spl),n,P(Pp),n+1,P(Pj),nn,P(Px),nn,mod)
    elif which=='cljp':
        spl=np.empty(n,dtype=np.int32)
        for cf in (0,1):
            rs.cljp_naive_splitting__int(n,P(Sp),len(Sp),P(Sj),len(Sj),P(Tp),len(Tp),P(Tj),len(Tj),P(spl),n,cf)
    elif which=='soc':
        Op=np.empty(n+1,dtype=np.int32); Oj=np.empty(len(Sj),dtype=np.int32); Ox=np.empty(len(Sj))
        th=ctypes.c_double(float(rng.random()))
        rs.classical_strength_of_connection_abs__int_double_double(n,th,P(Sp),len(Sp),P(Sj),len(Sj),P(Sx),len(Sx),P(Op),n+1,P(Oj),len(Oj),P(Ox),len(Ox))
        rs.classical_strength_of_connection_min__int_double(n,th,P(Sp),len(Sp),P(Sj),len(Sj),P(Sx),len(Sx),P(Op),n+1,P(Oj),len(Oj),P(Ox),len(Ox))
        sa.symmetric_strength_of_connection__int_double_double(n,th,P(Sp),len(Sp),P(Sj),len(Sj),P(Sx),len(Sx),P(Op),n+1,P(Oj),len(Oj),P(Ox),len(Ox))
    elif which=='agg':
        x=np.empty(n,dtype=np.int32); y=np.empty(n,dtype=np.int32)
        sa.standard_aggregation__int(n,P(Sp),len(Sp),P(Sj),len(Sj),P(x),n,P(y),n)
        sa.naive_aggregation__int(n,P(Sp),len(Sp),P(Sj),len(Sj),P(x),n,P(y),n)
        sa.pairwise_aggregation__int_double(n,P(Sp),len(Sp),P(Sj),len(Sj),P(Sx),len(Sx),P(x),n,P(y),n)
    elif which=='graph':
        x=np.full(n,-1,dtype=np.int32)
        gr.maximal_independent_set_serial__int_int(n,P(Sp),len(Sp),P(Sj),len(Sj),-1,1,0,P(x),n)
        x=np.full(n,-1,dtype=np.int32); z=rng.random(n)
        gr.maximal_independent_set_parallel__int_int_double(n,P(Sp),len(Sp),P(Sj),len(Sj),-1,1,0,P(x),n,P(z),n,-1)
        gr.vertex_coloring_mis__int_int(n,P(Sp),len(Sp),P(Sj),len(Sj),P(x),n)
        o=np.empty(n,dtype=np.int32); l=np.full(n,-1,dtype=np.int32)
        gr.breadth_first_search__int(P(Sp),len(Sp),P(Sj),len(Sj),int(rng.integers(n)),P(o),n,P(l),n)
        c=np.empty(n,dtype=np.int32)
        gr.connected_components__int(n,P(Sp),len(Sp),P(Sj),len(Sj),P(c),n)
print('done',which)
