import Probe.Flag
open Probe.Flag
def parseOpt (s : String) : Option String := if s = "_" then none else some s
def parseCfg (s : String) : Cfg :=
  match s.splitOn ":" with
  | [nm, it, sw, f, c] => ⟨parseOpt nm, (parseOpt it).bind (·.toNat?), parseOpt sw, (parseOpt f).bind (·.toNat?), (parseOpt c).bind (·.toNat?)⟩
  | _ => ⟨none, none, none, none, none⟩
partial def loop (h : IO.FS.Stream) : IO Unit := do
  let line ← h.getLine
  if line.isEmpty then return ()
  match line.trimAscii.toString.splitOn " " with
  | [pre, post, nl] =>
    IO.println (toString (flag ((pre.splitOn "|").map parseCfg) ((post.splitOn "|").map parseCfg) (nl.toNat?.getD 0)))
  | _ => IO.println "bad-op"
  loop h
def main : IO Unit := do loop (← IO.getStdin)
