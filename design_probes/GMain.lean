import Probe.KGraph
open Probe.G
def parseNats (s : String) : Array Nat := if s = "-" then #[] else (s.splitOn ",").toArray.map (·.toNat?.getD 0)
def parseInts (s : String) : Array Int := if s = "-" then #[] else (s.splitOn ",").toArray.map (·.toInt?.getD 0)
def showInts (a : Array Int) : String := String.intercalate "," (a.toList.map toString)
def mkG (n ap aj : String) : Graph := ⟨n.toNat?.getD 0, parseNats ap, parseNats aj⟩
partial def loop (h : IO.FS.Stream) : IO Unit := do
  let line ← h.getLine
  if line.isEmpty then return ()
  let out := match line.trimAscii.toString.splitOn " " with
  | ["mis_serial", n, ap, aj] =>
    let G := mkG n ap aj
    showInts (misSerial G (-1) 1 0 (Array.replicate G.n (-1))).1
  | ["mis_par", n, ap, aj, y] =>   -- weights as integers (scaled)
    let G := mkG n ap aj
    showInts (misParallel G (-1) 1 0 (parseInts y) none (Array.replicate G.n (-1))).1
  | ["color_mis", n, ap, aj] => showInts (coloringMis (mkG n ap aj))
  | ["cc", n, ap, aj] => showInts (connectedComponents (mkG n ap aj))
  | ["bfs", n, ap, aj, seed] =>
    let (o, l) := bfs (mkG n ap aj) (seed.toNat?.getD 0)
    showInts o ++ ";" ++ showInts l
  | ["std_agg", n, ap, aj] =>
    let (x, y, k) := standardAggregation (mkG n ap aj)
    showInts x ++ ";" ++ showInts (y.extract 0 k) ++ ";" ++ toString k
  | ["naive_agg", n, ap, aj] =>
    let (x, y, k) := naiveAggregation (mkG n ap aj)
    showInts x ++ ";" ++ showInts (y.extract 0 k) ++ ";" ++ toString k
  | _ => "bad-op"
  IO.println out
  loop h
def main : IO Unit := do loop (← IO.getStdin)
