import Probe.KNum
open Probe.N
def parseRat (s : String) : Rat :=
  match s.splitOn "/" with
  | [a] => (a.toInt?.getD 0 : Int)
  | [a, b] => (a.toInt?.getD 0 : Int) / (b.toInt?.getD 1 : Int)
  | _ => 0
def parseNats (s : String) : Array Nat := if s = "-" then #[] else (s.splitOn ",").toArray.map (·.toNat?.getD 0)
def parseInts (s : String) : Array Int := if s = "-" then #[] else (s.splitOn ",").toArray.map (·.toInt?.getD 0)
def parseRats (s : String) : Array Rat := if s = "-" then #[] else (s.splitOn ",").toArray.map parseRat
def parseORats (s : String) : Array (Option Rat) := if s = "-" then #[] else (s.splitOn ",").toArray.map (fun t => if t = "inf" then none else some (parseRat t))
def sh (l : List String) : String := if l.isEmpty then "-" else String.intercalate "," l
def showNats (a : Array Nat) : String := sh (a.toList.map toString)
def showInts (a : Array Int) : String := sh (a.toList.map toString)
def showRats (a : Array Rat) : String := sh (a.toList.map fun q => s!"{q.num}/{q.den}")
def showORats (a : Array (Option Rat)) : String := sh (a.toList.map fun | none => "inf" | some q => s!"{q.num}/{q.den}")
def mk (n ap aj ax : String) : Csr := ⟨n.toNat?.getD 0, parseNats ap, parseNats aj, parseRats ax⟩
def showOut (o : Out) : String := showNats o.sp ++ ";" ++ showNats o.sj ++ ";" ++ showRats o.sx
partial def loop (h : IO.FS.Stream) : IO Unit := do
  let line ← h.getLine
  if line.isEmpty then return ()
  let out := match line.trimAscii.toString.splitOn " " with
  | ["soc_abs", th, n, ap, aj, ax] => showOut (classicalAbs 0 (parseRat th) (mk n ap aj ax))
  | ["soc_min", th, n, ap, aj, ax] => showOut (classicalMin (parseRat th) (mk n ap aj ax))
  | ["soc_sym", th, n, ap, aj, ax] => showOut (symmetricSoc (parseRat th) (mk n ap aj ax))
  | ["direct", n, ap, aj, ax, sp, sj, sx, split] =>
    let (pp, pj, px) := directInterp (mk n ap aj ax) (mk n sp sj sx) (parseInts split)
    showNats pp ++ ";" ++ showNats pj ++ ";" ++ showORats px
  | ["bf", n, ap, aj, ax, d, m, p] =>
    let (d, m, p, ok) := bellmanFord (mk n ap aj ax) (parseORats d) (parseInts m) (parseInts p)
    showORats d ++ ";" ++ showInts m ++ ";" ++ showInts p ++ ";" ++ toString ok
  | _ => "bad-op"
  IO.println out
  loop h
def main : IO Unit := do loop (← IO.getStdin)
