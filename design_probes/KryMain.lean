import Probe.KKrylov
open Probe.Kry
def parseRat (s : String) : Rat :=
  match s.splitOn "/" with
  | [a] => (a.toInt?.getD 0 : Int)
  | [a, b] => (a.toInt?.getD 0 : Int) / (b.toInt?.getD 1 : Int)
  | _ => 0
def parseVec (s : String) : Vec := (s.splitOn ",").toArray.map parseRat
def showVec (v : Vec) : String := String.intercalate "," (v.toList.map fun q => s!"{q.num}/{q.den}")
partial def loop (h : IO.FS.Stream) : IO Unit := do
  let line ← h.getLine
  if line.isEmpty then return ()
  match line.trimAscii.toString.splitOn " " with
  | [name, a, b, x0, tol2, maxiter] =>
    let A := (a.splitOn ";").toArray.map parseVec
    let f := match name with | "cg" => cg | "sd" => steepestDescent | _ => minimalResidual
    let r := f A (parseVec b) (parseVec x0) (parseRat tol2) (maxiter.toNat?.getD 0)
    IO.println s!"{r.status} {r.nres} {showVec r.x} {String.intercalate ";" (r.iterates.map showVec)}"
  | _ => IO.println "bad-op"
  loop h
def main : IO Unit := do loop (← IO.getStdin)
