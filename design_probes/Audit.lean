import Probe
open Probe
#print axioms Probe.solve_spec
#print axioms Probe.cyc_nonexp
#print axioms Probe.cyc_isLinIter
#print axioms Probe.Mop_sym
#print axioms Probe.gsSweep_nonexp
#print axioms Probe.sorRow_energy
#print axioms Probe.jacobi_nonexp
#print axioms Probe.cg_optimal
#print axioms Probe.Coarsen.build_spec
#print axioms Probe.Cache.last_independent
#print axioms Probe.Agg.standardAggregation_spec
#print axioms Probe.RS.rs_independent
#print axioms Probe.RS.rs_dominating'
#print axioms Probe.misSerial_correct
#print axioms Probe.misParallel_correct
#print axioms Probe.Safe.misSerial_safe
#print axioms Probe.Soc.soc_rule
#print axioms Probe.Direct.directRow_rowsum
#print axioms Probe.Stencil.contrib_mem
#print axioms Probe.GS.newCol_spec
#print axioms Probe.proj_constraint
