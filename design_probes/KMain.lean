import Probe.KRelax
open Probe.K

def parseRat (s : String) : Rat :=
  match s.splitOn "/" with
  | [a] => (a.toInt?.getD 0 : Int)
  | [a, b] => (a.toInt?.getD 0 : Int) / (b.toInt?.getD 1 : Int)
  | _ => 0
def parseNats (s : String) : Array Nat := if s = "-" then #[] else (s.splitOn ",").toArray.map (·.toNat?.getD 0)
def parseRats (s : String) : Array Rat := if s = "-" then #[] else (s.splitOn ",").toArray.map parseRat
def showRats (a : Array Rat) : String := String.intercalate "," (a.toList.map fun q => s!"{q.num}/{q.den}")
def mkCsr (n ap aj ax : String) : Csr Rat := ⟨n.toNat?.getD 0, parseNats ap, parseNats aj, parseRats ax⟩

partial def loop (h : IO.FS.Stream) : IO Unit := do
  let line ← h.getLine
  if line.isEmpty then return ()
  let out := match line.trimAscii.toString.splitOn " " with
  | ["gs", n, ap, aj, ax, b, x, s0, s1, s2] =>
    showRats (gaussSeidel (mkCsr n ap aj ax) (parseRats b) (sweepIdx (s0.toInt?.getD 0) (s1.toInt?.getD 0) (s2.toInt?.getD 0)) (parseRats x))
  | ["sor", om, n, ap, aj, ax, b, x, s0, s1, s2] =>
    showRats (sorGaussSeidel (parseRat om) (mkCsr n ap aj ax) (parseRats b) (sweepIdx (s0.toInt?.getD 0) (s1.toInt?.getD 0) (s2.toInt?.getD 0)) (parseRats x))
  | ["jac", om, n, ap, aj, ax, b, x, s0, s1, s2] =>
    let xv := parseRats x
    showRats (jacobi (parseRat om) (mkCsr n ap aj ax) (parseRats b) (sweepIdx (s0.toInt?.getD 0) (s1.toInt?.getD 0) (s2.toInt?.getD 0)) (Array.replicate xv.size 0) xv)
  | ["jaci", om, n, ap, aj, ax, b, x, idx] =>
    showRats (jacobiIndexed (parseRat om) (mkCsr n ap aj ax) (parseRats b) (parseNats idx).toList (parseRats x))
  | ["gsi", n, ap, aj, ax, b, x, idx, s0, s1, s2] =>
    showRats (gaussSeidelIndexed (mkCsr n ap aj ax) (parseRats b) (parseNats idx) (sweepIdx (s0.toInt?.getD 0) (s1.toInt?.getD 0) (s2.toInt?.getD 0)) (parseRats x))
  | ["gsne", om, n, ap, aj, ax, b, x, dinv, s0, s1, s2] =>
    showRats (gaussSeidelNE id (parseRat om) (mkCsr n ap aj ax) (parseRats b) (parseRats dinv) (sweepIdx (s0.toInt?.getD 0) (s1.toInt?.getD 0) (s2.toInt?.getD 0)) (parseRats x))
  | ["gsnr", om, n, ap, aj, ax, r, x, dinv, s0, s1, s2] =>
    let (xo, ro) := gaussSeidelNR id (parseRat om) (mkCsr n ap aj ax) (parseRats dinv) (sweepIdx (s0.toInt?.getD 0) (s1.toInt?.getD 0) (s2.toInt?.getD 0)) (parseRats x) (parseRats r)
    showRats xo ++ ";" ++ showRats ro
  | ["jacne", om, n, ap, aj, ax, delta, x, s0, s1, s2] =>
    showRats (jacobiNE id (parseRat om) (mkCsr n ap aj ax) (parseRats delta) (sweepIdx (s0.toInt?.getD 0) (s1.toInt?.getD 0) (s2.toInt?.getD 0)) (parseRats x))
  | _ => "bad-op"
  IO.println out
  loop h
def main : IO Unit := do loop (← IO.getStdin)
