def hello := "world"
