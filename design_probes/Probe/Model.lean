namespace Probe

/-- CSR matrix over an arbitrary scalar type. -/
structure Csr (α : Type) where
  n  : Nat
  ap : Array Nat
  aj : Array Nat
  ax : Array α
deriving Repr

variable {α : Type} [Add α] [Sub α] [Mul α] [Div α] [OfNat α 0] [DecidableEq α]

/-- one Gauss-Seidel row update, literally the C++ inner loop -/
def gsRow (A : Csr α) (b : Array α) (x : Array α) (i : Nat) : Array α :=
  let start := A.ap.getD i 0
  let stop  := A.ap.getD (i+1) 0
  let (rsum, diag) := (List.range' start (stop - start)).foldl
    (fun (acc : α × α) jj =>
      let j := A.aj.getD jj 0
      if i = j then (acc.1, A.ax.getD jj 0) else (acc.1 + A.ax.getD jj 0 * x.getD j 0, acc.2))
    ((0 : α), (0 : α))
  if diag = 0 then x else x.setIfInBounds i ((b.getD i 0 - rsum) / diag)

def gsSweep (A : Csr α) (b x : Array α) (rows : List Nat) : Array α :=
  rows.foldl (gsRow A b) x

end Probe
