import Probe.Stencil
open Probe.Stencil
def parseRat (s : String) : Rat :=
  match s.splitOn "/" with
  | [a] => (a.toInt?.getD 0 : Int)
  | [a, b] => (a.toInt?.getD 0 : Int) / (b.toInt?.getD 1 : Int)
  | _ => 0
partial def loop (h : IO.FS.Stream) : IO Unit := do
  let line ← h.getLine
  if line.isEmpty then return ()
  match line.trimAscii.toString.splitOn " " with
  | ["stencil", grid, sten] =>
    let g := (grid.splitOn ",").map (·.toNat?.getD 0)
    let s := (sten.splitOn "|").map (fun e =>
      match e.splitOn ":" with
      | [off, v] => ((off.splitOn ",").map (·.toInt?.getD 0), parseRat v)
      | _ => ([], 0))
    let out := stencilGrid g s
    IO.println (if out.isEmpty then "-" else String.intercalate "|" (out.map fun (r, c, v) => s!"{r},{c},{v.num}/{v.den}"))
  | _ => IO.println "bad-op"
  loop h
def main : IO Unit := do loop (← IO.getStdin)
