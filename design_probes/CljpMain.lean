import Probe.KCljp
open Probe.KCljp
def parseNats (s : String) : Array Nat := if s = "-" then #[] else (s.splitOn ",").toArray.map (·.toNat?.getD 0)
def parseFloats (s : String) : Array Float :=
  if s = "-" then #[] else (s.splitOn ",").toArray.map (fun t => Float.ofBits (t.toNat?.getD 0).toUInt64)
def showInts (a : Array Int) : String := String.intercalate "," (a.toList.map toString)
partial def loop (h : IO.FS.Stream) : IO Unit := do
  let line ← h.getLine
  if line.isEmpty then return ()
  let out := match line.trimAscii.toString.splitOn " " with
  | ["cljp", n, sp, sj, tp, tj, w] =>
    let S : Csr := ⟨n.toNat?.getD 0, parseNats sp, parseNats sj⟩
    let T : Csr := ⟨n.toNat?.getD 0, parseNats tp, parseNats tj⟩
    let (r, ok) := run floatOps S T (parseFloats w) (S.n + 1)
    showInts r ++ (if ok then "" else " fuel-exhausted")
  | _ => "bad-op"
  IO.println out
  loop h
def main : IO Unit := do loop (← IO.getStdin)
