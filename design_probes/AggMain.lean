import Probe.StdAgg5
open Probe Probe.Agg
def parseNats (s : String) : Array Nat := if s = "-" then #[] else (s.splitOn ",").toArray.map (·.toNat?.getD 0)
def showInts (a : Array Int) : String := if a.isEmpty then "-" else String.intercalate "," (a.toList.map toString)
partial def loop (h : IO.FS.Stream) : IO Unit := do
  let line ← h.getLine
  if line.isEmpty then return ()
  match line.trimAscii.toString.splitOn " " with
  | ["std_agg", n, ap, aj] =>
    let n := n.toNat?.getD 0
    let ap := parseNats ap; let aj := parseNats aj
    let G : Graph := ⟨n, fun i => (List.range' (ap.getD i 0) (ap.getD (i+1) 0 - ap.getD i 0)).map (aj.getD · 0)⟩
    let (x, y, k) := standardAggregation G
    IO.println (showInts x ++ ";" ++ showInts (y.extract 0 k.toNat) ++ ";" ++ toString k)
  | _ => IO.println "skip"
  loop h
def main : IO Unit := do loop (← IO.getStdin)
