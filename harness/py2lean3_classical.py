"""Python-AST -> Lean translator, driver `classical` of the second mode (extension E58; properties C13 and C11).

`generate()` (called from `translate.regenerate()`, i.e. on EVERY run of `./check`) reads the functions listed in
`TARGETS` from the WORKING TREE of the repository and writes `lean/PyamgV/Generated/PyLogic3_classical.lean`
(git-ignored, rewritten only when its content changes).  It REUSES the translation machinery of `py2lean2.py` (read its
docstring: subset, opaque objects, event semantics, sentinel behaviour, what is trusted) -- `Fn3` is a subclass of
`py2lean2.Fn2` -- and adds what the Python wrappers of `pyamg/classical/split.py` (`RS`, `PMIS`, `PMISc`, `CLJP`,
`CLJPc`, `MIS`, `_preprocess`) and `pyamg/classical/interpolate.py` (`direct_interpolation`,
`classical_interpolation`, `injection_interpolation`, `one_point_interpolation`) need (run-time:
`lean/PyamgV/Model/ExtPy3ClassicalRt.lean`, mock objects: those of `harness/extpy2.py`, cases:
`harness/extpy3_classical.py`):

`np.append(..)` : a method named `append` / `extend` / `pop` / ... on a name the function does NOT bind (a module-level
                  object) is an ordinary call event, not the mutation of a local list.
`e.a[k] = v`    : item / slice assignment through an attribute expression (`C.data[:] = 1.0`) = `symSetItemExpr`: the
                  `setitem` event of E42 on the opaque object `e.a` evaluates to (the right-hand side is evaluated first,
                  as CPython does).
`n * [e]`       : a list display times a value = `symMulSeq` (list repetition for an `int` count, otherwise the `mul` event).
`del x, y`      : of local names / parameters that are bound at that point: no code; the names are UNDEFINED afterwards
                  for the definite-assignment analysis (a later read is rejected: `may be unbound`).
`except C as e` : accepted when `e` is used ONLY as the cause of `raise D(...) from e` statements of that handler; the
                  handler is translated as `except C: raise D(...)` (the cause changes neither the exception class nor
                  the events).  Any other use of the name is rejected as in py2lean2.
try / rollback  : py2lean2 rejects a `try` body that assigns a variable before a statement that may raise (Lean rolls the
                  assignment back, CPython does not).  When EVERY handler ends in `raise` / `return` the rolled-back
                  value can only be observed inside the handlers: such a `try` is accepted when no handler reads a
                  variable the body assigns (`try: A = A.tocsr(); warn(...); n = A.shape[0] except ...: raise ...`).

Everything else is py2lean2's subset; source outside it yields the sentinel `unsupported "<reason>"` (the file still
compiles, the driver answers `E:Unsupported`, the theorems in `Proofs/ExtPy3Classical{Split,Interp}.lean` stop compiling = broken
obligations of C13 / C11).  Calls of other module-level functions (`remove_diagonal`, `_preprocess`, `MIS`, `CLJP`,
`classical_strength_of_connection`, `vertex_coloring`, `csr_array`, ...) and of `amg_core.*` kernels are events with
their argument identities, exactly as in E42.
"""
import ast
import copy
import hashlib
import re
import subprocess

import py2lean as P
import py2lean2 as P2
from py2lean import Unsupported, lstr

VERIF, LEAN, GEN = P.VERIF, P.LEAN, P.GEN
NS = 'PyLogic3_classical'
RT = 'ExtPy3ClassicalRt'

SPLIT = 'pyamg/classical/split.py'
INTERP = 'pyamg/classical/interpolate.py'

# (lean name, file, qualified name, number of Python parameters, has effects)
TARGETS = [
    ('split_RS', SPLIT, 'RS', 2, True),
    ('split_PMIS', SPLIT, 'PMIS', 1, True),
    ('split_PMISc', SPLIT, 'PMISc', 2, True),
    ('split_CLJP', SPLIT, 'CLJP', 2, True),
    ('split_CLJPc', SPLIT, 'CLJPc', 1, True),
    ('split_MIS', SPLIT, 'MIS', 3, True),
    ('split_preprocess', SPLIT, '_preprocess', 2, True),
    ('interp_direct_interpolation', INTERP, 'direct_interpolation', 5, True),
    ('interp_classical_interpolation', INTERP, 'classical_interpolation', 6, True),
    ('interp_injection_interpolation', INTERP, 'injection_interpolation', 2, True),
    ('interp_one_point_interpolation', INTERP, 'one_point_interpolation', 4, True),
]


def _loads(node, name):
    return [n for n in ast.walk(node) if isinstance(n, ast.Name) and n.id == name]


def strip_handler_names(fdef):
    """a copy of the function in which `except C as e: ... raise D(...) from e` has become `except C: ... raise D(...)`;
    Unsupported when the name is used in any other way"""
    new = copy.deepcopy(fdef)
    for t in [n for n in ast.walk(new) if isinstance(n, ast.Try)]:
        for h in t.handlers:
            if h.name is None:
                continue
            nm = h.name
            inside = set()
            for st in ast.walk(h):
                if isinstance(st, ast.Raise) and isinstance(st.cause, ast.Name) and st.cause.id == nm \
                        and st.exc is not None and not _loads(st.exc, nm):
                    inside.add(id(st.cause))
                    st.cause = None
            rest = [n for n in _loads(new, nm) if id(n) not in inside]
            if rest:
                raise Unsupported(f'except ... as {nm}: the name is used other than as the cause of `raise ... from {nm}`')
            h.name = None
    return new


class Fn3(P2.Fn2):
    def __init__(self, gen, module, fdef, lean_name, effects, cls_name, helper=False):
        super().__init__(gen, module, strip_handler_names(fdef), lean_name, effects, cls_name, helper)

    # ---------------------------------------------------------------- scans

    def collect_locals(self, stmts):
        # as Fn2.collect_locals, but `del <names>` is part of the subset
        for n in P2.scope_walk(stmts):
            if isinstance(n, (ast.NamedExpr, ast.Global, ast.Nonlocal, ast.AnnAssign, ast.With, ast.Yield, ast.YieldFrom,
                              ast.Await, ast.AsyncFunctionDef, ast.Match)):
                raise Unsupported(type(n).__name__)
            if isinstance(n, ast.Delete) and not all(isinstance(t, ast.Name) for t in n.targets):
                raise Unsupported('del of something that is not a name')
            if isinstance(n, ast.ExceptHandler) and n.name:
                raise Unsupported('except ... as name')
        # `np.append(a, b)` is a call of the module-level object `np`, not the mutation of a local list: only names the
        # function binds can be locals
        self.locals |= (P2.stored_names(stmts) & self.scope_names) - set(self.helpers)

    def check_try_rollback(self, st):
        if st.handlers and all(self.terminates(h.body) for h in st.handlers):
            assigned = P2.stored_names(st.body)
            read = {n.id for h in st.handlers for n in ast.walk(h) if isinstance(n, ast.Name) and isinstance(n.ctx, ast.Load)}
            bad = sorted(assigned & read)
            if bad:
                raise Unsupported(f'try body assigns {bad} and a handler reads them (Lean rolls the assignment back, '
                                  'CPython does not)')
            return
        super().check_try_rollback(st)

    # ---------------------------------------------------------------- expressions

    def expr(self, e, env):
        if self.effects and isinstance(e, ast.BinOp) and isinstance(e.op, ast.Mult) \
                and (isinstance(e.left, ast.List) or isinstance(e.right, ast.List)):
            a, _ = self.val(e.left, env)
            b, _ = self.val(e.right, env)
            return self.act(f'symMulSeq {a} {b}'), 'val', True
        return super().expr(e, env)

    # ---------------------------------------------------------------- statements

    def slice_key(self, sl, env):
        if sl.step is not None:
            raise Unsupported('slice with a step')
        lo = self.val(sl.lower, env)[0] if sl.lower is not None else 'PyVal.none'
        hi = self.val(sl.upper, env)[0] if sl.upper is not None else 'PyVal.none'
        return f'(sliceKey {lo} {hi})'

    def assign_target(self, target, term, env, ind, defined):
        if self.effects and isinstance(target, ast.Subscript) and isinstance(target.value, ast.Attribute) \
                and not isinstance(target.slice, ast.Tuple):
            pre = []
            if '←' in term:
                v = self.fresh('rhs')
                pre = [f'{ind}let {v} := {term}']
                term = v
            x, _ = self.val(target.value, env)
            key = self.slice_key(target.slice, env) if isinstance(target.slice, ast.Slice) else self.val(target.slice, env)[0]
            return pre + [f'{ind}symSetItemExpr {x} {key} {term}']
        return super().assign_target(target, term, env, ind, defined)

    def stmt(self, st, env, ind):
        if isinstance(st, ast.Delete):
            defined = set(env['defined'])
            for t in st.targets:
                if not isinstance(t, ast.Name) or (t.id not in self.locals and t.id not in self.params):
                    raise Unsupported('del of something that is not a local name')
                if t.id not in defined:
                    raise Unsupported(f'del {t.id}: the name may be unbound')
                if env['loop']:
                    raise Unsupported('del inside a loop')
                defined.discard(t.id)
            return [f'{ind}pure ()'], defined
        return super().stmt(st, env, ind)


class Generator3(P2.Generator2):
    def helper(self, parent, node):
        return None            # nested defs stay closure values (none in the targets)

    def emit(self, lean, path, qual, arity, effects):
        """as Generator2.emit (top-level functions only), with Fn3 as the function translator"""
        doc = f'`{qual}` of {path}'
        try:
            module = self.module(path)
        except (OSError, SyntaxError) as ex:
            self.sentinel(lean, arity, effects, f'cannot parse {path}: {type(ex).__name__}', doc)
            self.order.append(lean)
            return
        node, cls, outers = module.find2(qual)
        if node is None or outers:
            self.sentinel(lean, arity, effects, f'function {qual} not found in {path} (or not unique / nested)', doc)
            self.order.append(lean)
            return
        try:
            tr = Fn3(self, module, node, lean, effects, cls)
            text = tr.translate()
            if len(tr.params) != arity:
                raise Unsupported(f'takes {len(tr.params)} parameters, {arity} expected')
            self.defs[lean] = dict(text=text, arity=arity, ok=True, reason='', doc=doc, effects=effects, params=tr.params,
                                   free_globals=sorted(tr.free_globals), table=True, captured=[])
        except Unsupported as ex:
            self.sentinel(lean, arity, effects, f'{qual} ({path}:{getattr(node, "lineno", 0)}): {ex}', doc)
        except RecursionError:
            self.sentinel(lean, arity, effects, f'{qual}: expression too deep', doc)
        self.order.append(lean)

    def render(self, sentinel_only=()):
        text = super().render(sentinel_only)
        text = text.replace('import PyamgV.Model.ExtPy2Rt\n', f'import PyamgV.Model.{RT}\n', 1)
        text = text.replace('GENERATED by harness/py2lean2.py', 'GENERATED by harness/py2lean3_classical.py (extension E58)', 1)
        text = text.replace('see the docstring of py2lean2.py', 'see the docstrings of py2lean3_classical.py / py2lean2.py', 1)
        text = text.replace('namespace PyamgV.Generated.PyLogic2\n', f'namespace PyamgV.Generated.{NS}\n', 1)
        text = text.replace('open PyamgV.ExtPy PyamgV.ExtPy2\n', 'open PyamgV.ExtPy PyamgV.ExtPy2 PyamgV.ExtPy3Classical\n', 1)
        text = text.replace('end PyamgV.Generated.PyLogic2\n', f'end PyamgV.Generated.{NS}\n', 1)
        return text


def build():
    g = Generator3()
    for lean, path, qual, arity, effects in TARGETS:
        g.emit(lean, path, qual, arity, effects)
    return g


def info():
    """{lean name: dict(ok, reason, params, free_globals, effects)} of the targets, from the working tree"""
    g = build()
    out = {n: {k: g.defs[n].get(k) for k in ('ok', 'reason', 'params', 'free_globals', 'effects')} for n, *_ in TARGETS}
    for n, path, qual, *_ in TARGETS:
        out[n].update(path=path, qual=qual)
    return out


def _compiles(text):
    tmp = VERIF / 'build' / 'py2lean'
    tmp.mkdir(parents=True, exist_ok=True)
    f = tmp / 'Candidate3_classical.lean'
    f.write_text(text)
    subprocess.run(['lake', 'build', f'PyamgV.Model.{RT}'], cwd=LEAN, capture_output=True, text=True, timeout=1200)
    p = subprocess.run(['lake', 'env', 'lean', str(f)], cwd=LEAN, capture_output=True, text=True, timeout=900)
    out = p.stdout + p.stderr
    lines = {int(m.group(1)) for m in re.finditer(r'Candidate3_classical\.lean:(\d+):\d+: error', out)}
    return p.returncode == 0, lines, out


def generate():
    """write Generated/PyLogic3_classical.lean; returns [(lean name, ok, reason)]"""
    g = build()
    text = g.render()
    target = GEN / f'{NS}.lean'
    GEN.mkdir(parents=True, exist_ok=True)
    stamp = VERIF / 'build' / 'py2lean' / 'ok3_classical.sha'
    model = LEAN / 'PyamgV' / 'Model'
    rt = b''.join((model / f).read_bytes() for f in (f'{RT}.lean', 'ExtPy2Rt.lean', 'ExtPyRt.lean'))
    digest = hashlib.sha256(text.encode() + rt).hexdigest()
    known_good = stamp.exists() and digest in stamp.read_text().split()
    if not known_good:
        try:
            ok, errlines, out = _compiles(text)
        except Exception:  # noqa: BLE001
            ok, errlines, out = True, set(), ''        # cannot run lean here: leave it to lake build
        if not ok:
            src = text.split('\n')
            bad = set()
            for ln in errlines:
                for k in range(min(ln, len(src)) - 1, -1, -1):
                    m = re.match(r'def (\w+)', src[k])
                    if m:
                        bad.add(m.group(1))
                        break
            bad &= set(g.order)
            text2 = g.render(sentinel_only=bad) if bad else None
            if text2 is None or not _compiles(text2)[0]:
                text2 = g.render(sentinel_only=set(g.order))
            text = text2
        else:
            stamp.parent.mkdir(parents=True, exist_ok=True)
            old = stamp.read_text().split()[-20:] if stamp.exists() else []
            stamp.write_text('\n'.join(old + [digest]) + '\n')
    if not target.exists() or target.read_text() != text:
        target.write_text(text)
    return [(n, g.defs[n]['ok'], g.defs[n]['reason']) for n in g.order]


if __name__ == '__main__':
    import sys
    if '--show' in sys.argv:
        print(build().render())
    else:
        for n, ok, why in generate():
            print(('ok   ' if ok else 'UNSUPPORTED ') + n + ('' if ok else ': ' + why))
