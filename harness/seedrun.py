#!/usr/bin/env python3
"""seedrun.py [ids...] [--props Cxx,Cyy] : run the quick checks against stored seeded changes (seeded/<id>/patch.diff applied
to the dedicated scratch worktree /tmp/wt/_run, never to /repo) and record the outcome in seeded/<id>/meta.json."""
import json
import os
import re
import subprocess
import sys
import time
from pathlib import Path

V = Path(os.environ.get('VERIF_ROOT', '/verif'))
args = [a for a in sys.argv[1:] if not a.startswith('--')]
props_override = next((a.split('=', 1)[1].split(',') for a in sys.argv[1:] if a.startswith('--props=')), None)
ids = args or sorted(p.name for p in (V / 'seeded').iterdir() if (p / 'patch.diff').exists())
# one scratch worktree per property, so several people can run this at the same time
WT = Path(os.environ.get('SEEDRUN_WT_ROOT', '/tmp/wt') + '/_run_' + (ids[0].split('-')[0] if args else 'all'))
if not (WT / 'pyamg').exists():
    subprocess.run([str(V / 'harness' / 'mkworktree.sh'), str(WT)], check=True, stdout=subprocess.DEVNULL)
head = subprocess.run(['git', '-C', '/repo', 'rev-parse', 'HEAD'], capture_output=True, text=True).stdout.strip()
subprocess.run(['git', '-C', str(WT), 'checkout', '-q', '--detach', head])
for sid in ids:
    d = V / 'seeded' / sid
    meta = json.loads((d / 'meta.json').read_text())
    props = props_override or [meta['property']]
    subprocess.run(['git', '-C', str(WT), 'checkout', '-q', '--', '.'])
    r = subprocess.run(['git', '-C', str(WT), 'apply', str(d / 'patch.diff')], capture_output=True, text=True)
    if r.returncode:
        print(sid, 'PATCH DOES NOT APPLY', r.stderr[:200])
        continue
    runs = meta.get('check_runs', {})
    for p in props:
        t0 = time.time()
        env = dict(os.environ, VERIF_REPO=str(WT), VERIF_NO_EVIDENCE='1')
        c = subprocess.run(['./check', p, '--tier', 'quick'], cwd=V, capture_output=True, text=True, env=env)
        out = c.stdout
        vio = re.search(r'VIOLATION property=(\S+) replay=(\S+)(.*)', out)
        what = re.search(r'what: (.*)', out)
        runs[p] = {'rc': c.returncode, 'violation_line': vio.group(0)[:200] if vio else None,
                   'no_failing_input': bool(vio and 'no-failing-input-found' in vio.group(0)),
                   'what': what.group(1)[:300] if what else None, 'wall_s': round(time.time() - t0, 1),
                   'at_repo_commit': head[:10]}
        print(sid, p, 'rc', c.returncode, ('CAUGHT: ' + (what.group(1)[:140] if what else vio.group(0)[:140])) if c.returncode == 1 else 'MISSED' if c.returncode == 0 else 'INFRA ' + out[-300:])
    meta['check_runs'] = runs
    meta['detected_by'] = sorted(p for p, r_ in runs.items() if r_['rc'] == 1 and not r_['no_failing_input'])
    (d / 'meta.json').write_text(json.dumps(meta, indent=1) + '\n')
    subprocess.run(['git', '-C', str(WT), 'checkout', '-q', '--', '.'])
