"""Python-AST -> Lean translator, driver `aggstr` of the second mode (extension E59; properties C12 and C14).

`generate()` (called from `translate.regenerate()`, i.e. on EVERY run of `./check`) reads the functions listed in
`TARGETS` from the WORKING TREE of the repository and writes `lean/PyamgV/Generated/PyLogic3_aggstr.lean` (git-ignored,
rewritten only when its content changes).  It REUSES the translation machinery of `py2lean2.py` (read its docstring:
subset, opaque objects, event semantics, sentinel behaviour, what is trusted) -- `Fn3` is a subclass of `py2lean2.Fn2` --
and adds what the array-handling Python wrappers of `pyamg/aggregation/aggregate.py` and the dispatch part of
`classical_strength_of_connection` (pyamg/strength.py) need (run-time: `lean/PyamgV/Model/ExtPy3AggstrRt.lean`, mock
objects: `harness/extpy3_aggstr.py`):

comparisons : `== != < <= > >=` = `symCmp` (an event `binop <op>` when an operand is opaque: element-wise comparison of
              an array; `==` / `!=` of two opaque objects is identity); the result is a value, its truth value is taken
              where Python takes it.
subscripts  : `x[i]`, `x[lo:hi]` = `symGetItem` (opaque `x`: int / str key = look-up, any other key = event `getitem`).
`abs(x)`    : `symAbs` (event `unop abs` on an opaque object).
`x += y`    : `symIAdd` (event `binop iadd` on an opaque `x`: an IN-PLACE update, distinct from `add`).
`e.a[k] = v`: item / slice assignment through an expression = `symSetItemExpr` (event `setitem` on the object `e.a`).
names       : the built-in classes `float` / `complex` used as VALUES (`astype(float)`, `C.dtype == complex`) are the
              opaque objects of that name (the checks patch them in the module for the duration of the call).

Everything else is py2lean2's subset; source outside it yields the sentinel `unsupported "<reason>"` (the file still
compiles, the driver answers `E:Unsupported`, the theorems in `Proofs/ExtPy3Aggstr*.lean` stop compiling).
"""
import ast
import hashlib
import re
import subprocess

import py2lean as P
import py2lean2 as P2
from py2lean import Unsupported, lstr, ident

VERIF, LEAN, GEN = P.VERIF, P.LEAN, P.GEN
NS = 'PyLogic3_aggstr'

# (lean name, file, qualified name, number of Python parameters, has effects)
TARGETS = [
    ('aggregate_standard_aggregation', 'pyamg/aggregation/aggregate.py', 'standard_aggregation', 1, True),
    ('aggregate_naive_aggregation', 'pyamg/aggregation/aggregate.py', 'naive_aggregation', 1, True),
    ('aggregate_lloyd_aggregation', 'pyamg/aggregation/aggregate.py', 'lloyd_aggregation', 4, True),
    ('aggregate_balanced_lloyd_aggregation', 'pyamg/aggregation/aggregate.py', 'balanced_lloyd_aggregation', 7, True),
    ('strength_classical_strength_of_connection', 'pyamg/strength.py', 'classical_strength_of_connection', 4, True),
]

OPAQUE_BUILTIN_CLASSES = {'float', 'complex'}
CMP3 = {ast.Eq: 'eq', ast.NotEq: 'ne', ast.Lt: 'lt', ast.LtE: 'le', ast.Gt: 'gt', ast.GtE: 'ge'}


class Fn3(P2.Fn2):
    # ---------------------------------------------------------------- names / expressions

    def name(self, nm, env):
        if nm in OPAQUE_BUILTIN_CLASSES and nm not in env['comp'] and nm not in self.scope_names \
                and nm not in self.module.globals and nm not in self.module.consts:
            self.free_globals.add(nm)
            return f'(PyVal.obj {lstr(nm)})'
        return super().name(nm, env)

    def slice_key(self, sl, env):
        if sl.step is not None:
            raise Unsupported('slice with a step')
        lo = self.val(sl.lower, env)[0] if sl.lower is not None else 'PyVal.none'
        hi = self.val(sl.upper, env)[0] if sl.upper is not None else 'PyVal.none'
        return f'(sliceKey {lo} {hi})'

    def expr(self, e, env):
        if isinstance(e, ast.Subscript) and self.effects and not isinstance(e.slice, ast.Tuple):
            x, _ = self.val(e.value, env)
            key = self.slice_key(e.slice, env) if isinstance(e.slice, ast.Slice) else self.val(e.slice, env)[0]
            return self.act(f'symGetItem w__ {x} {key}'), 'val', True
        if isinstance(e, ast.Call) and isinstance(e.func, ast.Name) and e.func.id == 'abs' and self.effects \
                and 'abs' not in self.scope_names and 'abs' not in self.module.globals and 'abs' not in env['comp']:
            if len(e.args) != 1 or e.keywords or isinstance(e.args[0], ast.Starred):
                raise Unsupported('abs() with other than one positional argument')
            a, _ = self.val(e.args[0], env)
            return self.act(f'symAbs {a}'), 'val', True
        return super().expr(e, env)

    def compare(self, e, env):
        if not self.effects:
            return super().compare(e, env)
        terms = []
        left = e.left
        for op, right in zip(e.ops, e.comparators):
            if type(op) in CMP3:
                a, _ = self.val(left, env)
                b, _ = self.val(right, env)
                terms.append((self.act(f'symCmp {lstr(CMP3[type(op)])} {a} {b}'), 'val', True))
            else:
                one = ast.Compare(left=left, ops=[op], comparators=[right])
                terms.append(super().compare(one, env))
            left = right
        if len(terms) == 1:
            return terms[0]
        if any(not isinstance(c, (ast.Name, ast.Constant)) for c in e.comparators[:-1]):
            raise Unsupported('comparison chain with a middle operand that is not a name or constant')
        return self.shortcircuit([(self.as_bool(t, k), ef) for t, k, ef in terms], True), 'bool', True

    # ---------------------------------------------------------------- statements

    def assign_target(self, target, term, env, ind, defined):
        if self.effects and isinstance(target, ast.Subscript) and not isinstance(target.value, ast.Name) \
                and not isinstance(target.slice, ast.Tuple):
            pre = []
            if '←' in term:
                v = self.fresh('rhs')
                pre = [f'{ind}let {v} := {term}']
                term = v
            x, _ = self.val(target.value, env)
            key = self.slice_key(target.slice, env) if isinstance(target.slice, ast.Slice) else self.val(target.slice, env)[0]
            return pre + [f'{ind}symSetItemExpr {x} {key} {term}']
        return super().assign_target(target, term, env, ind, defined)

    def stmt(self, st, env, ind):
        if isinstance(st, ast.AugAssign) and self.effects and isinstance(st.target, ast.Name) and isinstance(st.op, ast.Add):
            defined = set(env['defined'])
            cur = self.name(st.target.id, env)
            v, _ = self.val(st.value, env)
            av = self.fresh('av')
            return [f'{ind}let {av} := {v}'] + self.assign_name(st.target.id, f'(← symIAdd {cur} {av})', ind), defined
        return super().stmt(st, env, ind)


class Generator3(P2.Generator2):
    def helper(self, parent, node):
        return None            # nested defs stay closure values (none in the targets)

    def emit(self, lean, path, qual, arity, effects):
        """as Generator2.emit, with Fn3 as the function translator"""
        doc = f'`{qual}` of {path}'
        try:
            module = self.module(path)
        except (OSError, SyntaxError) as ex:
            self.sentinel(lean, arity, effects, f'cannot parse {path}: {type(ex).__name__}', doc)
            self.order.append(lean)
            return
        node, cls, outers = module.find2(qual)
        if node is None or outers:
            self.sentinel(lean, arity, effects, f'function {qual} not found in {path} (or not unique / nested)', doc)
            self.order.append(lean)
            return
        try:
            tr = Fn3(self, module, node, lean, effects, cls)
            text = tr.translate()
            if len(tr.params) != arity:
                raise Unsupported(f'takes {len(tr.params)} parameters, {arity} expected')
            self.defs[lean] = dict(text=text, arity=arity, ok=True, reason='', doc=doc, effects=effects, params=tr.params,
                                   free_globals=sorted(tr.free_globals), table=True, captured=[])
        except Unsupported as ex:
            self.sentinel(lean, arity, effects, f'{qual} ({path}:{getattr(node, "lineno", 0)}): {ex}', doc)
        except RecursionError:
            self.sentinel(lean, arity, effects, f'{qual}: expression too deep', doc)
        self.order.append(lean)

    def render(self, sentinel_only=()):
        text = super().render(sentinel_only)
        text = text.replace('import PyamgV.Model.ExtPy2Rt\n', 'import PyamgV.Model.ExtPy3AggstrRt\n', 1)
        text = text.replace('GENERATED by harness/py2lean2.py', 'GENERATED by harness/py2lean3_aggstr.py (extension E59)', 1)
        text = text.replace('see the docstring of py2lean2.py', 'see the docstrings of py2lean3_aggstr.py / py2lean2.py', 1)
        text = text.replace('namespace PyamgV.Generated.PyLogic2\n', f'namespace PyamgV.Generated.{NS}\n', 1)
        text = text.replace('open PyamgV.ExtPy PyamgV.ExtPy2\n', 'open PyamgV.ExtPy PyamgV.ExtPy2 PyamgV.ExtPy3Aggstr\n', 1)
        text = text.replace('end PyamgV.Generated.PyLogic2\n', f'end PyamgV.Generated.{NS}\n', 1)
        return text


def build():
    g = Generator3()
    for lean, path, qual, arity, effects in TARGETS:
        g.emit(lean, path, qual, arity, effects)
    return g


def info():
    """{lean name: dict(ok, reason, params, free_globals, effects)} of the targets, from the working tree"""
    g = build()
    out = {n: {k: g.defs[n].get(k) for k in ('ok', 'reason', 'params', 'free_globals', 'effects')} for n, *_ in TARGETS}
    for n, path, qual, *_ in TARGETS:
        out[n].update(path=path, qual=qual)
    return out


def _compiles(text):
    tmp = VERIF / 'build' / 'py2lean'
    tmp.mkdir(parents=True, exist_ok=True)
    f = tmp / 'Candidate3_aggstr.lean'
    f.write_text(text)
    subprocess.run(['lake', 'build', 'PyamgV.Model.ExtPy3AggstrRt'], cwd=LEAN, capture_output=True, text=True, timeout=1200)
    p = subprocess.run(['lake', 'env', 'lean', str(f)], cwd=LEAN, capture_output=True, text=True, timeout=900)
    out = p.stdout + p.stderr
    lines = {int(m.group(1)) for m in re.finditer(r'Candidate3_aggstr\.lean:(\d+):\d+: error', out)}
    return p.returncode == 0, lines, out


def generate():
    """write Generated/PyLogic3_aggstr.lean; returns [(lean name, ok, reason)]"""
    g = build()
    text = g.render()
    target = GEN / f'{NS}.lean'
    GEN.mkdir(parents=True, exist_ok=True)
    stamp = VERIF / 'build' / 'py2lean' / 'ok3_aggstr.sha'
    model = LEAN / 'PyamgV' / 'Model'
    rt = b''.join((model / f).read_bytes() for f in ('ExtPy3AggstrRt.lean', 'ExtPy2Rt.lean', 'ExtPyRt.lean'))
    digest = hashlib.sha256(text.encode() + rt).hexdigest()
    known_good = stamp.exists() and digest in stamp.read_text().split()
    if not known_good:
        try:
            ok, errlines, out = _compiles(text)
        except Exception:  # noqa: BLE001
            ok, errlines, out = True, set(), ''        # cannot run lean here: leave it to lake build
        if not ok:
            src = text.split('\n')
            bad = set()
            for ln in errlines:
                for k in range(min(ln, len(src)) - 1, -1, -1):
                    m = re.match(r'def (\w+)', src[k])
                    if m:
                        bad.add(m.group(1))
                        break
            bad &= set(g.order)
            text2 = g.render(sentinel_only=bad) if bad else None
            if text2 is None or not _compiles(text2)[0]:
                text2 = g.render(sentinel_only=set(g.order))
            text = text2
        else:
            stamp.parent.mkdir(parents=True, exist_ok=True)
            old = stamp.read_text().split()[-20:] if stamp.exists() else []
            stamp.write_text('\n'.join(old + [digest]) + '\n')
    if not target.exists() or target.read_text() != text:
        target.write_text(text)
    return [(n, g.defs[n]['ok'], g.defs[n]['reason']) for n in g.order]


if __name__ == '__main__':
    import sys
    if '--show' in sys.argv:
        print(build().render())
    else:
        for n, ok, why in generate():
            print(('ok   ' if ok else 'UNSUPPORTED ') + n + ('' if ok else ': ' + why))
