"""C12, extension E56 part 1 -- EVERY Bellman-Ford pass of `balanced_lloyd_cluster` on the REAL code vs the conclusion of the
theorems `balanced_lloyd_every_pass` / `balanced_lloyd_cluster_final` (Lean: `C12ZB.every_pass_final`, `cluster_final`).

Every call the public routine makes to `amg_core.bellman_ford_balanced` is recorded (centres at the call, d / m / p / pc
after it) and judged by an independent oracle of `Bal.Final`: d = multi-source shortest distances (SciPy Dijkstra, directed),
d[j] realised from the centre m[j] names, centres at distance 0 with their own id, every non-centre has a predecessor p[j]
in its own cluster joined by a stored entry that is tight (d[j] = d[p[j]] + w), pc[v] = #{j : p[j] = v}; the returned
cluster ids must be the m of the last recorded pass.  The hypotheses of the theorems are evaluated by the Lean driver on
the same arrays (`ext_c12z_sym`, `ext_c12z_grid`: the Boolean forms proved to imply `SymE` / the grid hypotheses).

A pass that fails the oracle is a correspondence failure (theorem vs real code); the property itself (valid partition,
`bal_cluster_spec_error`) decides whether it is a violation.

Exactness: positive dyadic weights (multiples of h = 1/4, <= 3): all path sums are exact in binary64, tol = 1e-14.
"""
import hashlib

import numpy as np
import scipy.sparse as sp
from scipy.sparse import csgraph

import gen
from common import enc_ints, enc_rats, enc_rat

H = 0.25
TOL = 1e-14


def _key(*a):
    return hashlib.sha1(repr(a).encode()).hexdigest()


def sym_weights(rng, M, t):
    """connected symmetric PATTERN, positive dyadic weights (symmetric or not)"""
    M = np.array(M)
    n = M.shape[0]
    pat = ((M != 0) | (M != 0).T) & ~np.eye(n, dtype=bool)
    # connect the components along a path through one representative each
    nc, lab = csgraph.connected_components(sp.csr_array(pat.astype(int)), directed=False)
    reps = [int(np.nonzero(lab == c)[0][0]) for c in range(nc)]
    for a, b in zip(reps, reps[1:]):
        pat[a, b] = pat[b, a] = True
    if t % 4 == 3:
        pat = pat | np.eye(n, dtype=bool)      # self loops (never relax: positive weights)
    vals = [0.25, 0.5, 1.0, 1.0, 1.5, 2.0, 3.0]
    mode = t % 3
    if mode == 0:
        W = np.ones((n, n))
    else:
        W = rng.choice(vals, size=(n, n))
        if mode == 1:
            W = np.triu(W) + np.triu(W, 1).T
    G = gen.int32csr(sp.csr_array(np.where(pat, W, 0.0)))
    kind = ('unit', 'symw', 'nonsymw')[mode] + ('+loops' if t % 4 == 3 else '')
    return G, kind


def final_error(G, dist, c, d, m, p, pc):
    """independent statement of `Bal.Final` for one pass (centres c, arrays after the kernel call)"""
    n = G.shape[0]
    c = [int(v) for v in c]
    D = dist[c, :]                  # distances from every centre
    best = D.min(axis=0)
    for j in range(n):
        if d[j] != best[j]:
            return f'd[{j}] = {d[j]} but the nearest centre is at distance {best[j]}'
        if not (0 <= m[j] < len(c)):
            return f'node {j} carries the cluster id {m[j]}'
        if D[m[j], j] != d[j]:
            return f'node {j} is labelled with centre {c[m[j]]} at distance {D[m[j], j]} but d = {d[j]}'
    for a, v in enumerate(c):
        if d[v] != 0 or m[v] != a:
            return f'centre {v} of cluster {a} has d = {d[v]}, m = {m[v]}'
    cset = set(c)
    A = G.toarray()
    pat = np.zeros((n, n), dtype=bool)
    for i in range(n):
        pat[i, G.indices[G.indptr[i]:G.indptr[i + 1]]] = True
    for j in range(n):
        if j in cset:
            continue
        i = int(p[j])
        if not (0 <= i < n) or not pat[i, j]:
            return f'p[{j}] = {i} is not joined to {j} by a stored entry'
        if m[i] != m[j]:
            return f'the predecessor {i} of node {j} lies in another cluster'
        if d[j] != d[i] + A[i, j]:
            return f'the entry ({i}, {j}) is not tight: d = {d[i]} + {A[i, j]} vs {d[j]}'
    cnt = np.bincount(np.asarray(p)[np.asarray(p) > -1], minlength=n)
    if (cnt != np.asarray(pc)).any():
        return 'a predecessor count is not exact'
    return None


def part_p(ctx, graphs, defer=None):
    from pyamg import graph as PG
    from props import c12 as C12
    rng = ctx.np_rng
    jobs = []
    for t, (M, gkind) in enumerate(graphs):
        M = np.array(M)
        n = M.shape[0]
        if n < 2:
            continue
        G, kind = sym_weights(rng, M, t)
        k = int(rng.integers(1, min(n, 5) + 1))
        centers = rng.choice(n, size=k, replace=False).astype(np.int32)
        jobs.append((G, kind, centers, int(rng.integers(1, 5)), int(rng.integers(0, 3)), bool(rng.integers(2)),
                     int(rng.integers(2**31))))
    run_jobs(ctx, jobs, PG, C12, defer)


def replay_p(ctx, c):
    from pyamg import graph as PG
    from props import c12 as C12
    n = int(c['n'])
    G = sp.csr_array((np.array(c['ax'], dtype=float), np.array(c['aj'], dtype=np.int32), np.array(c['ap'], dtype=np.int32)),
                     shape=(n, n))
    print('replaying balanced_lloyd_cluster (every pass), centres', c['centers'], 'maxiter', c['maxiter'],
          'rebalance_iters', c['rebalance_iters'], 'tiebreaking', c['tiebreaking'])
    run_jobs(ctx, [(G, 'replay', np.array(c['centers'], dtype=np.int32), int(c['maxiter']), int(c['rebalance_iters']),
                    bool(c['tiebreaking']), int(c.get('seed', 0)))], PG, C12)


def run_jobs(ctx, jobs, PG, C12, defer=None):
    lines, metas = [], []
    for (G, kind, centers, maxiter, reb, tb, seed) in jobs:
        n = G.shape[0]
        hdr = f'{n} {enc_ints(G.indptr)} {enc_ints(G.indices)} {enc_rats(G.data)}'
        lines.append(f'ext_c12z_sym {hdr}')
        lines.append(f'ext_c12z_grid {hdr} {enc_rat(H)} {enc_rat(TOL)}')
        metas.append((G, kind, centers, maxiter, reb, tb, seed))
    def finish(outs):
        for idx, (G, kind, centers, maxiter, reb, tb, seed) in enumerate(metas):
            n = G.shape[0]
            case = {'routine': 'balanced_lloyd_every_pass', 'n': n, 'ap': [int(v) for v in G.indptr],
                    'aj': [int(v) for v in G.indices], 'ax': [float(v) for v in G.data], 'centers': [int(v) for v in centers],
                    'maxiter': maxiter, 'rebalance_iters': reb, 'tiebreaking': tb, 'seed': seed}
            ctx.case(key=_key('pass', G.indptr.tobytes(), G.indices.tobytes(), G.data.tobytes(), centers.tobytes(), maxiter, reb, tb),
                     nontrivial=True,
                     sample={k: v for k, v in case.items() if k not in ('ap', 'aj', 'ax')} if ctx.evaluations % 97 == 0 else None)
            ctx.feat('passes:weights:' + kind)
            if outs[2 * idx] != '1' or outs[2 * idx + 1] != '1':
                # the generator must produce inputs inside the hypotheses of the theorems
                ctx.corr('hypotheses of balanced_lloyd_every_pass (symEB, gridB)', case, outs[2 * idx] + outs[2 * idx + 1], '11')
                continue
            if C12._BAL_UNSAFE:
                ctx.feat('passes:skipped_after_crash')
                continue
            passes = []
            orig = PG.amg_core.bellman_ford_balanced

            def rec(nn, ap, aj, ax, c, d, m, p, pc, s, tbk, orig=orig, passes=passes):
                c0 = np.array(c).copy()
                r = orig(nn, ap, aj, ax, c, d, m, p, pc, s, tbk)
                passes.append((c0, np.array(d).copy(), np.array(m).copy(), np.array(p).copy(), np.array(pc).copy()))
                return r
            PG.amg_core.bellman_ford_balanced = rec
            np.random.seed(seed)
            err = None
            try:
                with C12._cpu_limit(20.0):
                    cl, ce = PG.balanced_lloyd_cluster(G, centers.copy(), maxiter=maxiter, rebalance_iters=reb, tiebreaking=tb)
            except ValueError as ex:
                err = f'ValueError: {ex}'
            except Exception as ex:     # noqa: BLE001
                err = f'{type(ex).__name__}: {ex}'
            finally:
                PG.amg_core.bellman_ford_balanced = orig
            ctx.feat(f'passes:count={min(len(passes), 9)}')
            dist = csgraph.dijkstra(G, directed=True)
            bad = None
            for q, (c0, d, m, p, pc) in enumerate(passes):
                e = final_error(G, dist, c0, d, m, p, pc)
                if e:
                    bad = f'pass {q + 1} of {len(passes)}: {e}'
                    break
            if bad is None and err is None and len(passes) and (np.asarray(cl) != passes[-1][2]).any():
                bad = 'the returned cluster ids are not the labels of the last Bellman-Ford pass'
            if bad:
                ctx.corr('every pass satisfies Final (theorem balanced_lloyd_every_pass) vs the real kernel calls', case,
                         'Final holds for every pass', bad)
            # the property itself
            if err is not None:
                if 'maxsize' in err:
                    ctx.feat('passes:maxsize_refusal')        # explicit refusal, not a wrong partition
                else:
                    ctx.violation(f'balanced_lloyd_cluster on a connected symmetric graph raised {err}', case)
            else:
                e = C12.bal_cluster_spec_error(n, cl, ce, len(centers))
                if e:
                    ctx.violation(f'balanced_lloyd_cluster: {e}', case)

    if defer is None:
        finish(ctx.lean(lines) if lines else [])
    else:
        defer.append((lines, finish))
