"""C19 -- matrix utilities compute their stated algebraic result.

correspondence : scale_rows / scale_columns (CSR, CSC, BSR; COO through the CSR fallback and, E26, the COO model `cooScale`), get_diagonal
                 (norm_eq 0/1/2, inv), symmetric_rescaling, filter_matrix_rows / filter_matrix_columns
                 (maximum and diagonal rule, lumping), truncate_rows, get_block_diag, scale_block_inverse,
                 filter_operator and the raw kernels csc_scale_rows / csc_scale_columns / filter_matrix_rows /
                 truncate_rows_csr / pinv_array vs the Lean models of Model/C19Utils.lean on Rat / Gaussian
                 rationals: exact where binary64 arithmetic is exact (dyadic data), 1e-9 otherwise.
                 (E39) _approximate_eigenvalues (Arnoldi / Lanczos loop behind approximate_spectral_radius and condest): H, V and
                 breakdown_flag of every call (direct calls with initial_guess, every restart cycle of
                 approximate_spectral_radius, the call inside condest) vs the Lean model Model/ExtC19SArnoldi.lean run in
                 binary64 (op ext_c19_arnoldi), tolerance 200 eps prod_j (1 + ||A||_2 / H[j+1, j]).
                 (E52) the same with complex data (conjugated inner products, both branches; op ext_c19t_arnoldi, binary64 pairs);
                 approximate_spectral_radius as a whole (argument checks, cast and normalisation of initial_guess, every pass of
                 the restart loop: H, max_index, theta, error, the stopping decisions, the restart vector, the returned value and
                 vector) vs the model C19T.asrVec fed with the LAPACK eigenpairs of every pass as a verified oracle (op ext_c19t_asr);
                 condest (both branches) vs C19T.condestVec (op ext_c19t_condest); cond vs C19T.condCert on the singular triples
                 of scipy.linalg.svd, verified by the model (op ext_c19t_cond).
search         : every utility vs an independent dense NumPy statement of its definition (all formats,
                 copy semantics, caches, call histories), part J: the same on inputs scaled by 2^-20 .. 2^-80 / 1e-5 .. 1e-12 judged
                 relative to their own magnitude and on BSR input of every stored block shape (R, C) in {1..4}^2;
                 approximate_spectral_radius in [0.9 rho, rho] on
                 Hermitian matrices; condest / cond vs numpy.linalg.cond(A, 2).
"""
import hashlib
import os
import pickle
import warnings
from functools import partial

import numpy as np
import scipy.sparse as sp

from common import enc_ints, enc_rats, enc_crats, enc_rat, dec_list, dec_rat, dec_crat, frac

META = {
    'rule': 'cases = seeded random matrices with small dyadic entries, n, m = 1..7, in CSR / CSC / BSR (block sizes 1..3, '
            'rectangular blocks, non-contiguous data) / COO storage with unsorted and duplicated entries, explicit zeros, empty '
            'rows, zero, missing and negative diagonals, real, complex, float32 and integer data, every option of every utility '
            '(copy, norm_eq, inv, theta grid incl. ties at the threshold, diagonal, lump, k, block sizes 1..8 with singular '
            'blocks, cache histories, BtBinv given or not); a case is non-trivial when the matrix has >= 2 stored entries; '
            'distinct = distinct (utility, options, input); spectral part: Hermitian matrices n = 1..400 (dense random, Poisson, '
            'clustered, indefinite, +-1 and rank-one spectra, complex), start vectors from np.random seeded per case; '
            'condition part: dense n = 1..8, cond <= 300, real/complex, Hermitian or not, maxiter >= n; '
            'Krylov part (E39): real matrices n = 1..12 (symmetric, SPD, general, nilpotent, few distinct eigenvalues = early '
            'breakdown, scales 2e-10 .. 50 so that the breakdown test itself is exercised) in dense / CSR / CSC, symmetric flag '
            'on and off (also on for a few nonsymmetric matrices), maxiter 1 .. n + 2 and 15 / 25, restart 0 .. 5, given and '
            'random start vectors; one case per recorded call of _approximate_eigenvalues, non-trivial when n >= 2 and H has '
            '>= 2 columns; '
            'E52 part: n = 1..10, complex Hermitian / HPD / few distinct eigenvalues / general complex / i * Hermitian and real '
            'symmetric / general matrices (the latter produce complex restart vectors), scales 2e-10 .. 50, dense / CSR / CSC; direct '
            'calls of _approximate_eigenvalues with complex start vectors (both branches), approximate_spectral_radius with '
            'maxiter 1..15 (also 0, -1), restart 0..5 (also negative), tol 1e-1..1e-8, real / complex / wrongly sized / absent '
            'initial_guess, return_vector on and off, condest (both branches, maxiter 1 .. 25) and cond; one case per call of the '
            'public function, non-trivial when n >= 2; '
            'part J (wide): every utility again (scale_rows / scale_columns, get_diagonal, symmetric_rescaling, the three filters and '
            'truncate_rows, get_block_diag, scale_block_inverse, compute_BtBinv + filter_operator with 1..3 candidates, linalg.pinv_array '
            'and the native pinv_array) with the matrix / scaling vector / candidates / targets / single diagonal blocks multiplied by '
            '1, 2^-20, 2^-40, 2^-60, 2^-80, 1e-5, 1e-6, 1e-8, 1e-10, 1e-12 (independently per argument, per block row for the block '
            'utilities, times 1 / 0.75 / 0.1 / 3.3), n <= 24, BSR input with every stored block shape (R, C) in {1..4} x {1..4} -- also '
            'rectangular blocks on square matrices, stored shape equal to / sharing one dimension with / different from the requested '
            'block size 1..8 --, float32 / complex64 1 x 1 blocks, cache histories; judged relative to the data\'s own magnitude',
    'search_only': ['part J (wide): dense NumPy oracle only, no model is asked; pinv of a 1 x 1 block is 1/a (bit-exact for real data in the '
                    'working precision, 8 eps for complex), larger blocks: numpy.linalg.pinv and the four Penrose equations relative to '
                    'the block\'s own norm (1e-8); filter_operator residual A_f B - Bf relative to |Bf| + |A_f||B| (1e-8); filters on '
                    'decimally rescaled real data get the 1e-12 don\'t-care band at the threshold that complex data always had',
                    'approximate_spectral_radius >= 0.9 rho (depends on the random start vector; checked for the default or '
                    'stronger maxiter / restart / tol only)',
                    'approximate_spectral_radius <= rho (1 + 1e-10) on the real code in binary64: since E39 the exact-arithmetic '
                    'statement is a theorem about the executable model of the Krylov loop (arnoldi_model_ritz_le_rho: the model '
                    'basis is orthonormal, H = V^T A V, the hypotheses of ritz_le_rho are discharged, every Ritz value of every '
                    'restart cycle is <= rho for real symmetric A; E52: carnoldi_model_estimate_le for complex Hermitian A and '
                    'asr_model_estimate_le for the value the restart loop returns) and the loop is tied to the code by the binary64 '
                    'correspondence; '
                    'what stays search-only is the effect of rounding (loss of orthogonality: the known finding) and the '
                    'eigenvalues of the small Hessenberg matrix, which are LAPACK\'s (scipy.linalg.eig, trusted)',
                    'the eigen-decomposition of the small Hessenberg matrix is LAPACK\'s (scipy.linalg.eig): since E52 the restart '
                    'logic of approximate_spectral_radius and condest are modelled (C19T.asr / condestO) with the eigenpairs of every '
                    'pass as an oracle input that the model verifies (|H y - theta y| <= tolerance |y|, y != 0) -- that the recorded '
                    'list contains ALL eigenvalues of H is not checked (a missing one could only lower the estimate); on ties of the '
                    'largest moduli (complex-conjugate pairs) the index the run picked is taken from the run and only verified to be '
                    'a maximiser',
                    'complex Lanczos branch (symmetric=True with complex Hermitian input): compared with the model in binary64, no '
                    'theorem (lanczos_eq_arnoldi is proved for real scalars only); condest(symmetric=True) likewise',
                    'cond: the singular triples come from the same LAPACK driver the code calls (scipy.linalg.svd); the model verifies '
                    'them (A v = sigma u, U and V unitary, sigma real) and takes max / min',
                    'nonsymmetric matrices: nothing is promised by the property; the theorems then bound the real Ritz values by the '
                    'numerical range, whose radius can exceed rho (example in Props/C19.lean: nilpotent 2 x 2 matrix, estimate 12/25)',
                    'condest == cond_2 when Arnoldi/Lanczos completes (tolerance 1e-6; observed 1e-11), cond == numpy.linalg.cond',
                    'copy semantics (input untouched and no shared data when copy=True; filters and truncation never modify '
                    'their input): hashes of the input arrays before/after',
                    'format conversions done by SciPy (tocsr / tocsc / tobsr / tocoo / asformat) are taken from SciPy: the '
                    'models of the filters and of truncate_rows start from the converted CSR / CSC arrays',
                    'get_block_diag / scale_block_inverse / filter_operator: the Lean models are the dense definitions (exact '
                    'Moore-Penrose inverse, exact local inverse), compared with tolerance 1e-8',
                    'utility calls run in forked child processes: a call that kills the interpreter is reported with its input',
                    'BSR input that has unsorted indices AND non-contiguous block data is generated for the scaling routines and for '
                    'get_diagonal only (part J + one fixed corpus case): SciPy 1.18 bsr sort_indices(), called in place by get_diagonal, '
                    'permutes the indices but not such data -- listed finding get-diagonal-bsr-noncontiguous-unsorted, given only when '
                    'the stored arrays are in exactly that class (BSR, strided data, a block row with descending column indices)',
                    'part K: approximate_spectral_radius in [0.9 rho, rho(1 + 1e-10)] and condest == cond_2 (1e-6), cond (1e-10) on the '
                    'Hermitian / condition families rescaled to rho >= 1e-6 (class small: the bounds hold) and to an operator 2-norm '
                    '(A, or A^H A on the general path of condest) in 1e-24 .. 4e-11 (class tiny: the absolute breakdown threshold 2.2e-10 of '
                    '_approximate_eigenvalues exceeds H[1, 0] <= ||operator||_2 -- listed finding spectral-radius-absolute-breakdown, given '
                    'only when that 2-norm, computed from the dense matrix, is < 2e-10 and only to a too-small estimate / wrong condest); '
                    'fixed corpus case 2^-40 poisson((4,)); operator norms between 2e-10 and 1e-7 are not generated and not listed'],
    'partial': ['truncate_rows: closed by extension E9 -- qsort_correct proves the literal quicksort model sorts every input '
                '(fuel >= segment length - 1), truncate_row_spec_unconditional needs no certificate and '
                'trunc_certificate_always shows the sorted-ok flag of the driver (still reported) can never be false',
                'filter_operator: closed by extension E9 for the executable model -- model_inverse_exact (Mat.inv is an exact '
                'left inverse) and filter_operator_model_constraint / filter_operator_residual_zero (every flagged row of '
                'filterOp satisfies A_f B = Bf, i.e. the constraint-ok flag of the driver can never be broken for inputs '
                'of consistent shape)',
                'block pseudo-inverse: closed by extension E26 -- pinv_total (for every rectangular input over a field with a '
                'positive definite conjugation, instances conj_id_rat / conj_crat, Mat.pinv returns the unique solution of the '
                'four Penrose equations; the reply `fail` of c19_pinv / c19_blockdiag / c19_sbi is unreachable), '
                'model_penrose_check_is_mathlib ties the Boolean check to the Mathlib statement of penrose_unique, '
                'block_diag_inv_total / scale_block_inverse_spec state the block-diagonal pseudo-inverse scaling; '
                'COO fallback of scale_rows / scale_columns: model cooScale (op ext_c19_cooscale) with '
                'coo_scale_rows_entry / coo_scale_cols_entry',
                'proj_constraint is a Mathlib-matrix statement (real transpose, shared with C10)',
                'spectral radius / condition estimate (E39): arnoldi_model_* / lanczos_* / vec_* are exact-arithmetic statements '
                '(ordered field, exact square root, definite form) about the loop model, for real scalars; the symmetric branch is '
                'proved equal to the general branch for symmetric operators (lanczos_eq_arnoldi); "all eigenvalues of the symmetric '
                'tridiagonal H are real" and the lower bound 0.9 rho are not proved',
                'E52 (complex Hermitian input, restart loop, condest / cond): carnoldi_model_* / cvec_arnoldi_* (pairs Cx F over an '
                'ordered field with exact square root: orthonormal basis, H = V^H A V Hermitian tridiagonal, every Ritz value is a '
                'Rayleigh quotient, real for Hermitian A, within all Rayleigh bounds, |theta| <= rho and abs(theta) as computed <= rho); '
                'asr_model_spec / asr_model_estimate_le / cvec_asr_estimate_le (every pass of the restart loop is a Krylov run from a '
                'start vector != 0, every returned estimate is |theta| of a verified Ritz pair, hence <= rho for Hermitian A; oracle '
                'verification tolerance zero); condest_model_le_cond / condest_le_cond_models (Ritz values of A^H A lie in '
                '[smin^2, smax^2], so condest <= smax / smin, and an accepted singular-value certificate yields exactly such '
                'smin, smax: condest <= cond between the two executable models); not proved: convergence (condest == cond when the '
                'Krylov space is exhausted), the lower bound 0.9 rho, anything about rounding'],
    'assumptions': ['binary64 rounding is outside the model: exact comparison on dyadic inputs, tolerance 1e-9 where a quotient '
                    'or square root is not dyadic; complex moduli equal or within 1e-12 of a threshold are not judged',
                    'block pseudo-inverses (Jacobi SVD kernel / LAPACK gelss) are compared with the exact Moore-Penrose inverse '
                    'on blocks whose non-zero singular values exceed 0.05 ||A||',
                    'filter_operator: block rows whose local Gram matrix B_J^H B_J is singular or has condition number > 1e6 '
                    'are only checked for the pattern',
                    'complex CSC scaling is not supported by the kernels (TypeError) and is not generated ("complex where supported")',
                    'Krylov model vs code (E39): binary64 on both sides but BLAS summation order differs: H and V are compared '
                    'within 200 eps prod_{i<j} (1 + ||A||_2 / H[i+1, i]) (x ||A||_2 for H) for column / vector j; once that bound '
                    'exceeds 1e-6 only the shapes are compared; the flag is not compared when the last H[m, m-1] is within 10 bound '
                    '||A|| of the breakdown tolerance 1e6 eps; the vector appended at breakdown (normalised round-off) is compared '
                    'by its norm only',
                    'E52 models vs code: same tolerances as E39, the error bound of a pass is multiplied through the passes of the '
                    'restart loop (start-vector error x growth of the previous pass); the oracle eigenpairs are accepted by the model '
                    'when |H y - theta y| <= (10 bound + 1e-9) ||A|| |y|; stopping decisions are not compared when '
                    '|error|/|theta| is within 100 bound of tol or H[m, m-1] within 10 bound ||A|| of the breakdown tolerance; '
                    'pair division of the model is a conj(b) / |b|^2 (NumPy uses Smith\'s formula: last-bit differences, covered by '
                    'the tolerance); returned values compared to 1e-12 relative; cond: certificate defect <= (1e-11 n (1 + ||A||))^2, '
                    'not judged when sigma_min <= 1e-8 sigma_max'],
}

FK_DIAG_NONCSR = 'filter-rows-diagonal-non-csr-noop'
FK_DUP = 'filter-truncate-duplicate-stored-entries'
FK_RHO = 'spectral-radius-overshoot-lost-orthogonality'
FK_BREAK = 'spectral-radius-absolute-breakdown'
FK_BSRSORT = 'get-diagonal-bsr-noncontiguous-unsorted'


def _key(*a):
    return hashlib.sha1(repr(a).encode()).hexdigest()


def _U():
    from pyamg.util import utils
    return utils


# ------------------------------------------------------------------------------------------------
# matrices: specification dicts (JSON-able, enough to rebuild the exact storage) <-> SciPy objects
# ------------------------------------------------------------------------------------------------

def _encv(a):
    a = np.asarray(a)
    if np.iscomplexobj(a):
        return [[float(z.real), float(z.imag)] for z in a.ravel()]
    return [float(z) for z in a.ravel()]


def _decv(l, cplx=None):
    if len(l) and isinstance(l[0], (list, tuple)):
        return np.array([complex(a, b) for a, b in l], dtype=complex)
    if len(l) and isinstance(l[0], dict):
        return np.array([complex(z['re'], z['im']) for z in l], dtype=complex)
    return np.array(l, dtype=complex if cplx else float)


def build(spec):
    """SciPy sparse array (int32 index arrays) from a specification dict"""
    fmt = spec['fmt']
    shape = tuple(spec['shape'])
    data = _decv(spec['data'], spec['complex'])
    if spec.get('dtype'):
        data = data.astype(spec['dtype'])
    if fmt == 'coo':
        A = sp.coo_array((data, (np.array(spec['row'], dtype=np.int32), np.array(spec['col'], dtype=np.int32))), shape=shape)
        return A
    ip = np.array(spec['indptr'], dtype=np.int32)
    ix = np.array(spec['indices'], dtype=np.int32)
    if fmt == 'bsr':
        R, C = spec['blocksize']
        data = data.reshape(-1, R, C)
        if spec.get('noncontig'):
            big = np.zeros((data.shape[0], R, 2 * C), dtype=data.dtype)
            big[:, :, ::2] = data
            data = big[:, :, ::2]
        A = sp.bsr_array((data, ix, ip), shape=shape, blocksize=(R, C))
    elif fmt == 'csr':
        A = sp.csr_array((data, ix, ip), shape=shape)
    else:
        A = sp.csc_array((data, ix, ip), shape=shape)
    A.indptr = A.indptr.astype(np.int32)
    A.indices = A.indices.astype(np.int32)
    return A


def spec_of(A, **extra):
    s = {'fmt': A.format, 'shape': list(A.shape), 'complex': bool(np.iscomplexobj(A.data)), 'data': _encv(A.data)}
    if A.format == 'coo':
        s['row'], s['col'] = A.row.tolist(), A.col.tolist()
    else:
        s['indptr'], s['indices'] = A.indptr.tolist(), A.indices.tolist()
        if A.format == 'bsr':
            s['blocksize'] = list(A.blocksize)
    s.update(extra)
    return s


VALS = np.array([-4, -3, -2, -1, 1, 2, 3, 4, 0.5, -0.5, 1.5, 0.25, 6, 8])


def rand_dense(rng, n, m, cplx, density=None, diag=None):
    if density is None:
        density = rng.choice([0.25, 0.5, 0.8, 1.0])
    mask = rng.random((n, m)) < density
    D = mask * rng.choice(VALS, size=(n, m))
    if cplx:
        D = D + 1j * (mask * (rng.random((n, m)) < 0.7) * rng.choice(VALS[:8], size=(n, m)))
    if diag is not None:
        k = min(n, m)
        D[np.arange(k), np.arange(k)] = diag[:k]
    return D.astype(complex if cplx else float)


def compress(rng, D, fmt, *, unsorted=False, dup=False, zeros=False, bs=None, noncontig=False):
    """storage of the dense matrix D in the given format with the requested irregularities; returns a spec"""
    n, m = D.shape
    cplx = np.iscomplexobj(D)
    if fmt == 'bsr':
        R, C = bs
        A = sp.bsr_array(D, blocksize=(R, C))
        A.sort_indices()
        ip, ix, dat = A.indptr.astype(np.int32), A.indices.astype(np.int32), A.data.copy()
        if unsorted:
            for i in range(len(ip) - 1):
                p = rng.permutation(ip[i + 1] - ip[i])
                ix[ip[i]:ip[i + 1]] = ix[ip[i]:ip[i + 1]][p]
                dat[ip[i]:ip[i + 1]] = dat[ip[i]:ip[i + 1]][p]
        return {'fmt': 'bsr', 'shape': [n, m], 'complex': cplx, 'blocksize': [R, C], 'indptr': ip.tolist(), 'indices': ix.tolist(),
                'data': _encv(dat), 'noncontig': bool(noncontig)}
    T = D.T if fmt == 'csc' else D
    ip, ix, dat = [0], [], []
    coo = []
    for i in range(T.shape[0]):
        ent = []
        for j in range(T.shape[1]):
            v = T[i, j]
            if v != 0:
                if dup and rng.random() < 0.35:
                    a = v / 2 if rng.random() < 0.5 else v - 1
                    ent += [(j, a), (j, v - a)]
                else:
                    ent.append((j, v))
            elif zeros and rng.random() < 0.15:
                ent.append((j, 0.0))
        if unsorted or dup:
            ent = [ent[k] for k in rng.permutation(len(ent))] if unsorted else sorted(ent, key=lambda e: e[0])
        ix += [e[0] for e in ent]
        dat += [e[1] for e in ent]
        coo += [(i, e[0], e[1]) for e in ent]
        ip.append(len(ix))
    dat = np.array(dat, dtype=complex if cplx else float)
    if fmt == 'coo':
        if unsorted:
            coo = [coo[k] for k in rng.permutation(len(coo))]
        return {'fmt': 'coo', 'shape': [n, m], 'complex': cplx, 'row': [int(c[0]) for c in coo], 'col': [int(c[1]) for c in coo],
                'data': _encv(np.array([c[2] for c in coo], dtype=complex if cplx else float))}
    return {'fmt': fmt, 'shape': [n, m], 'complex': cplx, 'indptr': ip, 'indices': [int(j) for j in ix], 'data': _encv(dat)}


def rand_spec(rng, t, *, square=False, fmts=('csr', 'csc', 'bsr', 'coo'), cplx=None, dup_ok=True, diag=None, nmax=6, noncontig_ok=False,
              real_fmts=(), shape=None):
    """a random matrix specification + its dense value + feature set"""
    fmt = fmts[t % len(fmts)]
    cplx = bool(rng.random() < 0.3) if cplx is None else cplx
    if fmt in real_fmts:
        cplx = False      # csc_scale_rows / csc_scale_columns have no complex instantiation ("complex where supported")
    feats = {fmt, 'complex' if cplx else 'real'}
    bs = None
    if fmt == 'bsr':
        R = int(rng.choice([1, 2, 3]))
        C = R if square else int(rng.choice([1, 2, 3]))
        nb, mb = int(rng.integers(1, 4)), int(rng.integers(1, 4))
        if square:
            mb = nb
        elif shape == 'tall':
            nb, mb = max(nb, mb) + 1, min(nb, mb)
        elif shape == 'wide':
            nb, mb = min(nb, mb), max(nb, mb) + 1
        n, m = nb * R, mb * C
        bs = (R, C)
        feats.add(f'bs{R}x{C}')
    else:
        n = int(rng.integers(1, nmax + 1))
        m = n if square else int(rng.integers(1, nmax + 1))
        if shape in ('tall', 'wide') and not square:
            a = int(rng.integers(1, nmax))
            b = int(rng.integers(a + 1, nmax + 1))
            n, m = (b, a) if shape == 'tall' else (a, b)
    if n != m:
        feats.add('rectangular')
    dg = None
    if diag is not None:
        dg = diag(rng, max(n, m), cplx)
    D = rand_dense(rng, n, m, cplx, diag=dg)
    unsorted = bool(rng.random() < 0.3)
    dup = dup_ok and fmt != 'bsr' and bool(rng.random() < (0.5 if fmt == 'coo' else 0.2))
    zeros = fmt != 'bsr' and bool(rng.random() < 0.2)
    noncontig = noncontig_ok and fmt == 'bsr' and bool(rng.random() < 0.25)
    spec = compress(rng, D, fmt, unsorted=unsorted, dup=dup, zeros=zeros, bs=bs, noncontig=noncontig)
    for nm, f in (('unsorted', unsorted), ('duplicates', dup), ('explicit_zeros', zeros), ('noncontiguous_data', noncontig)):
        if f:
            feats.add(nm)
    if (np.abs(D).sum(1) == 0).any():
        feats.add('empty_row')
    return spec, D, feats


def has_dups(spec):
    if spec['fmt'] == 'coo':
        pr = list(zip(spec['row'], spec['col']))
        return len(set(pr)) < len(pr)
    ip, ix = spec['indptr'], spec['indices']
    return any(len(set(ix[ip[i]:ip[i + 1]])) < ip[i + 1] - ip[i] for i in range(len(ip) - 1))


def snapshot(A):
    parts = [np.ascontiguousarray(A.data).tobytes()]
    if A.format == 'coo':
        parts += [A.row.tobytes(), A.col.tobytes()]
    else:
        parts += [A.indices.tobytes(), A.indptr.tobytes()]
    return hashlib.sha1(b'|'.join(parts)).hexdigest()


def shares(R, A):
    try:
        return bool(np.shares_memory(R.data, A.data))
    except Exception:
        return False


# ------------------------------------------------------------------------------------------------
# protocol helpers
# ------------------------------------------------------------------------------------------------

def ev(a, cplx):
    return (enc_crats if cplx else enc_rats)(np.asarray(a).ravel())


def comp_line(A, cplx):
    """`n ap aj ax` of a CSR/CSC array (n = number of major slices)"""
    return f'{len(A.indptr) - 1} {enc_ints(A.indptr)} {enc_ints(A.indices)} {ev(A.data, cplx)}'


def parse_vals(s, cplx):
    f = dec_crat if cplx else dec_rat
    out = []
    for m in dec_list(s, f):
        out.append(complex(float(m[0]), float(m[1])) if cplx else float(m))
    return np.array(out, dtype=complex if cplx else float)


def parse_exact(s, cplx):
    return dec_list(s, dec_crat if cplx else dec_rat)


def cmp_vals(model_str, impl, cplx):
    """-> (exact, close) of a model value list against an implementation array"""
    impl = np.asarray(impl).ravel()
    mv = parse_exact(model_str, cplx)
    if len(mv) != impl.size:
        return False, False
    exact, close = True, True
    for m, v in zip(mv, impl):
        if cplx:
            v = complex(v)
            if not (np.isfinite(v.real) and np.isfinite(v.imag)):
                return False, False
            exact &= frac(v.real) == m[0] and frac(v.imag) == m[1]
            mm = complex(float(m[0]), float(m[1]))
        else:
            if np.iscomplexobj(v) and abs(complex(v).imag) > 0:
                return False, False
            v = float(np.real(v))
            if not np.isfinite(v):
                return False, False
            exact &= frac(v) == m
            mm = float(m)
        close &= abs(mm - v) <= 1e-9 * (1 + abs(mm))
    return exact, close


def rows_to_dense(reply, shape, cplx, transpose=False):
    """dense matrix of a `ptr;idx;data` reply (major slices = rows, or columns when transpose)"""
    p, j, x = reply.split(';')
    ip = np.array(dec_list(p, int), dtype=np.int32)
    ix = np.array(dec_list(j, int), dtype=np.int32)
    dat = parse_vals(x, cplx)
    sh = (shape[1], shape[0]) if transpose else shape
    M = sp.csr_array((dat, ix, ip), shape=sh).toarray()
    return M.T if transpose else M


def close(a, b, tol=1e-9):
    a, b = np.asarray(a), np.asarray(b)
    if a.shape != b.shape:
        return False
    if a.size == 0:
        return True
    if not (np.isfinite(a).all() and np.isfinite(b).all()):
        return False
    return bool(np.abs(a - b).max() <= tol * (1 + np.abs(b).max()))


class Item:
    """one evaluated case: optional Lean request + comparison of the reply with the implementation"""

    def __init__(self, op, case, key, nontrivial=True, feats=()):
        self.op, self.case, self.key, self.nontrivial, self.feats = op, case, key, nontrivial, set(feats)
        self.lines = []      # (line, compare(reply) -> None | description of the disagreement, impl summary)

    def ask(self, line, compare, impl=None):
        self.lines.append((line, compare, impl))


def _lean(ctx, lines):
    """one batch through the Lean driver; a driver that fails to start (the compiled files are being rebuilt by a
    concurrent build) is retried twice"""
    import time
    from common import InfraError
    for attempt in range(3):
        try:
            return ctx.lean(lines)
        except InfraError:
            if attempt == 2:
                raise
            time.sleep(10)


def flush(ctx, items):
    lines = [ln for it in items for (ln, _c, _i) in it.lines]
    outs = _lean(ctx, lines) if lines else []
    k = 0
    for it in items:
        ctx.case(key=it.key, nontrivial=it.nontrivial,
                 sample={'op': it.op, 'request': (it.lines[0][0][:200] if it.lines else None)} if ctx.evaluations % 997 == 0 else None)
        ctx.feat('op:' + it.op)
        for f in it.feats:
            ctx.feat(f)
        for (ln, compare, impl) in it.lines:
            o = outs[k]
            k += 1
            if o == 'bad-op':
                ctx.corr(it.op, it.case, o, 'n/a', 'driver rejected the request: ' + ln[:200])
                continue
            bad = compare(o)
            if bad == 'exact':
                ctx.feat('bit_exact')
            elif bad is not None:
                ctx.corr(it.op, it.case, o, impl if impl is not None else bad, bad)


def _cmp_vals(reply, impl, cplx, field=None):
    if field is not None:
        reply = reply.split(';')[field]
    e, c = cmp_vals(reply, impl, cplx)
    return 'exact' if e else (None if c else 'values differ')


def cmp_exact_or_close(impl, cplx, field=None):
    return partial(_cmp_vals, impl=np.array(impl), cplx=cplx, field=field)


def _const(reply, msg):
    return msg


def _cmp_csrdata_dense(reply, indices, indptr, shape, dense, cplx, tol, field=None):
    """model data array on a given CSR structure, compared as a dense matrix"""
    if reply == 'noroot':
        return 'the model found no exact square root (generator error)'
    if field is not None:
        reply = reply.split(';')[field]
    M = sp.csr_array((parse_vals(reply, cplx), indices, indptr), shape=shape).toarray()
    return None if close(M, dense, tol) else 'dense values differ'


def _cmp_rows_dense(reply, shape, cplx, transpose, dense, tol=1e-12):
    if reply.count(';') == 3:          # truncation: the sort certificate of the model comes last
        reply, cert = reply.rsplit(';', 1)
        if cert != 'sorted-ok':
            return 'the sort certificate of the model failed (the model quicksort did not sort this row)'
    return None if close(rows_to_dense(reply, shape, cplx, transpose=transpose), dense, tol) else 'dense values differ'


def _cmp3(o, Ds, Dsi, impl_data, cplx):
    if o == 'noroot':
        return 'the model found no exact square root (generator error)'
    a, b, x = o.split(';')
    res = [cmp_vals(a, Ds, cplx), cmp_vals(b, Dsi, cplx), cmp_vals(x, impl_data, cplx)]
    if all(r[0] for r in res):
        return 'exact'
    return None if all(r[1] for r in res) else 'values differ'


def _cmp_blockdiag(o, out, cplx):
    if o == 'fail':
        return 'the model pseudo-inverse failed its Penrose check'
    e, _cl = cmp_vals(o, out, cplx)
    if e:
        return 'exact'
    return None if close(parse_vals(o, cplx), np.asarray(out).ravel(), 1e-8) else 'values differ'


def _cmp_sbi(o, Sd, Dd, cplx):
    if o == 'fail':
        return 'the model pseudo-inverse failed its Penrose check'
    a, b = o.split(';')
    return None if (close(parse_vals(a, cplx), Sd.ravel(), 1e-8) and close(parse_vals(b, cplx), Dd.ravel(), 1e-8)) else 'values differ'


def _cmp_filterop(o, n, m, rpb, cplx, good_rows, Fd):
    vals, flags, chk = o.split(';')
    if chk != 'constraint-ok':
        return 'the model output violates its own constraint'
    mv = parse_vals(vals, cplx).reshape(n, m)
    fl = dec_list(flags, int)
    for i in good_rows:
        if not fl[i]:
            return f'model flags block row {i} singular'
        if not close(mv[i * rpb:(i + 1) * rpb], Fd[i * rpb:(i + 1) * rpb], 1e-8):
            return f'block row {i} differs'
    return None


def _cmp_pinv(o, out, cplx):
    return 'model failed' if o == 'fail' else (None if close(parse_vals(o, cplx), np.asarray(out).ravel(), 1e-8) else 'values differ')


def _cmp_trunc_kernel(o, Aj, Ax, cplx):
    _p, j, x, cert = o.split(';')
    if cert != 'sorted-ok':
        return 'the sort certificate of the model failed (the model quicksort did not sort this row)'
    if dec_list(j, int) != list(Aj):
        return 'column order after the sort differs'
    return _cmp_vals(x, Ax, cplx)


# ------------------------------------------------------------------------------------------------
# part A: scale_rows / scale_columns
# ------------------------------------------------------------------------------------------------

SCAL = np.array([1, 2, -1, 0.5, 3, 0, -2, 0.25, 1.5, 4])


def gen_scale(rng, t):
    spec, D, feats = rand_spec(rng, t, noncontig_ok=True, real_fmts=('csc',))
    which = 'rows' if (t // 4) % 2 == 0 else 'cols'
    k = D.shape[0] if which == 'rows' else D.shape[1]
    vc = bool(rng.random() < 0.3) and spec['complex']
    v = rng.choice(SCAL, size=k).astype(complex if vc else float)
    if vc:
        v = v + 1j * rng.choice(SCAL[:6], size=k)
    copy = bool((t // 8) % 2 == 0)
    if not spec['complex'] and rng.random() < 0.2 and copy and spec['fmt'] != 'csc':
        v = v + 1j * rng.choice(SCAL[:6], size=k)      # real matrix, complex scales: upcast (copy only)
    elif not spec['complex'] and not spec.get('noncontig') and rng.random() < 0.2:
        # narrower matrix dtype: float32 (any copy flag: the scales are exactly representable), integers (copy only)
        if copy and rng.random() < 0.5:
            spec['data'] = [float(4 * x) for x in spec['data']]
            spec['dtype'] = 'int64' if rng.random() < 0.5 else 'int32'
        else:
            spec['dtype'] = 'float32'
        feats = feats | {'dtype:' + spec['dtype']}
    shape_v = str(rng.choice(['flat', 'column']))
    return {'op': 'scale', 'A': spec, 'which': which, 'v': _encv(v), 'copy': copy, 'vshape': shape_v}, feats | {which, f'copy={copy}'}


def eval_scale(ctx, c, feats=()):
    U = _U()
    A = build(c['A'])
    fmt = A.format
    v = _decv(c['v'])
    which, copy = c['which'], c['copy']
    D = A.toarray()
    cplx = bool(np.iscomplexobj(D) or np.iscomplexobj(v))
    it = Item('scale_' + which, c, _key('scale', c), nontrivial=A.nnz >= 2, feats=feats)
    snap = snapshot(A)
    orig = A.copy()
    fn = U.scale_rows if which == 'rows' else U.scale_columns
    vv = v.reshape(-1, 1) if c.get('vshape') == 'column' else v
    try:
        with warnings.catch_warnings():
            warnings.simplefilter('ignore')
            R = fn(A, vv, copy=copy)
    except Exception as e:
        ctx.violation(f'scale_{which}({fmt}, copy={copy}) raised {type(e).__name__}: {e}', c)
        return it
    ref = (v[:, None] * D) if which == 'rows' else (D * v[None, :])
    if not sp.issparse(R) or R.format != fmt:
        ctx.violation(f'scale_{which}: result format {getattr(R, "format", type(R).__name__)} for {fmt} input', c)
        return it
    if not close(R.toarray(), ref, 1e-12):
        ctx.violation(f'scale_{which}({fmt}, copy={copy}) is not {"diag(v) A" if which == "rows" else "A diag(v)"}: '
                      f'expected {ref.tolist()} got {R.toarray().tolist()}', c)
    if copy:
        if snapshot(A) != snap:
            ctx.violation(f'scale_{which}({fmt}, copy=True) modified its input', c)
        elif shares(R, A):
            ctx.violation(f'scale_{which}({fmt}, copy=True) returned a matrix that shares its data with the input', c)
    mode = 'c' if cplx else 'r'
    if fmt in ('csr', 'csc'):
        line = f'c19_scale {mode} {fmt} {which} {comp_line(orig, cplx)} {ev(v, cplx)}'
        if np.array_equal(R.indices, orig.indices) and np.array_equal(R.indptr, orig.indptr):
            it.ask(line, cmp_exact_or_close(R.data, cplx), R.data.tolist())
        else:
            it.ask(line, partial(_const, msg='the index arrays were changed by a scaling'), None)
    elif fmt == 'bsr':
        Rb, Cb = orig.blocksize
        line = (f'c19_bscale {mode} {which} {orig.shape[0] // Rb} {Rb} {Cb} {enc_ints(orig.indptr)} {enc_ints(orig.indices)} '
                f'{ev(orig.data, cplx)} {ev(v, cplx)}')
        it.ask(line, cmp_exact_or_close(R.data, cplx), np.asarray(R.data).ravel().tolist())
    else:
        T = sp.csr_array(orig)
        line = f'c19_scale {mode} csr {which} {comp_line(T, cplx)} {ev(v, cplx)}'

        it.ask(line, partial(_cmp_csrdata_dense, indices=T.indices, indptr=T.indptr, shape=T.shape, dense=R.toarray(), cplx=cplx, tol=1e-12),
               R.toarray().tolist())
        if fmt == 'coo':
            # (E26) the fallback branch on the raw COO triples: model `cooScale` (own COO -> canonical CSR conversion, no SciPy)
            line2 = (f'ext_c19_cooscale {mode} {which} {orig.shape[0]} {enc_ints(orig.row)} {enc_ints(orig.col)} '
                     f'{ev(orig.data, cplx)} {ev(v, cplx)}')
            it.ask(line2, partial(_cmp_coo_canon, R=R, cplx=cplx), R.toarray().tolist())
            it.feats.add('coo_fallback_model')
    return it


def _cmp_coo_canon(reply, R, cplx):
    """`ptr;idx;data` of the model (canonical CSR) against the COO result: same stored positions (as a set; duplicates
    of the result summed here, in Python) and same values"""
    p, j, x = reply.split(';')
    ptr = dec_list(p, int)
    idx = dec_list(j, int)
    acc = {}
    for r, c, val in zip(R.row.tolist(), R.col.tolist(), R.data.tolist()):
        acc[(r, c)] = acc.get((r, c), 0) + val
    keys = sorted(acc)
    mkeys = [(i, idx[k]) for i in range(len(ptr) - 1) for k in range(ptr[i], ptr[i + 1])]
    if mkeys != keys:
        return 'stored positions of the COO result differ from the canonical structure of the input'
    return _cmp_vals(x, np.array([acc[k] for k in keys]), cplx)


# ------------------------------------------------------------------------------------------------
# part B: get_diagonal
# ------------------------------------------------------------------------------------------------

def _diag_gen(rng, k, cplx):
    d = rng.choice([1, 2, 4, -2, 0.5, 0, 0, 3, -1], size=k).astype(complex if cplx else float)
    if cplx:
        d = d + 1j * rng.choice([0, 0, 1, -2], size=k)
    return d


def gen_diag(rng, t):
    square = rng.random() < 0.8
    spec, D, feats = rand_spec(rng, t, square=square, fmts=('csr', 'csc', 'bsr', 'coo', 'dense'), diag=_diag_gen) \
        if t % 5 != 4 else (None, None, None)
    if spec is None:
        spec, D, feats = rand_spec(rng, 0, square=square, fmts=('csr',), diag=_diag_gen)
        spec = {'fmt': 'dense', 'shape': list(D.shape), 'complex': bool(np.iscomplexobj(D)), 'data': _encv(D)}
        feats = {'dense', 'complex' if spec['complex'] else 'real'}
    norm_eq = [0, 1, 2, False, True][int(rng.integers(0, 5))]
    inv = bool(rng.random() < 0.5)
    return {'op': 'diag', 'A': spec, 'norm_eq': norm_eq, 'inv': inv}, feats | {f'norm_eq={int(norm_eq)}', f'inv={inv}'}


def eval_diag(ctx, c, feats=()):
    U = _U()
    spec = c['A']
    cplx = spec['complex']
    if spec['fmt'] == 'dense':
        A = _decv(spec['data'], cplx).reshape(spec['shape'])
        D = A.copy()
    else:
        A = build(spec)
        D = A.toarray()
    n, m = D.shape
    ne, inv = int(c['norm_eq']), c['inv']
    it = Item('get_diagonal', c, _key('diag', c), nontrivial=np.count_nonzero(D) >= 2, feats=feats)
    if ne == 0:
        ref = np.diag(D).copy()
    elif ne == 1:
        ref = np.diag(D.conj().T @ D)
    else:
        ref = np.diag(D @ D.conj().T)
    if inv:
        ref = np.array([0 if x == 0 else 1 / x for x in ref], dtype=ref.dtype)
    line = None
    mode = 'c' if cplx else 'r'
    if True:
        if spec['fmt'] in ('csr', 'csc'):
            nmin = m if spec['fmt'] == 'csr' else n
            line = f'c19_diag {mode} {spec["fmt"]} {ne} {int(inv)} {comp_line(A, cplx).split(" ", 1)[0]} {nmin} ' + comp_line(A, cplx).split(' ', 1)[1]
        elif spec['fmt'] == 'bsr':
            Rb, Cb = A.blocksize
            line = (f'c19_bdiag {mode} {ne} {int(inv)} {n // Rb} {m // Cb} {Rb} {Cb} {enc_ints(A.indptr)} {enc_ints(A.indices)} '
                    f'{ev(A.data, cplx)}')
        else:
            T = sp.csr_array(A)
            line = f'c19_diag {mode} csr {ne} {int(inv)} {n} {m} ' + comp_line(T, cplx).split(' ', 1)[1]
    try:
        with warnings.catch_warnings():
            warnings.simplefilter('ignore')
            d = U.get_diagonal(A, norm_eq=c['norm_eq'], inv=inv)
    except Exception as e:
        ctx.violation(f'get_diagonal({spec["fmt"]} {n}x{m}, norm_eq={c["norm_eq"]}, inv={inv}) raised {type(e).__name__}: {e}', c)
        return it
    d = np.asarray(d)
    if d.shape != ref.shape or not close(d, ref, 1e-12):
        ctx.violation(f'get_diagonal({spec["fmt"]}, norm_eq={c["norm_eq"]}, inv={inv}): expected {ref.tolist()} got {d.tolist()}', c)
    if sp.issparse(A) and not close(A.toarray(), D, 0):
        ctx.violation('get_diagonal changed the value of its input', c)
    if line:
        it.ask(line, cmp_exact_or_close(d, cplx), d.tolist())
    return it


# ------------------------------------------------------------------------------------------------
# part C: symmetric_rescaling
# ------------------------------------------------------------------------------------------------

def _sq_diag(rng, k, cplx):
    if cplx:
        # squares of Gaussian integers / dyadics (principal root exact), zero and negative real entries
        roots = np.array([1, 2, 1 + 1j, 2 + 1j, 1 - 2j, 0.5, 3, 2j, 1 + 3j, 0, 0.5 + 0.5j, 4])
        r = rng.choice(roots, size=k)
        return r * r
    return rng.choice([1, 4, 16, 0.25, -4, -1, 0, 64, 9, -16, 2.25], size=k).astype(float)


def gen_symresc(rng, t):
    spec, D, feats = rand_spec(rng, t, square=True, fmts=('csr', 'csc', 'bsr', 'coo', 'csr'), diag=_sq_diag, real_fmts=('csc',))
    copy = bool(rng.random() < 0.6)
    return {'op': 'symresc', 'A': spec, 'copy': copy}, feats | {f'copy={copy}'}


def eval_symresc(ctx, c, feats=()):
    U = _U()
    A = build(c['A'])
    fmt, cplx, copy = A.format, c['A']['complex'], c['copy']
    D = A.toarray()
    n = D.shape[0]
    it = Item('symmetric_rescaling', c, _key('symresc', c), nontrivial=A.nnz >= 2, feats=feats)
    d = np.diag(D)
    s = np.sqrt(d) if cplx else np.sqrt(np.abs(d))
    sinv = np.array([0 if d[i] == 0 else 1 / s[i] for i in range(n)], dtype=s.dtype)
    ref = sinv[:, None] * D * sinv[None, :]
    snap = snapshot(A)
    orig = A.copy()
    try:
        with warnings.catch_warnings():
            warnings.simplefilter('ignore')
            Ds, Dsi, DAD = U.symmetric_rescaling(A, copy=copy)
    except Exception as e:
        ctx.violation(f'symmetric_rescaling({fmt}, copy={copy}) raised {type(e).__name__}: {e}', c)
        return it
    ok = close(Ds, s) and close(Dsi, sinv) and close(DAD.toarray(), ref)
    if not ok:
        ctx.violation(f'symmetric_rescaling({fmt}, copy={copy}) is not D^-1/2 A D^-1/2: expected {ref.tolist()} got {DAD.toarray().tolist()}, '
                      f'D_sqrt {np.asarray(Ds).tolist()}, D_sqrt_inv {np.asarray(Dsi).tolist()}', c)
    else:
        dd = np.diag(DAD.toarray())
        want = np.where(d == 0, 0, d / np.where(d == 0, 1, np.abs(d)) if not cplx else 1)
        if not close(dd, want):
            ctx.violation(f'symmetric_rescaling: the diagonal of the result is {dd.tolist()}, expected {np.asarray(want).tolist()}', c)
    if (copy or fmt not in ('csr', 'csc', 'bsr')) and snapshot(A) != snap:
        ctx.violation(f'symmetric_rescaling({fmt}, copy={copy}) modified its input', c)
    mode = 'c' if cplx else 'r'

    def cmp3(impl_data):
        return partial(_cmp3, Ds=np.array(Ds), Dsi=np.array(Dsi), impl_data=np.array(impl_data), cplx=cplx)
    if fmt in ('csr', 'csc'):
        if np.array_equal(DAD.indices, orig.indices):
            it.ask(f'c19_symresc {mode} {comp_line(orig, cplx)}', cmp3(DAD.data), DAD.data.tolist())
    elif fmt == 'bsr':
        Rb = orig.blocksize[0]
        it.ask(f'c19_bsymresc {mode} {n // Rb} {Rb} {enc_ints(orig.indptr)} {enc_ints(orig.indices)} {ev(orig.data, cplx)}',
               cmp3(DAD.data), np.asarray(DAD.data).ravel().tolist())
    else:
        T = sp.csr_array(orig)

        it.ask(f'c19_symresc {mode} {comp_line(T, cplx)}',
               partial(_cmp_csrdata_dense, indices=T.indices, indptr=T.indptr, shape=T.shape, dense=DAD.toarray(), cplx=cplx, tol=1e-9, field=2),
               DAD.toarray().tolist())
    return it


# ------------------------------------------------------------------------------------------------
# part D: filters and truncation
# ------------------------------------------------------------------------------------------------

THETAS = [0.0, 0.25, 0.5, 0.75, 0.125, 0.5, 0.9375, 0.375]


def gen_filter(rng, t):
    kind = ['rows', 'cols', 'rows', 'diag', 'lump', 'trunc', 'cols'][t % 7]
    u = rng.random()
    # the index-shift trick of the max rule is sensitive to the shape: rows on tall, columns on wide matrices
    shape = ('wide' if kind == 'cols' else 'tall') if u < 0.4 else None
    spec, D, feats = rand_spec(rng, t // 7, square=bool(u >= 0.7), nmax=7, shape=shape)
    c = {'op': 'filter', 'kind': kind, 'A': spec}
    if kind == 'trunc':
        c['k'] = int(rng.integers(0, 5))
        feats = feats | {f'k={c["k"]}'}
    else:
        c['theta'] = float(rng.choice(THETAS))
        feats = feats | {f'theta={c["theta"]}'}
    return c, feats | {'filter:' + kind}


def ref_filter_max(D, theta, axis, band=False):
    """-> (reference, don't-care mask).  Complex moduli are irrational: an entry whose modulus is within
    1e-12 (relative) of the threshold may go either way in floating point; real data: exact, no slack
    (band=True: real data that went through a rounded rescaling gets the same slack)"""
    mx = np.abs(D).max(axis=axis, keepdims=True) if D.size else np.zeros((D.shape[0], 1))
    thr = theta * mx * np.ones_like(np.abs(D))
    keep = np.abs(D) >= thr
    free = (np.abs(np.abs(D) - thr) <= 1e-12 * (thr + 1e-300)) & (D != 0) if (np.iscomplexobj(D) or band) else np.zeros(D.shape, dtype=bool)
    return np.where(keep, D, 0), free


def ref_filter_diag(D, theta, lump, band=False):
    R = D.copy()
    n, m = D.shape
    free = np.zeros(D.shape, dtype=bool)
    for i in range(n):
        d = abs(D[i, i]) if i < m else 0.0
        for j in range(m):
            if (np.iscomplexobj(D) or band) and D[i, j] != 0 and abs(abs(D[i, j]) - theta * d) <= 1e-12 * theta * d:
                free[i, :] = True          # rounding decides: the whole row (its lumped diagonal too) is not judged
            if abs(D[i, j]) < theta * d and (j != i or not lump):
                if lump:
                    R[i, i] += D[i, j]
                R[i, j] = 0
    return R, free


def filt_equal(Rd, ref, free, D, tol=1e-12, whole=False):
    """result == reference except at don't-care positions, where the original entry or zero are both fine"""
    if Rd.shape != ref.shape:
        return False
    ok = np.abs(Rd - ref) <= tol * (1 + np.abs(ref))
    alt = free if whole else free & ((np.abs(Rd - D) <= tol * (1 + np.abs(D))) | (Rd == 0))
    return bool((ok | alt).all()) if Rd.size else True


def trunc_ok(x, y, stored, k):
    """row y is row x with all but k largest-magnitude stored entries removed (ties: any choice)"""
    L = len(stored)
    if L <= k:
        return np.array_equal(x, y)
    for j in range(len(x)):
        if y[j] != x[j] and y[j] != 0:
            return False
    K = [j for j in stored if y[j] != 0]
    Z = [j for j in stored if y[j] == 0 and x[j] != 0]
    z0 = sum(1 for j in stored if x[j] == 0)
    if not (len(K) <= k <= len(K) + z0):
        return False
    if K and Z and min(abs(x[j]) for j in K) < max(abs(x[j]) for j in Z) * (1 - 1e-12):
        return False
    return True


def eval_filter(ctx, c, feats=()):
    U = _U()
    A = build(c['A'])
    fmt, cplx, kind = A.format, c['A']['complex'], c['kind']
    D = A.toarray()
    n, m = D.shape
    dups = has_dups(c['A']) and fmt != 'coo'
    it = Item('filter_' + kind, c, _key('filter', c), nontrivial=A.nnz >= 2, feats=feats)
    mode = 'c' if cplx else 'r'
    snap = snapshot(A)
    fk = FK_DUP if dups else None
    try:
        with warnings.catch_warnings():
            warnings.simplefilter('ignore')
            if kind in ('rows', 'cols'):
                theta = c['theta']
                fn = U.filter_matrix_rows if kind == 'rows' else U.filter_matrix_columns
                T = (A.tocsr() if kind == 'rows' else A.tocsc()).copy()
                T.indptr, T.indices = T.indptr.astype(np.int32), T.indices.astype(np.int32)
                R = fn(A, theta)
                ref, free = ref_filter_max(D, theta, 1 if kind == 'rows' else 0)
                if not sp.issparse(R) or R.format != fmt or R.shape != A.shape:
                    ctx.violation(f'filter_matrix_{"rows" if kind == "rows" else "columns"}: result {getattr(R, "format", type(R).__name__)} for {fmt} input', c)
                    return it
                Rd = R.toarray()
                if not filt_equal(Rd, ref, free, D):
                    ctx.violation(f'filter_matrix_{"rows" if kind == "rows" else "columns"}({fmt}, theta={theta}) does not drop exactly the entries below '
                                  f'theta * max: expected {ref.tolist()} got {Rd.tolist()}', c, fkey=fk)
                if snapshot(A) != snap:
                    ctx.violation(f'filter_matrix_{"rows" if kind == "rows" else "columns"}({fmt}) modified its input', c)
                if not _tie_risk(T, theta, cplx):
                    line = f'c19_filter {mode} {enc_rat(theta)} {comp_line(T, cplx)}'
                    it.ask(line, partial(_cmp_rows_dense, shape=(n, m), cplx=cplx, transpose=(kind == 'cols'), dense=Rd), Rd.tolist())
                else:
                    ctx.near_skipped += 1
            elif kind in ('diag', 'lump'):
                theta, lump = c['theta'], kind == 'lump'
                ref, free = ref_filter_diag(D, theta, lump)
                T = A.tocsr().copy()
                T.indptr, T.indices = T.indptr.astype(np.int32), T.indices.astype(np.int32)
                r = U.filter_matrix_rows(A, theta, diagonal=True, lump=lump)
                if r is not None:
                    ctx.violation('filter_matrix_rows(diagonal=True) returned something (documented: in place, returns None)', c)
                Rd = A.toarray()
                fk2 = fk or (FK_DIAG_NONCSR if fmt in ('csc', 'coo') else None)
                if not filt_equal(Rd, ref, free, D, whole=True):
                    ctx.violation(f'filter_matrix_rows({fmt}, theta={theta}, diagonal=True, lump={lump}) did not filter its argument in place by '
                                  f'theta*|a_ii|: expected {ref.tolist()} got {Rd.tolist()}', c, fkey=fk2)
                elif lump and not close(Rd.sum(1), D.sum(1), 1e-12):
                    ctx.violation('filter_matrix_rows(lump=True) changed a row sum', c, fkey=fk2)
                if fmt == 'csr' and not _tie_risk(T, theta, cplx, diag=True):
                    line = f'c19_filterdiag {mode} {enc_rat(theta)} {int(lump)} {comp_line(T, cplx)}'
                    it.ask(line, partial(_cmp_rows_dense, shape=(n, m), cplx=cplx, transpose=False, dense=Rd), Rd.tolist())
            else:
                k = c['k']
                T = A.tocsr().copy()
                T.indptr, T.indices = T.indptr.astype(np.int32), T.indices.astype(np.int32)
                R = U.truncate_rows(A, k)
                if not sp.issparse(R) or R.format != fmt or R.shape != A.shape:
                    ctx.violation(f'truncate_rows: result {getattr(R, "format", type(R).__name__)} for {fmt} input', c)
                    return it
                Rd = R.toarray()
                Tc = T.copy()
                Tc.sum_duplicates()
                for i in range(n):
                    stored = Tc.indices[Tc.indptr[i]:Tc.indptr[i + 1]].tolist()
                    if dups:
                        stored = T.indices[T.indptr[i]:T.indptr[i + 1]].tolist()
                    if not trunc_ok(D[i], Rd[i], stored, k) and not (dups and len(stored) > k):
                        ctx.violation(f'truncate_rows({fmt}, k={k}): row {i} = {D[i].tolist()} became {Rd[i].tolist()}', c, fkey=fk)
                        break
                if snapshot(A) != snap:
                    ctx.violation(f'truncate_rows({fmt}) modified its input', c)
                if not _tie_risk(T, None, cplx):
                    line = f'c19_trunc {mode} {k} {comp_line(T, cplx)}'
                    it.ask(line, partial(_cmp_rows_dense, shape=(n, m), cplx=cplx, transpose=False, dense=Rd), Rd.tolist())
                else:
                    ctx.near_skipped += 1
    except Exception as e:
        ctx.violation(f'{kind} filter on {fmt} raised {type(e).__name__}: {e}', c)
    return it


def _tie_risk(T, theta, cplx, diag=False):
    """complex moduli are compared in floating point by the code and through exact squares by the model:
    skip the model comparison when two different entries have exactly equal or nearly equal modulus
    relations that rounding could flip (real data: never)"""
    if not cplx:
        return False
    for i in range(len(T.indptr) - 1):
        vals = T.data[T.indptr[i]:T.indptr[i + 1]]
        sq = [frac(v.real) ** 2 + frac(v.imag) ** 2 for v in vals]
        if theta is None:
            cand = [(a, b) for a in sq for b in sq]
        else:
            th2 = frac(theta) ** 2
            cand = [(a, th2 * b) for a in sq for b in sq]
        for a, b in cand:
            if a == b:
                ra = np.sqrt(float(a))
                if frac(float(ra)) ** 2 != a:       # irrational modulus: the tie is decided by rounding
                    return True
            elif abs(float(a) - float(b)) <= 1e-12 * max(float(a), float(b)):
                return True
    return False


# ------------------------------------------------------------------------------------------------
# part E: get_block_diag / scale_block_inverse
# ------------------------------------------------------------------------------------------------

def _block_matrix(rng, bs, nb, cplx, singular):
    n = bs * nb
    D = rand_dense(rng, n, n, cplx, density=rng.choice([0.4, 0.8]))
    for k in range(nb):
        sl = slice(k * bs, (k + 1) * bs)
        for _ in range(20):
            B = rng.integers(-3, 4, size=(bs, bs)).astype(complex if cplx else float)
            if cplx:
                B = B + 1j * rng.integers(-2, 3, size=(bs, bs))
            kind = rng.random()
            if singular and kind < 0.35 and bs >= 1:
                if kind < 0.1:
                    B[:] = 0
                elif bs >= 2:
                    B[-1] = B[0] * rng.choice([1, 2, -1])
                    if bs >= 3 and rng.random() < 0.5:
                        B[:, -1] = B[:, 0]
                else:
                    B[:] = 0
            else:
                B = B + np.diag(rng.choice([4, 6, -5], size=bs))
            sv = np.linalg.svd(B, compute_uv=False)
            nz = sv[sv > 1e-9 * max(sv.max(), 1)]
            if nz.size == 0 or nz.min() > 0.05 * sv.max():
                break
        D[sl, sl] = B
    return D


def gen_block(rng, t):
    bs = int(rng.choice([1, 2, 3, 4, 2, 3, 7, 5, 6, 2, 3, 8]))
    nb = int(rng.integers(1, 4)) if bs < 5 else int(rng.integers(1, 3))
    cplx = bool(rng.random() < 0.3)
    singular = bool(rng.random() < 0.5)
    D = _block_matrix(rng, bs, nb, cplx, singular)
    fn = ['get_block_diag', 'scale_block_inverse'][(t // 5) % 2]
    history = str(rng.choice(['single', 'inv_then_plain', 'twice', 'other_bs_first']))
    fmt = ['csr', 'bsr', 'csc', 'coo', 'bsr2'][t % 5]
    if fn == 'get_block_diag' and history != 'single' and rng.random() < 0.5:
        fmt = 'bsr2' if history == 'other_bs_first' else 'bsr'   # the caches live on a BSR input
    if fmt == 'bsr':
        spec = compress(rng, D, 'bsr', bs=(bs, bs))
    elif fmt == 'bsr2':
        other = [b for b in (1, 2, 3, bs * nb) if (bs * nb) % b == 0 and b != bs] or [bs]
        b2 = int(rng.choice(other))
        spec = compress(rng, D, 'bsr', bs=(b2, b2))
    else:
        spec = compress(rng, D, fmt, unsorted=bool(rng.random() < 0.3), dup=(fmt == 'coo' and rng.random() < 0.5))
    c = {'op': 'block', 'fn': fn, 'A': spec, 'bs': bs, 'inv': bool(rng.random() < 0.6), 'history': history}
    return c, {spec['fmt'], f'bs={bs}', fn, 'complex' if cplx else 'real', 'singular_blocks' if singular else 'regular_blocks', 'history:' + c['history']}


def eval_block(ctx, c, feats=()):
    U = _U()
    A = build(c['A'])
    fmt, cplx, bs = A.format, c['A']['complex'], c['bs']
    D = A.toarray()
    n = D.shape[0]
    nb = n // bs
    it = Item(c['fn'], c, _key('block', c), nontrivial=n >= 2, feats=feats)
    blocks = np.array([D[k * bs:(k + 1) * bs, k * bs:(k + 1) * bs] for k in range(nb)])
    pinvs = np.array([np.linalg.pinv(b, rcond=1e-9) for b in blocks]) if nb else blocks
    regular = all(np.linalg.matrix_rank(b) == bs for b in blocks)
    mode = 'c' if cplx else 'r'
    snap = snapshot(A)
    try:
        with warnings.catch_warnings():
            warnings.simplefilter('ignore')
            if c['fn'] == 'get_block_diag':
                inv = c['inv']
                h = c['history']
                if h == 'inv_then_plain':
                    U.get_block_diag(A, bs, inv_flag=not inv)
                elif h == 'twice':
                    U.get_block_diag(A, bs, inv_flag=inv)
                elif h == 'other_bs_first':
                    ob = [b for b in (1, 2, 3) if n % b == 0 and b != bs]
                    if fmt == 'bsr' and A.blocksize[0] == A.blocksize[1] and A.blocksize[0] != bs:
                        ob = [A.blocksize[0]]
                    if ob:
                        U.get_block_diag(A, ob[0], inv_flag=inv)
                out = np.array(U.get_block_diag(A, bs, inv_flag=inv))
                ref = pinvs if inv else blocks
                if out.shape != ref.shape or not close(out, ref, 1e-8):
                    ctx.violation(f'get_block_diag({fmt}, blocksize={bs}, inv_flag={inv}, history={h}): expected {ref.tolist()} got {out.tolist()}', c)
                if not close(A.toarray(), D, 0):
                    ctx.violation('get_block_diag changed the value of its input', c)
                line = f'c19_blockdiag {mode} {bs} {int(inv)} {n} {ev(D, cplx)}'

                it.ask(line, partial(_cmp_blockdiag, out=out, cplx=cplx), out.ravel().tolist())
            else:
                S, Dinv = U.scale_block_inverse(A, bs)
                Dref = np.zeros_like(D)
                for k in range(nb):
                    Dref[k * bs:(k + 1) * bs, k * bs:(k + 1) * bs] = pinvs[k]
                ref = Dref @ D
                Sd, Dd = S.toarray(), Dinv.toarray()
                if not close(Dd, Dref, 1e-8) or not close(Sd, ref, 1e-8):
                    ctx.violation(f'scale_block_inverse({fmt}, blocksize={bs}): expected D^-1 A = {ref.tolist()} got {Sd.tolist()}; D^-1 = {Dd.tolist()}', c)
                elif regular:
                    bd = np.array([Sd[k * bs:(k + 1) * bs, k * bs:(k + 1) * bs] for k in range(nb)])
                    if not close(bd, np.array([np.eye(bs)] * nb), 1e-8):
                        ctx.violation('scale_block_inverse: the block diagonal of the result is not the identity', c)
                if snapshot(A) != snap:
                    ctx.violation(f'scale_block_inverse({fmt}) modified its input', c)
                line = f'c19_sbi {mode} {bs} {n} {ev(D, cplx)}'

                it.ask(line, partial(_cmp_sbi, Sd=Sd, Dd=Dd, cplx=cplx), Sd.ravel().tolist())
    except Exception as e:
        ctx.violation(f'{c["fn"]}({fmt}, blocksize={bs}) raised {type(e).__name__}: {e}', c)
    return it


# ------------------------------------------------------------------------------------------------
# part F: filter_operator
# ------------------------------------------------------------------------------------------------

def gen_filterop(rng, t):
    cplx = bool(rng.random() < 0.3)
    bsr = t % 3 == 2
    rpb, cpb = (int(rng.choice([1, 2, 3])), int(rng.choice([1, 2]))) if bsr else (1, 1)
    nbr, ncb = int(rng.integers(1, 6)), int(rng.integers(1, 5))
    n, m = nbr * rpb, ncb * cpb
    nd = int(rng.integers(1, 3))
    dens = float(rng.choice([0.4, 0.7, 1.0]))
    PA = rng.random((nbr, ncb)) < dens
    PC = rng.random((nbr, ncb)) < dens
    if rng.random() < 0.3:
        PC = PA.copy()
    DA = rand_dense(rng, n, m, cplx, density=1.0) * np.kron(PA, np.ones((rpb, cpb)))
    DC = np.kron(PC, np.ones((rpb, cpb))) * rng.choice([1.0, 2.0, -1.0], size=(n, m))
    B = rng.choice([1, 2, -1, 3, 0.5, 0, -2], size=(m, nd)).astype(complex if cplx else float)
    Bf = rng.choice([1, 2, -1, 0, 4], size=(n, nd)).astype(complex if cplx else float)
    if cplx:
        B = B + 1j * rng.choice([0, 1, -1, 2], size=(m, nd))
        Bf = Bf + 1j * rng.choice([0, 1, -1], size=(n, nd))
    if rng.random() < 0.3:
        B[:, 0] = 1
    fmt = 'bsr' if bsr else 'csr'
    sa = compress(rng, DA.astype(complex if cplx else float), fmt, bs=(rpb, cpb))
    sc = compress(rng, DC.astype(complex if cplx else float), fmt, bs=(rpb, cpb), zeros=bool(rng.random() < 0.2) and not bsr)
    c = {'op': 'filterop', 'A': sa, 'C': sc, 'B': _encv(B), 'Bf': _encv(Bf), 'nd': nd, 'given': bool(rng.random() < 0.4),
         'flat': bool(nd == 1 and rng.random() < 0.3)}
    return c, {fmt, f'nd={nd}', 'complex' if cplx else 'real', f'BtBinv_given={c["given"]}', f'blocks{rpb}x{cpb}'}


def eval_filterop(ctx, c, feats=()):
    U = _U()
    A, C = build(c['A']), build(c['C'])
    cplx = c['A']['complex']
    nd = c['nd']
    n, m = A.shape
    B = _decv(c['B'], cplx).reshape(m, nd)
    Bf = _decv(c['Bf'], cplx).reshape(n, nd)
    rpb, cpb = A.blocksize if A.format == 'bsr' else (1, 1)
    nbr = n // rpb
    DA, DC = A.toarray(), C.toarray()
    it = Item('filter_operator', c, _key('filterop', c), nontrivial=C.nnz >= 2, feats=feats)
    pat = [sorted(set(C.indices[C.indptr[i]:C.indptr[i + 1]].tolist())) for i in range(nbr)]
    mask = np.zeros((n, m), dtype=bool)
    for i in range(nbr):
        for jb in pat[i]:
            mask[i * rpb:(i + 1) * rpb, jb * cpb:(jb + 1) * cpb] = True
    snapA, snapC, B0, Bf0 = snapshot(A), snapshot(C), B.copy(), Bf.copy()
    try:
        with warnings.catch_warnings():
            warnings.simplefilter('ignore')
            Z = U.compute_BtBinv(B, C) if c['given'] else None
            Bin, Bfin = (B.ravel(), Bf.ravel()) if c.get('flat') else (B, Bf)
            F = U.filter_operator(A, C, Bin, Bfin, BtBinv=Z)
    except Exception as e:
        ctx.violation(f'filter_operator({A.format}) raised {type(e).__name__}: {e}', c)
        return it
    if not sp.issparse(F) or F.shape != A.shape or F.format != A.format:
        ctx.violation(f'filter_operator: result {getattr(F, "format", type(F).__name__)} {getattr(F, "shape", None)}', c)
        return it
    Fd = F.toarray()
    if (Fd[~mask] != 0).any():
        ctx.violation(f'filter_operator: entries outside the pattern of C: {Fd.tolist()} pattern {mask.astype(int).tolist()}', c)
        return it
    if snapshot(A) != snapA or snapshot(C) != snapC or not np.array_equal(B, B0) or not np.array_equal(Bf, Bf0):
        ctx.violation('filter_operator modified one of its arguments', c)
    Am = np.where(mask, DA, 0)
    E = Fd @ B - Bf
    good_rows = []
    for i in range(nbr):
        cols = [jb * cpb + s for jb in pat[i] for s in range(cpb)]
        if not cols:
            continue
        BJ = B[cols]
        G = BJ.conj().T @ BJ
        sv = np.linalg.svd(G, compute_uv=False)
        if sv.min() <= 1e-6 * sv.max() or sv.min() == 0:
            continue
        good_rows.append(i)
        rows = slice(i * rpb, (i + 1) * rpb)
        if not close(E[rows], np.zeros_like(E[rows]), 1e-9 * (1 + np.abs(Bf).max() + np.abs(DA).max() * np.abs(B).max() * m)):
            ctx.violation(f'filter_operator: block row {i} allows the constraint (B_J^H B_J invertible) but (A_f B - Bf) = {E[rows].tolist()}', c)
            return it
        ref = Am[rows][:, cols] - (Am[rows] @ B - Bf[rows]) @ np.linalg.inv(G) @ BJ.conj().T
        if not close(Fd[rows][:, cols], ref, 1e-8):
            ctx.violation(f'filter_operator: block row {i} is not the l2-projection of the masked row: expected {ref.tolist()} got {Fd[rows][:, cols].tolist()}', c)
            return it
    mode = 'c' if cplx else 'r'
    pats = ';'.join(enc_ints(p) for p in pat) if nbr else 'none'
    line = f'c19_filterop {mode} {rpb} {cpb} {nd} {pats} {n} {m} {ev(DA, cplx)} {ev(B, cplx)} {ev(Bf, cplx)}'

    it.ask(line, partial(_cmp_filterop, n=n, m=m, rpb=rpb, cplx=cplx, good_rows=good_rows, Fd=Fd), Fd.tolist())
    it.nontrivial = it.nontrivial and len(good_rows) > 0
    return it


# ------------------------------------------------------------------------------------------------
# part G: raw kernels
# ------------------------------------------------------------------------------------------------

def gen_kernel(rng, t):
    kind = ['csc_scale_rows', 'csc_scale_columns', 'filter_matrix_rows', 'truncate_rows_csr', 'pinv_array', 'py_pinv_array'][t % 6]
    cplx = bool(rng.random() < 0.3) and not kind.startswith('csc')
    if kind in ('pinv_array', 'py_pinv_array'):
        bs = int(rng.integers(1, 5))
        nb = int(rng.integers(1, 4))
        if kind == 'py_pinv_array' and rng.random() < 0.4:
            bs, nb = 1, int(rng.integers(1, 6))       # the 1 x 1 branch: zeros stay zero
        D = _block_matrix(rng, bs, nb, cplx, bool(rng.random() < (0.8 if bs == 1 else 0.5)))
        blocks = np.array([D[k * bs:(k + 1) * bs, k * bs:(k + 1) * bs] for k in range(nb)])
        return {'op': 'kernel', 'kind': kind, 'bs': bs, 'complex': cplx, 'blocks': _encv(blocks), 'trans': str(rng.choice(['T', 'F']))}, {kind}
    fmt = 'csc' if kind.startswith('csc') else 'csr'
    spec, D, feats = rand_spec(rng, 0, fmts=(fmt,), cplx=cplx, nmax=7)
    c = {'op': 'kernel', 'kind': kind, 'A': spec}
    if kind.startswith('csc'):
        k = D.shape[0] if kind == 'csc_scale_rows' else D.shape[1]
        v = rng.choice(SCAL, size=k).astype(complex if cplx else float)
        if cplx:
            v = v + 1j * rng.choice(SCAL[:6], size=k)
        c['v'] = _encv(v)
    elif kind == 'filter_matrix_rows':
        c['theta'] = float(rng.choice(THETAS))
        c['lump'] = bool(rng.random() < 0.5)
    else:
        c['k'] = int(rng.integers(0, 5))
    return c, feats | {kind}


def eval_kernel(ctx, c, feats=()):
    from pyamg import amg_core
    kind = c['kind']
    it = Item('kernel:' + kind, c, _key('kernel', c), feats=feats)
    if kind in ('pinv_array', 'py_pinv_array'):
        cplx, bs = c['complex'], c['bs']
        blocks = _decv(c['blocks'], cplx).reshape(-1, bs, bs)
        if kind == 'py_pinv_array':
            from pyamg.util.linalg import pinv_array
            out = blocks.copy()
            try:
                r = pinv_array(out)
            except Exception as e:
                ctx.violation(f'linalg.pinv_array raised {type(e).__name__}: {e}', c)
                return it
            if r is not None:
                ctx.violation('linalg.pinv_array returned something (documented: in place)', c)
        else:
            a = np.ascontiguousarray(blocks if c['trans'] == 'T' else blocks.transpose(0, 2, 1)).ravel().copy()
            amg_core.pinv_array(a, blocks.shape[0], bs, c['trans'])
            out = a.reshape(-1, bs, bs)      # 'F' only changes how the input is read; the result is row major
        ref = np.array([np.linalg.pinv(b, rcond=1e-9) for b in blocks])
        if not close(out, ref, 1e-8):
            ctx.violation(f'{kind} ({c["trans"]}): expected {ref.tolist()} got {out.tolist()}', c)
        mode = 'c' if cplx else 'r'
        for k in range(blocks.shape[0]):
            it.ask(f'c19_pinv {mode} {bs} {ev(blocks[k], cplx)}', partial(_cmp_pinv, out=out[k].copy(), cplx=cplx), out[k].ravel().tolist())
        return it
    A = build(c['A'])
    cplx = c['A']['complex']
    mode = 'c' if cplx else 'r'
    D = A.toarray()
    n, m = D.shape
    Ap, Aj, Ax = A.indptr.copy(), A.indices.copy(), A.data.copy()
    it.nontrivial = A.nnz >= 2
    if kind in ('csc_scale_rows', 'csc_scale_columns'):
        v = _decv(c['v'], cplx)
        which = 'rows' if kind == 'csc_scale_rows' else 'cols'
        getattr(amg_core, kind)(n, m, Ap, Aj, Ax, v)
        R = sp.csc_array((Ax, Aj, Ap), shape=(n, m)).toarray()
        ref = v[:, None] * D if which == 'rows' else D * v[None, :]
        if not close(R, ref, 1e-12):
            ctx.violation(f'{kind}: expected {ref.tolist()} got {R.tolist()}', c)
        it.ask(f'c19_scale {mode} csc {which} {comp_line(A, cplx)} {ev(v, cplx)}', cmp_exact_or_close(Ax, cplx), Ax.tolist())
    elif kind == 'filter_matrix_rows':
        theta, lump = c['theta'], c['lump']
        amg_core.filter_matrix_rows(n, theta, Ap, Aj, Ax, lump)
        R = sp.csr_array((Ax, Aj, Ap), shape=(n, m)).toarray()
        if not has_dups(c['A']):
            ref, free = ref_filter_diag(D, theta, lump)
            if not filt_equal(R, ref, free, D, whole=True):
                ctx.violation(f'kernel filter_matrix_rows(theta={theta}, lump={lump}): expected {ref.tolist()} got {R.tolist()}', c)
        if not _tie_risk(A, theta, cplx):
            it.ask(f'c19_filterdiag {mode} {enc_rat(theta)} {int(lump)} {comp_line(A, cplx)}',
                   cmp_exact_or_close(Ax, cplx, field=2), Ax.tolist())
    else:
        k = c['k']
        amg_core.truncate_rows_csr(n, k, Ap, Aj, Ax)
        R = sp.csr_array((Ax, Aj, Ap), shape=(n, m)).toarray()
        if not has_dups(c['A']):
            for i in range(n):
                if not trunc_ok(D[i], R[i], A.indices[A.indptr[i]:A.indptr[i + 1]].tolist(), k):
                    ctx.violation(f'kernel truncate_rows_csr(k={k}): row {i} = {D[i].tolist()} became {R[i].tolist()}', c)
                    break
        if not _tie_risk(A, None, cplx):
            it.ask(f'c19_trunc {mode} {k} {comp_line(A, cplx)}', partial(_cmp_trunc_kernel, Aj=Aj.tolist(), Ax=Ax.copy(), cplx=cplx), Ax.tolist())
    return it


# ------------------------------------------------------------------------------------------------
# part H: spectral radius and condition estimates (search only)
# ------------------------------------------------------------------------------------------------

def herm_matrix(rng, t):
    kind = ['random', 'poisson1d', 'poisson2d', 'clustered', 'indefinite', 'negdef', 'rank1', 'diag', 'random', 'pm'][t % 10]
    cplx = bool(rng.random() < 0.3)
    if kind == 'poisson1d':
        n = int(rng.choice([1, 2, 5, 30, 100, 400]))
        M = (sp.diags_array([-np.ones(n - 1), 2 * np.ones(n), -np.ones(n - 1)], offsets=[-1, 0, 1]).toarray() if n > 1 else np.array([[2.0]]))
    elif kind == 'poisson2d':
        k = int(rng.choice([2, 3, 6, 12, 20]))
        T = sp.diags_array([-np.ones(k - 1), 2 * np.ones(k), -np.ones(k - 1)], offsets=[-1, 0, 1])
        M = (sp.kron(sp.eye_array(k), T) + sp.kron(T, sp.eye_array(k))).toarray()
    else:
        n = int(rng.integers(1, 41))
        Q, _ = np.linalg.qr(rng.standard_normal((n, n)) + (1j * rng.standard_normal((n, n)) if cplx else 0))
        if kind == 'clustered':
            lam = np.concatenate([1 + 0.01 * rng.random(n // 2), rng.random(n - n // 2)])
        elif kind == 'indefinite':
            lam = rng.standard_normal(n)
        elif kind == 'negdef':
            lam = -rng.random(n) - 0.1
        elif kind == 'rank1':
            lam = np.zeros(n)
            lam[0] = 3.0
        elif kind == 'diag':
            lam = rng.choice([1.0, 2.0, 3.0, -3.0], size=n)
            Q = np.eye(n)
        elif kind == 'pm':
            lam = rng.choice([1.0, -1.0], size=n) * (1 + 0.001 * rng.random(n))
        else:
            lam = rng.random(n) * rng.choice([1, 10, 1000])
        M = (Q * lam) @ Q.conj().T
        M = (M + M.conj().T) / 2
    if cplx and kind.startswith('poisson'):
        ph = np.exp(2j * np.pi * rng.random(M.shape[0]))
        M = ph[:, None] * M * ph.conj()[None, :]
        M = (M + M.conj().T) / 2
    return M, kind


def part_spectral(ctx, N):
    from pyamg.util import linalg as L
    rng = ctx.np_rng
    for t in range(N):
        M, kind = herm_matrix(rng, t)
        n = M.shape[0]
        rho = float(np.abs(np.linalg.eigvalsh(M)).max())
        fmt = ['csr', 'dense', 'csc', 'csr'][t % 4]
        A = M.copy() if fmt == 'dense' else (sp.csr_array(M) if fmt == 'csr' else sp.csc_array(M))
        opts = {}
        g = t % 6
        if g == 1:
            opts = {'maxiter': int(rng.choice([1, 3, 5, 30])), 'restart': int(rng.choice([0, 1, 5]))}
        elif g == 2:
            opts = {'tol': float(rng.choice([1e-1, 1e-4, 1e-8])), 'maxiter': 15, 'restart': int(rng.choice([5, 10]))}
        elif g == 3:
            v0 = rng.random((n, 1)) + (1j * rng.random((n, 1)) if np.iscomplexobj(M) else 0)
            opts = {'initial_guess': v0}
        elif g == 4:
            opts = {'return_vector': True}
        seed = int(rng.integers(0, 2 ** 31 - 1))
        case = {'op': 'rho', 'kind': kind, 'n': n, 'fmt': fmt, 'seed': seed, 'complex': bool(np.iscomplexobj(M)),
                'M': _encv(M) if n <= 12 else None, 'opts': {k: (v if not isinstance(v, np.ndarray) else _encv(v)) for k, v in opts.items()}}
        ctx.case(key=_key('rho', kind, n, fmt, seed, sorted((k, str(v)) for k, v in case['opts'].items())), nontrivial=n >= 2)
        ctx.feat('op:approximate_spectral_radius')
        ctx.feat('herm:' + kind)
        np.random.seed(seed)
        try:
            with warnings.catch_warnings():
                warnings.simplefilter('ignore')
                r = L.approximate_spectral_radius(A, **opts)
        except Exception as e:
            ctx.violation(f'approximate_spectral_radius({kind}, n={n}, {fmt}, {list(opts)}) raised {type(e).__name__}: {e}', case)
            continue
        if opts.get('return_vector'):
            r = r[0]
        r = float(np.real(r))
        if not np.isfinite(r) and rho > 0:
            ctx.violation(f'approximate_spectral_radius({kind}, n={n}) returned {r}, rho = {rho}', case)
            continue
        if rho > 0:
            ctx.rel_err(max(0.0, r / rho - 1))
        if r > rho * (1 + 1e-10) + 1e-14:
            # relative overshoot up to 1e-2: Gram-Schmidt loses orthogonality when the Krylov space is (numerically)
            # exhausted, the Hessenberg matrix gets complex eigenvalues -- see KNOWN_FINDINGS; larger: anything else
            ctx.violation(f'approximate_spectral_radius({kind}, n={n}, {fmt}, opts={list(opts)}) = {r!r} exceeds the spectral radius {rho!r} '
                          f'(relative overshoot {r / rho - 1:.3e})', case, fkey=FK_RHO if r <= rho * 1.01 else None)
        strong = opts.get('maxiter', 15) >= 15 and opts.get('restart', 5) >= 5 and opts.get('tol', 0.01) <= 0.01
        if strong and r < 0.9 * rho:
            ctx.violation(f'approximate_spectral_radius({kind}, n={n}, {fmt}, opts={list(opts)}) = {r!r} is below 0.9 * {rho!r}', case)
        if sp.issparse(A) and not opts.get('return_vector'):
            np.random.seed(seed + 1)
            r2 = L.approximate_spectral_radius(A, **opts)
            if float(np.real(r2)) > rho * (1 + 1e-10) + 1e-14:
                ctx.violation(f'second call of approximate_spectral_radius exceeds rho: {r2!r} > {rho!r}', case,
                              fkey=FK_RHO if float(np.real(r2)) <= rho * 1.01 else None)


# ------------------------------------------------------------------------------------------------
# part I (E39): the Krylov process of _approximate_eigenvalues vs the Lean model run in binary64
# ------------------------------------------------------------------------------------------------

ARN_TOL_EPS = 200 * np.finfo(float).eps      # times prod_j (1 + ||A||_2 / H[j+1, j]): first-order error growth
ARN_MAX_BOUND = 1e-6                         # beyond that only the shapes and the flag are compared
BREAKDOWN = 1e6 * np.finfo(float).eps        # set_tol(float64)


def _fbits(v):
    from common import float_bits
    return ','.join(str(float_bits(x)) for x in np.asarray(v, dtype=float).ravel())


def _pbits(tok):
    import struct
    if tok == '-':
        return []
    return [np.array([struct.unpack('<d', struct.pack('<Q', int(t)))[0] for t in r.split(',')]) for r in tok.split(';')]


def arn_matrix(rng, t):
    n = int(rng.integers(1, 13))
    kind = ['sym', 'gen', 'sym', 'lowgrade', 'spd', 'gen', 'nilpotent', 'sym'][t % 8]
    M = rng.standard_normal((n, n))
    if kind in ('sym', 'spd'):
        M = (M + M.T) / 2
        if kind == 'spd':
            M = M @ M.T + 0.1 * np.eye(n)
    elif kind == 'lowgrade':          # few distinct eigenvalues: the Krylov space is exhausted early (breakdown path)
        k = int(rng.integers(1, n + 1))
        Q, _ = np.linalg.qr(rng.standard_normal((n, n)))
        lam = np.zeros(n)
        lam[:k] = rng.integers(1, 4, size=k)
        M = (Q * lam) @ Q.T
        M = (M + M.T) / 2
    elif kind == 'nilpotent':
        M = np.triu(M, 1)
    # 2e-10: the norms H[j+1, j] are of the size of the breakdown tolerance 1e6 eps (exercises the test itself)
    M = M * float(rng.choice([1e-3, 1.0, 1.0, 50.0, 1.0, 2e-10]))
    return np.ascontiguousarray(M), kind


class _Recorder:
    """wraps linalg._approximate_eigenvalues: the arguments and results of every call (one per restart cycle)"""

    def __init__(self, L):
        self.L, self.orig, self.calls = L, L._approximate_eigenvalues, []

    def __enter__(self):
        def wrapped(A, maxiter, symmetric=None, initial_guess=None):
            n = A.shape[0]
            if initial_guess is None:       # the code draws np.random.rand(n, 1): read it off the generator state
                st = np.random.get_state()
                v0 = np.random.rand(n, 1)
                np.random.set_state(st)
            else:
                v0 = np.array(initial_guess).copy()
            out = self.orig(A, maxiter, symmetric, initial_guess)
            if np.iscomplexobj(v0) or np.iscomplexobj(out[2]):
                self.calls.append({'complex': True})      # restart vector of a nonsymmetric matrix: outside the real model
                return out
            self.calls.append({'v0': v0.ravel().copy(), 'maxiter': int(maxiter), 'symmetric': bool(symmetric), 'n': n,
                               'H': np.array(out[2], dtype=float), 'V': [np.array(v, dtype=float).ravel() for v in out[3]],
                               'flag': bool(out[4]), 'm': int(len(out[1]))})
            return out
        self.L._approximate_eigenvalues = wrapped
        return self

    def __exit__(self, *a):
        self.L._approximate_eigenvalues = self.orig


def _arn_case(rng, t):
    M, kind = arn_matrix(rng, t)
    n = M.shape[0]
    mode = ['direct', 'rho', 'direct', 'condest', 'direct', 'rho'][t % 6]
    fmt = ['dense', 'csr', 'csc'][(t // 2) % 3]
    c = {'op': 'arnoldi', 'mode': mode, 'kind': kind, 'n': n, 'fmt': fmt, 'M': _encv(M), 'seed': int(rng.integers(0, 2 ** 31 - 1))}
    if t == 0:       # the example of Props/C19.lean: nilpotent matrix, one pass, estimate 12/25 although rho = 0
        c.update(mode='rho', kind='nilpotent', n=2, fmt='dense', M=[0.0, 1.0, 0.0, 0.0], v0=[3.0, 4.0], maxiter=1, restart=0, tol=0.01)
        return c
    if mode == 'direct':
        c['symmetric'] = bool(kind in ('sym', 'spd', 'lowgrade') and rng.random() < 0.6) or bool(rng.random() < 0.08)
        c['maxiter'] = int(rng.choice([1, 2, 3, 5, n, n + 2, 15]))
        c['v0'] = _encv(rng.random(n) + (0 if rng.random() < 0.8 else -0.5))
    elif mode == 'rho':
        c['maxiter'] = int(rng.choice([1, 2, 4, 15]))
        c['restart'] = int(rng.choice([0, 1, 3, 5]))
        c['tol'] = float(rng.choice([1e-1, 1e-2, 1e-6]))
        c['v0'] = _encv(rng.random(n)) if rng.random() < 0.7 else None
    else:
        c['symmetric'] = bool(kind in ('sym', 'spd', 'lowgrade'))
        c['maxiter'] = int(rng.choice([2, n, 25]))
    return c


def _arn_run(c):
    """the real calls of one case: list of recorded _approximate_eigenvalues calls with the dense matrix of the operator"""
    from pyamg.util import linalg as L
    n = c['n']
    M = _decv(c['M']).reshape(n, n)
    A = M.copy() if c['fmt'] == 'dense' else sp.csr_array(M).asformat(c['fmt'])
    v0 = None if c.get('v0') is None else _decv(c['v0']).reshape(n, 1)
    np.random.seed(c['seed'])
    res = None
    with _Recorder(L) as rec, warnings.catch_warnings():
        warnings.simplefilter('ignore')
        if c['mode'] == 'direct':
            L._approximate_eigenvalues(A, c['maxiter'], symmetric=c['symmetric'], initial_guess=v0.copy())
        elif c['mode'] == 'rho':
            res = float(np.real(L.approximate_spectral_radius(A, tol=c['tol'], maxiter=c['maxiter'], restart=c['restart'],
                                                               initial_guess=None if v0 is None else v0.copy())))
        else:
            res = float(np.real(L.condest(A, maxiter=c['maxiter'], symmetric=c['symmetric'])))
    op = M if not (c['mode'] == 'condest' and not c['symmetric']) else M.T @ M
    return rec.calls, op, res


def _arn_compare(call, op, reply):
    """None / 'skip' / text describing the disagreement between the model reply and one recorded call.
    Tolerance: bound_j = 200 eps prod_{i<j} (1 + ||A||_2 / H[i+1, i]) for column j and vector j (times ||A||_2 for
    entries of H); nothing is compared once the bound exceeds 1e-6; the flag is compared unless the last subdiagonal
    entry is within 10 bound ||A|| of the breakdown tolerance."""
    if reply in ('none', 'bad-size', 'bad-op'):
        return f'model answered {reply}'
    f, vs, cols = reply.split(' ')
    vs, cols = _pbits(vs), _pbits(cols)
    H, V, m = call['H'], call['V'], call['m']
    if not np.all(np.isfinite(H)) or m == 0:
        return 'skip'
    nA = max(float(np.linalg.norm(op, 2)), 1e-300)
    hs = [float(H[j + 1, j]) for j in range(m)]
    bounds = [ARN_TOL_EPS]
    for h in hs:
        bounds.append(bounds[-1] * (1 + nA / max(abs(h), 1e-300)))
    # bounds[j]: tolerance for vector j and column j (both are computed from vectors 0 .. j)
    if not bounds[m - 1] <= ARN_MAX_BOUND:
        return 'skip'
    undecided = abs(hs[-1] - BREAKDOWN) <= 10 * bounds[m - 1] * nA
    if len(cols) != m and not undecided:
        return f'{len(cols)} columns in the model, {m} in the code'
    if len(cols) != m:
        return 'skip'
    for j, col in enumerate(cols):
        if len(col) != j + 2:
            return f'column {j} of the model has {len(col)} entries'
        if np.abs(H[:j + 2, j] - col).max() > bounds[j] * nA:
            return f'column {j} of H differs by {np.abs(H[:j + 2, j] - col).max():.3e} (tolerance {bounds[j] * nA:.3e})'
        if np.abs(H[j + 2:, j]).max(initial=0.0) != 0.0:
            return f'column {j} of H of the code has entries below row {j + 1}'
    if undecided:
        return None
    if int(f) != int(call['flag']) or len(vs) != len(V):
        return f'model: flag {f}, {len(vs)} vectors; code: flag {call["flag"]}, {len(V)} vectors'
    first = m + 1 - len(V) if not (call['symmetric'] and call['flag']) else m - len(V)     # index of V[0] in the basis
    for i, (a, b) in enumerate(zip(vs, V)):
        j = first + i
        if j == m and call['flag']:
            # the vector appended at breakdown is normalised round-off: only its norm (1, or 0 when H[m, m-1] == 0) is compared
            # (not when exactly one of the two norms H[m, m-1] is zero: round-off decides that)
            if (hs[-1] == 0.0) == (float(cols[-1][-1]) == 0.0) and abs(np.linalg.norm(a) - np.linalg.norm(b)) > 1e-8:
                return f'the vector appended at breakdown has norm {np.linalg.norm(b)!r} in the code, {np.linalg.norm(a)!r} in the model'
            continue
        if not bounds[j] <= ARN_MAX_BOUND:
            continue
        if np.abs(a - b).max() > bounds[j]:
            return f'vector {j} of the basis differs by {np.abs(a - b).max():.3e} (tolerance {bounds[j]:.3e})'
    return None


def part_arnoldi(ctx, N):
    rng = ctx.np_rng
    cases = [_arn_case(rng, t) for t in range(N)]
    lines, owners = [], []
    for c in cases:
        try:
            calls, op, res = _arn_run(c)
        except Exception as e:
            ctx.case(key=_key('arnoldi', c), nontrivial=c['n'] >= 2)
            ctx.violation(f'{c["mode"]} call of the Krylov process ({c["kind"]}, n={c["n"]}, {c["fmt"]}) raised {type(e).__name__}: {e}', c)
            continue
        for k, call in enumerate(calls):
            if call.get('complex'):
                ctx.feat('arnoldi:complex-restart-vector-not-compared')
                continue
            rows = ';'.join(_fbits(r) for r in op)
            lines.append(f'ext_c19_arnoldi {rows} {_fbits([BREAKDOWN])} {int(call["symmetric"])} {call["maxiter"]} {_fbits(call["v0"])}')
            owners.append((c, k, call, op, res))
    outs = _lean(ctx, lines) if lines else []
    for (c, k, call, op, res), o in zip(owners, outs):
        n = c['n']
        ctx.case(key=_key('arnoldi', c['mode'], c['M'], c.get('v0'), c['seed'], c.get('maxiter'), c.get('restart'), c.get('symmetric'), k),
                 nontrivial=n >= 2 and call['m'] >= 2)
        ctx.feat('op:ext_c19_arnoldi')
        ctx.feat(f'arnoldi:{c["mode"]}:{"lanczos" if call["symmetric"] else "arnoldi"}')
        ctx.feat(f'arnoldi:breakdown={call["flag"]}')
        if k > 0:
            ctx.feat('arnoldi:restart-cycle')
        bad = _arn_compare(call, op, o)
        if bad == 'skip':
            ctx.near_skipped += 1
            ctx.feat('arnoldi:structure-only')
            continue
        if bad is None:
            continue
        ctx.corr('ext_c19_arnoldi', dict(c, cycle=k), o[:300], {'H': call['H'].tolist(), 'flag': call['flag']}, bad)
        # the property on the real code for this input: Hermitian matrix => no Ritz value above the spectral radius
        if np.array_equal(op, op.T) and call['m'] >= 1:
            rho = float(np.abs(np.linalg.eigvalsh(op)).max())
            ev = np.abs(np.linalg.eigvals(call['H'][:call['m'], :call['m']])).max()
            if ev > rho * (1 + 1e-8) + 1e-14:
                ctx.violation(f'_approximate_eigenvalues ({c["mode"]}, n={n}): largest Ritz value {ev!r} exceeds the spectral radius {rho!r}',
                              dict(c, cycle=k), fkey=FK_RHO if ev <= rho * 1.01 else None)


def cond_matrix(rng, t):
    n = int(rng.integers(1, 9))
    cplx = bool(rng.random() < 0.4)
    sym = t % 2 == 0
    for _ in range(50):
        M = rng.standard_normal((n, n)) + (1j * rng.standard_normal((n, n)) if cplx else 0)
        if sym:
            M = (M + M.conj().T) / 2
            if t % 4 == 0:
                M = M @ M.conj().T + 0.1 * np.eye(n)
        else:
            M = M + rng.choice([0, 2, 4]) * np.eye(n)
        kappa = np.linalg.cond(M, 2)
        if kappa < 300:
            if sym:
                lam = np.abs(np.linalg.eigvalsh(M))
                gaps = np.diff(np.sort(lam))
                if n > 1 and gaps.min() < 1e-3 * lam.max():
                    continue
            return M, float(kappa), sym, cplx
    return np.eye(n) * 2.0, 1.0, True, False


def part_cond(ctx, N):
    from pyamg.util import linalg as L
    rng = ctx.np_rng
    for t in range(N):
        M, kappa, sym, cplx = cond_matrix(rng, t)
        n = M.shape[0]
        use_sym = sym and (t % 3 != 2)        # Hermitian matrices may also go through the general path
        fmt = ['dense', 'csr', 'csc'][t % 3]
        A = M.copy() if fmt == 'dense' else (sp.csr_array(M) if fmt == 'csr' else sp.csc_array(M))
        seed = int(rng.integers(0, 2 ** 31 - 1))
        maxiter = int(rng.choice([25, n, n + 3]))
        case = {'op': 'condest', 'n': n, 'complex': cplx, 'hermitian': sym, 'symmetric_flag': use_sym, 'fmt': fmt, 'seed': seed,
                'maxiter': maxiter, 'M': _encv(M)}
        ctx.case(key=_key('condest', _encv(M), use_sym, fmt, seed, maxiter), nontrivial=n >= 2)
        ctx.feat('op:condest')
        ctx.feat(f'condest:symmetric={use_sym}:{"complex" if cplx else "real"}')
        np.random.seed(seed)
        try:
            with warnings.catch_warnings():
                warnings.simplefilter('ignore')
                ce = float(np.real(L.condest(A, maxiter=maxiter, symmetric=use_sym)))
                cc = float(np.real(L.cond(A)))
        except Exception as e:
            ctx.violation(f'condest/cond(n={n}, {fmt}, symmetric={use_sym}) raised {type(e).__name__}: {e}', case)
            continue
        ctx.rel_err(abs(ce - kappa) / kappa)
        if not (abs(ce - kappa) <= 1e-6 * kappa):
            ctx.violation(f'condest(n={n}, {"complex" if cplx else "real"} {"Hermitian" if sym else "general"}, symmetric={use_sym}, maxiter={maxiter}) = {ce!r}, '
                          f'2-norm condition number = {kappa!r}', case)
        if not (abs(cc - kappa) <= 1e-10 * kappa):
            ctx.violation(f'cond(n={n}, {fmt}) = {cc!r}, 2-norm condition number = {kappa!r}', case)


# ------------------------------------------------------------------------------------------------
# part II (E52): complex Krylov process, restart loop of approximate_spectral_radius, condest, cond
#                vs Model/ExtC19TCx.lean run in binary64 pairs (ops ext_c19t_*)
# ------------------------------------------------------------------------------------------------

EIG_RES = 1e-10          # accepted residual of a LAPACK eigenpair of the small H, relative to ||A||_2


def _cbits(v):
    from common import float_bits
    z = np.asarray(v, dtype=complex).ravel()
    return ','.join(f'{float_bits(x.real)},{float_bits(x.imag)}' for x in z) if z.size else '-'


def _cmat(M):
    M = np.asarray(M, dtype=complex)
    return ';'.join(_cbits(r) for r in M) if M.size else '-'


def _pcvec(tok):
    import struct
    if tok == '-':
        return np.zeros(0, dtype=complex)
    f = np.array([struct.unpack('<d', struct.pack('<Q', int(t)))[0] for t in tok.split(',')])
    return f[0::2] + 1j * f[1::2]


def _pcmat(tok):
    return [] if tok == '-' else [_pcvec(r) for r in tok.split(';')]


def _pfloat(tok):
    import struct
    return struct.unpack('<d', struct.pack('<Q', int(tok)))[0]


class _Recorder2:
    """wraps linalg._approximate_eigenvalues: arguments and results (incl. the LAPACK eigenpairs of H) of every call,
    real or complex"""

    def __init__(self, L):
        self.L, self.orig, self.calls = L, L._approximate_eigenvalues, []

    def __enter__(self):
        from scipy.sparse.linalg import aslinearoperator

        def wrapped(A, maxiter, symmetric=None, initial_guess=None):
            n = A.shape[0]
            if initial_guess is None:       # the code draws rand(n, 1) (+ 1j rand(n, 1) for complex A): read it off the generator
                st = np.random.get_state()
                v0 = np.random.rand(n, 1)
                if aslinearoperator(A).dtype == complex:
                    v0 = v0 + 1.0j * np.random.rand(n, 1)
                np.random.set_state(st)
            else:
                v0 = np.array(initial_guess).copy()
            out = self.orig(A, maxiter, symmetric, initial_guess)
            self.calls.append({'v0': np.asarray(v0).ravel().copy(), 'maxiter': int(maxiter), 'symmetric': bool(symmetric), 'n': n,
                               'H': np.array(out[2], dtype=complex), 'V': [np.array(v, dtype=complex).ravel() for v in out[3]],
                               'flag': bool(out[4]), 'm': int(len(out[1])), 'ev': np.array(out[1], dtype=complex),
                               'evect': np.array(out[0], dtype=complex)})
            return out
        self.L._approximate_eigenvalues = wrapped
        return self

    def __exit__(self, *a):
        self.L._approximate_eigenvalues = self.orig


def carn_matrix(rng, t):
    n = int(rng.integers(1, 11))
    kind = ['herm', 'cgen', 'realsym', 'lowgrade', 'hpd', 'realgen', 'herm', 'cgen', 'realsym', 'skew'][t % 10]
    cplx = kind in ('herm', 'cgen', 'lowgrade', 'hpd', 'skew')
    M = rng.standard_normal((n, n)) + (1j * rng.standard_normal((n, n)) if cplx else 0)
    if kind in ('herm', 'hpd', 'realsym'):
        M = (M + M.conj().T) / 2
        if kind == 'hpd':
            M = M @ M.conj().T + 0.1 * np.eye(n)
    elif kind == 'lowgrade':
        k = int(rng.integers(1, n + 1))
        Q, _ = np.linalg.qr(M)
        lam = np.zeros(n)
        lam[:k] = rng.integers(1, 4, size=k) * rng.choice([1, -1], size=k)
        M = (Q * lam) @ Q.conj().T
        M = (M + M.conj().T) / 2
    elif kind == 'skew':             # i * Hermitian: normal, purely imaginary spectrum, not Hermitian
        M = 1j * (M + M.conj().T) / 2
    M = M * float(rng.choice([1e-3, 1.0, 1.0, 50.0, 1.0, 2e-10]))
    return np.ascontiguousarray(M), kind


def _e52_case(rng, t):
    M, kind = carn_matrix(rng, t)
    n = M.shape[0]
    herm = kind in ('herm', 'hpd', 'realsym', 'lowgrade')
    mode = ['asr', 'carn', 'condest', 'asr', 'cond', 'asr', 'carn', 'condest'][t % 8]
    fmt = ['dense', 'csr', 'csc'][(t // 3) % 3]
    c = {'op': 'e52', 'mode': mode, 'kind': kind, 'n': n, 'fmt': fmt, 'M': _encv(M), 'complex': bool(np.iscomplexobj(M)),
         'herm': herm, 'seed': int(rng.integers(0, 2 ** 31 - 1))}

    def guess():
        g = rng.random(n) + (0 if rng.random() < 0.7 else -0.5)
        if rng.random() < (0.7 if c['complex'] else 0.25):       # a complex guess for a real matrix is cast to real by the code
            g = g + 1j * (rng.random(n) - 0.3)
        return _encv(g * float(rng.choice([1.0, 1.0, 7.0, 1e-3])))

    if mode == 'carn':
        c['symmetric'] = bool(herm and rng.random() < 0.5)
        c['maxiter'] = int(rng.choice([1, 2, 3, 5, n, n + 2, 15]))
        c['v0'] = guess()
    elif mode == 'asr':
        c['maxiter'] = int(rng.choice([1, 2, 3, 4, 15]))
        c['restart'] = int(rng.choice([0, 1, 2, 3, 5]))
        c['tol'] = float(rng.choice([1e-1, 1e-2, 1e-4, 1e-8]))
        c['v0'] = guess() if rng.random() < 0.75 else None
        c['return_vector'] = bool(rng.random() < 0.5)
        r = rng.random()
        if r < 0.04:
            c['maxiter'] = int(rng.choice([0, -1]))
        elif r < 0.08:
            c['restart'] = -int(rng.integers(1, 3))
        elif r < 0.12:
            c['v0'] = _encv(rng.random(n + int(rng.choice([1, 2])) if rng.random() < 0.7 or n == 1 else n - 1))
    elif mode == 'condest':
        c['symmetric'] = bool(herm and rng.random() < 0.5)
        c['maxiter'] = int(rng.choice([1, 2, n, 25]))
    return c


def _e52_mat(c):
    n = c['n']
    M = _decv(c['M'], c['complex']).reshape(n, n)
    if not c['complex']:
        M = np.array(M.real, dtype=float)
    A = M.copy() if c['fmt'] == 'dense' else sp.csr_array(M).asformat(c['fmt'])
    return M, A


def _e52_run(c):
    """the real calls of one case -> (recorded calls, dense operator of the Krylov process, result or exception name)"""
    from pyamg.util import linalg as L
    n = c['n']
    M, A = _e52_mat(c)
    v0 = None if c.get('v0') is None else _decv(c['v0'])
    np.random.seed(c['seed'])
    res = None
    with _Recorder2(L) as rec, warnings.catch_warnings():
        warnings.simplefilter('ignore')
        try:
            if c['mode'] == 'carn':
                g = np.array(v0.reshape(-1, 1), dtype=np.result_type(v0.dtype, M.dtype))
                L._approximate_eigenvalues(A, c['maxiter'], symmetric=c['symmetric'], initial_guess=g)
            elif c['mode'] == 'asr':
                res = L.approximate_spectral_radius(A, tol=c['tol'], maxiter=c['maxiter'], restart=c['restart'],
                                                    initial_guess=None if v0 is None else v0.copy(),
                                                    return_vector=c['return_vector'])
            elif c['mode'] == 'condest':
                res = L.condest(A, maxiter=c['maxiter'], symmetric=c['symmetric'])
            else:
                res = L.cond(A)
        except ValueError as e:
            res = {'raised': 'ValueError', 'msg': str(e)}
    op = M.conj().T @ M if (c['mode'] == 'condest' and not c['symmetric']) else M
    return rec.calls, op, res


def _growth(call, nA):
    """error amplification of one Krylov process: prod_j (1 + ||A|| / H[j+1, j]) per column"""
    g = [1.0]
    for j in range(call['m']):
        g.append(g[-1] * (1 + nA / max(abs(call['H'][j + 1, j]), 1e-300)))
    return g


def _carn_compare(call, nA, start_bound, flag, vs, cols):
    """None / 'skip' / text: one recorded call vs (flag, V, H columns) of the model; start_bound = error of the start vector"""
    H, V, m = call['H'], call['V'], call['m']
    if not np.all(np.isfinite(H)) or m == 0:
        return 'skip:nonfinite'
    g = _growth(call, nA)
    bounds = [start_bound * x for x in g]
    if not bounds[m - 1] <= ARN_MAX_BOUND:
        return 'skip:bound'
    hs = [float(abs(H[j + 1, j])) for j in range(m)]
    undecided = abs(hs[-1] - BREAKDOWN) <= 10 * bounds[m - 1] * nA
    if len(cols) != m:
        return 'skip:undecided-cols' if undecided else f'{len(cols)} columns in the model, {m} in the code'
    for j, col in enumerate(cols):
        if len(col) != j + 2:
            return f'column {j} of the model has {len(col)} entries'
        if np.abs(H[:j + 2, j] - col).max() > bounds[j] * nA:
            return f'column {j} of H differs by {np.abs(H[:j + 2, j] - col).max():.3e} (tolerance {bounds[j] * nA:.3e})'
        if np.abs(H[j + 2:, j]).max(initial=0.0) != 0.0:
            return f'column {j} of H of the code has entries below row {j + 1}'
    if undecided or vs is None:
        return None
    if int(flag) != int(call['flag']) or len(vs) != len(V):
        return f'model: flag {flag}, {len(vs)} vectors; code: flag {call["flag"]}, {len(V)} vectors'
    first = m + 1 - len(V) if not (call['symmetric'] and call['flag']) else m - len(V)
    for i, (a, b) in enumerate(zip(vs, V)):
        j = first + i
        if j == m and call['flag']:
            if (hs[-1] == 0.0) == (abs(cols[-1][-1]) == 0.0) and abs(np.linalg.norm(a) - np.linalg.norm(b)) > 1e-8:
                return f'the vector appended at breakdown has norm {np.linalg.norm(b)!r} in the code, {np.linalg.norm(a)!r} in the model'
            continue
        if not bounds[j] <= ARN_MAX_BOUND:
            continue
        if np.abs(a - b).max() > bounds[j]:
            return f'vector {j} of the basis differs by {np.abs(a - b).max():.3e} (tolerance {bounds[j]:.3e})'
    return None


def _near_breakdown(calls):
    """some recorded pass has a sub-diagonal entry H[j+1,j] within a factor 1e4 of the absolute breakdown threshold
    (2.2e-10): whether that pass stops there is decided by rounding, so the model (also binary64, but with its own
    summation order) may make a different number of steps than the code"""
    for cl in calls:
        if cl.get('complex') is True and 'H' not in cl:
            continue
        H = np.asarray(cl['H'])
        for j in range(min(H.shape[0] - 1, H.shape[1])):
            h = abs(H[j + 1, j])
            if 2.2e-14 <= h <= 2.2e-6:
                return True
    return False


def _eig_quality(call, nA):
    """largest residual |H y - theta y| / |y| of the recorded LAPACK eigenpairs"""
    m = call['m']
    Hm = call['H'][:m, :m]
    r = 0.0
    for k in range(m):
        y = call['evect'][:, k]
        r = max(r, float(np.linalg.norm(Hm @ y - call['ev'][k] * y) / max(np.linalg.norm(y), 1e-300)))
    return r


def _oracle(call):
    """eigenvalues and eigenvectors of one pass; when the two largest moduli tie to 1e-12 (complex-conjugate pairs:
    NumPy's vectorised abs may differ in the last bit between the two) the max_index of the run is passed as a hint,
    which the model accepts only if it is a maximiser up to the tie tolerance"""
    m = call['m']
    aev = np.abs(call['ev'])
    mi = int(aev.argmax())
    tie = m >= 2 and np.isfinite(aev).all() and np.sort(aev)[-2] >= aev[mi] * (1 - 1e-12)
    return (f'{mi}@' if tie else '') + ';'.join([_cbits(call['ev'])] + [_cbits(call['evect'][:, k]) for k in range(m)])


def _e52_line(c, calls, op):
    """protocol line of one case (None: nothing to ask) and the tolerance data"""
    nA = max(float(np.linalg.norm(op, 2)), 1e-300) if op.size else 1.0
    M, _ = _e52_mat(c)
    btol = _cbits([BREAKDOWN])
    if c['mode'] == 'carn':
        cl = calls[0]
        return f'ext_c19t_arnoldi {_cmat(op)} {btol} {int(cl["symmetric"])} {cl["maxiter"]} {_cbits(cl["v0"])}', {'nA': nA}
    if c['mode'] == 'asr':
        g = 1.0
        for cl in calls:
            g *= _growth(cl, nA)[-2] if cl['m'] else 1.0
        bound = ARN_TOL_EPS * g
        vt = (10 * min(bound, 1.0) + 10 * EIG_RES) * nA
        guess = c.get('v0')
        if guess is None:          # the code draws the guess itself: the first recorded start vector is that draw
            gv = calls[0]['v0'] if calls else np.zeros(c['n'])
        else:
            gv = _decv(guess)
        orc = '|'.join(_oracle(cl) for cl in calls) if calls else '-'
        line = (f'ext_c19t_asr {_cmat(M)} {btol} {_cbits([c["tol"]])} {_cbits([vt * vt])} {_cbits([1e-11 * nA])} {c["maxiter"]} {c["restart"]} '
                f'{0 if c["complex"] else 1} {_cbits(gv)} {orc}')
        return line, {'nA': nA, 'bound': bound}
    if c['mode'] == 'condest':
        cl = calls[0]
        bound = ARN_TOL_EPS * (_growth(cl, nA)[-2] if cl['m'] else 1.0)
        vt = (10 * min(bound, 1.0) + 10 * EIG_RES) * nA
        evect = ';'.join(_cbits(cl['evect'][:, k]) for k in range(cl['m']))
        line = (f'ext_c19t_condest {_cmat(M)} {btol} {_cbits([vt * vt])} {int(c["symmetric"])} {cl["maxiter"]} {_cbits(cl["v0"])} '
                f'{_cbits(cl["ev"])} {evect}')
        return line, {'nA': nA, 'bound': bound}
    # cond: singular triples from the same LAPACK driver the code calls
    from scipy.linalg import svd
    U, S, Vh = svd(M)
    V = Vh.conj().T
    n = c['n']
    tol = 1e-11 * n * (1 + nA)
    line = (f'ext_c19t_cond {_cmat(M)} {_cmat(U.T)} {_cmat(V.T)} {_cbits(S)} {_cbits([tol * tol])}')
    return line, {'nA': nA, 'S': S}


def _e52_judge(ctx, c, calls, op, res, info, reply):
    """compare the model reply with the real run; returns None / 'skip' / text"""
    nA = info['nA']
    mode = c['mode']
    if mode == 'carn':
        if reply in ('none', 'bad-size', 'bad-op'):
            return f'model answered {reply}'
        f, vs, cols = reply.split(' ')
        return _carn_compare(calls[0], nA, ARN_TOL_EPS, f, _pcmat(vs), _pcmat(cols))
    if mode == 'asr':
        raised = isinstance(res, dict)
        if reply.startswith('err'):
            why = reply[4:]
            if why.startswith('expected') or why.startswith('initial_guess'):
                return None if raised else f'model rejects the arguments ({why}), the code returned {res!r}'
            if raised:
                return f'model: {why}; code raised {res["msg"]}'
            if why == 'oracle-residual' and (not info['bound'] <= ARN_MAX_BOUND or max(_eig_quality(cl, nA) for cl in calls) > EIG_RES * nA):
                return 'skip:oracle'
            if why == 'oracle-shape' and _near_breakdown(calls):
                return 'skip:und-breakdown'
            return f'model refused: {why}'
        if raised:
            return f'code raised ValueError({res["msg"]}), model returned a value'
        if not info['bound'] <= ARN_MAX_BOUND or any(not np.all(np.isfinite(cl['H'])) for cl in calls):
            return 'skip:bound'
        toks = reply.split(' ')
        rho_m, cyc = _pfloat(toks[1]), toks[2:]
        bound = ARN_TOL_EPS
        und = False
        for k, cl in enumerate(calls):
            if k >= len(cyc):
                return 'skip:und-passes' if und else f'the model made {len(cyc)} passes, the code {len(calls)}'
            fl, idx, th, er, cv, nx, cols = cyc[k].split('/')
            bad = _carn_compare(cl, nA, bound, fl, None, _pcmat(cols))
            if bad:
                return bad if bad.startswith('skip') else f'pass {k}: {bad}'
            g = _growth(cl, nA)
            bound = bound * g[-2]
            m = cl['m']
            aev = np.abs(cl['ev'])
            mi = int(aev.argmax())
            if int(idx) != mi:
                if abs(aev[int(idx)] - aev[mi]) <= 1e-12 * aev[mi]:
                    return 'skip:tie'
                return f'pass {k}: max_index {idx} in the model, {mi} in the code'
            th, er = _pcvec(th)[0], _pcvec(er)[0]
            err_c = cl['H'][m, m - 1] * cl['evect'][-1, mi]
            if abs(th - cl['ev'][mi]) > 0 or abs(er - err_c) > bound * nA * 10:
                return f'pass {k}: theta / error {th!r} / {er!r} in the model, {cl["ev"][mi]!r} / {err_c!r} in the code'
            nxt = calls[k + 1]['v0'] if k + 1 < len(calls) else (np.asarray(res[1]).ravel() if c['return_vector'] else None)
            if nxt is not None and np.abs(_pcvec(nx) - nxt).max() > 10 * bound * max(1.0, float(np.abs(nxt).max())):
                return f'pass {k}: restart vector differs by {np.abs(_pcvec(nx) - nxt).max():.3e} (tolerance {10 * bound:.3e})'
            ratio = abs(err_c) / abs(cl['ev'][mi]) if abs(cl['ev'][mi]) > 0 else np.inf
            near = np.isfinite(ratio) and abs(ratio - c['tol']) <= 100 * bound * max(1.0, nA / max(abs(cl['ev'][mi]), 1e-300))
            hm = abs(cl['H'][m, m - 1])
            near = near or abs(hm - BREAKDOWN) <= 10 * bound * nA
            stop_c = (k + 1 == len(calls))
            stop_m = (cv == '1' or fl == '1') or k + 1 == c['restart'] + 1
            if near:
                und = True
            if stop_c != (k + 1 == len(cyc)) and not und:
                return f'pass {k}: the code {"stops" if stop_c else "goes on"}, the model {"stops" if stop_m else "goes on"} (converged {cv}, flag {fl})'
            if und and stop_c != (k + 1 == len(cyc)):
                return 'skip:und-stop'
        if len(cyc) != len(calls):
            return 'skip:und-passes' if und else f'the model made {len(cyc)} passes, the code {len(calls)}'
        r = float(np.real(res[0] if c['return_vector'] else res))
        if abs(r - rho_m) > 1e-12 * max(abs(r), 1e-300):
            return f'returned value {r!r}, model {rho_m!r}'
        return None
    if mode == 'condest':
        if reply.startswith('err'):
            if reply[4:] == 'oracle-residual' and (not info['bound'] <= ARN_MAX_BOUND or _eig_quality(calls[0], nA) > EIG_RES * nA):
                return 'skip:oracle'
            if reply[4:] == 'oracle-shape' and _near_breakdown(calls):
                return 'skip:und-breakdown'
            return f'model refused: {reply[4:]}'
        toks = reply.split(' ')
        est, mx, mn, fl, cols = _pfloat(toks[1]), _pfloat(toks[2]), _pfloat(toks[3]), toks[4], _pcmat(toks[5])
        bad = _carn_compare(calls[0], nA, ARN_TOL_EPS, fl, None, cols)
        if bad:
            return bad
        r = float(np.real(res))
        if not np.isfinite(r) and not np.isfinite(est):
            return None
        if abs(r - est) > 1e-12 * max(abs(r), 1e-300):
            return f'condest returned {r!r}, model {est!r} (max {mx!r}, min {mn!r})'
        return None
    # cond
    r = float(np.real(res))
    if reply.startswith('err'):
        if info['S'].min() <= 1e-8 * max(info['S'].max(), 1e-300):
            return 'skip:singular'
        return f'model refused the singular triples of LAPACK: {reply}'
    cm = _pfloat(reply.split(' ')[1])
    if not np.isfinite(r) and not np.isfinite(cm):
        return None
    if abs(r - cm) > 1e-12 * max(abs(r), 1e-300):
        return f'cond returned {r!r}, max/min of the verified singular values {cm!r}'
    return None


def _e52_property(ctx, c, calls, op, res):
    """the property on the real code for this input, independent of the model (called when the correspondence broke)"""
    M, _ = _e52_mat(c)
    mode = c['mode']
    if isinstance(res, dict):
        bad_args = (c['mode'] == 'asr' and (c['maxiter'] < 1 or c['restart'] < 0 or (c.get('v0') is not None and len(c['v0']) != c['n'])))
        if not bad_args:
            ctx.violation(f'{mode} raised {res["raised"]}: {res["msg"]} on valid arguments (n={c["n"]}, {c["kind"]})', c)
        return
    if mode in ('carn', 'asr') and c['herm']:
        rho = float(np.abs(np.linalg.eigvalsh(M)).max())
        for k, cl in enumerate(calls):
            if cl['m'] and np.all(np.isfinite(cl['ev'])):
                ev = float(np.abs(cl['ev']).max())
                if ev > rho * (1 + 1e-8) + 1e-14:
                    ctx.violation(f'_approximate_eigenvalues ({mode}, {c["kind"]}, n={c["n"]}): largest Ritz value {ev!r} exceeds the spectral '
                                  f'radius {rho!r}', dict(c, cycle=k), fkey=FK_RHO if ev <= rho * 1.01 else None)
        if mode == 'asr':
            r = float(np.real(res[0] if c['return_vector'] else res))
            if r > rho * (1 + 1e-8) + 1e-14:
                ctx.violation(f'approximate_spectral_radius({c["kind"]}, n={c["n"]}) = {r!r} exceeds the spectral radius {rho!r}', c,
                              fkey=FK_RHO if r <= rho * 1.01 else None)
    if mode in ('condest', 'cond'):
        kappa = float(np.linalg.cond(M, 2))
        r = float(np.real(res))
        if np.isfinite(kappa) and kappa < 1e8:
            if mode == 'cond' and not abs(r - kappa) <= 1e-8 * kappa:
                ctx.violation(f'cond(n={c["n"]}, {c["kind"]}) = {r!r}, 2-norm condition number {kappa!r}', c)
            if mode == 'condest' and not c['symmetric'] and r > kappa * (1 + 1e-6):
                ctx.violation(f'condest(n={c["n"]}, {c["kind"]}, maxiter={c["maxiter"]}) = {r!r} exceeds the 2-norm condition number {kappa!r}', c)


def part_e52(ctx, N):
    rng = ctx.np_rng
    cases = [_e52_case(rng, t) for t in range(N)]
    lines, owners = [], []
    for c in cases:
        try:
            calls, op, res = _e52_run(c)
        except Exception as e:
            ctx.case(key=_key('e52', c), nontrivial=c['n'] >= 2)
            ctx.violation(f'{c["mode"]} ({c["kind"]}, n={c["n"]}, {c["fmt"]}) raised {type(e).__name__}: {e}', c)
            continue
        if c['mode'] in ('carn', 'condest') and not calls:
            continue
        line, info = _e52_line(c, calls, op)
        lines.append(line)
        owners.append((c, calls, op, res, info))
    outs = _lean(ctx, lines) if lines else []
    for (c, calls, op, res, info), o in zip(owners, outs):
        n = c['n']
        ctx.case(key=_key('e52', c['mode'], c['M'], c.get('v0'), c['seed'], c.get('maxiter'), c.get('restart'), c.get('symmetric'),
                          c.get('tol'), c['fmt']), nontrivial=n >= 2)
        ctx.feat('op:' + {'carn': 'ext_c19t_arnoldi', 'asr': 'ext_c19t_asr', 'condest': 'ext_c19t_condest', 'cond': 'ext_c19t_cond'}[c['mode']])
        ctx.feat(f'e52:{c["mode"]}:{c["kind"]}')
        if c['mode'] == 'asr':
            ctx.feat(f'e52:asr:passes={len(calls)}')
            if isinstance(res, dict):
                ctx.feat('e52:asr:rejected-arguments')
            if any(np.abs(cl['v0'].imag).max(initial=0.0) > 0 for cl in calls[1:]) and not c['complex']:
                ctx.feat('e52:asr:complex-restart-vector-of-real-matrix')
        bad = _e52_judge(ctx, c, calls, op, res, info, o)
        if bad is not None and bad.startswith('skip'):
            ctx.near_skipped += 1
            ctx.feat(f'e52:structure-only:{c["mode"]}:{bad[5:]}')
            continue
        if bad is None:
            continue
        ctx.corr({'carn': 'ext_c19t_arnoldi', 'asr': 'ext_c19t_asr', 'condest': 'ext_c19t_condest', 'cond': 'ext_c19t_cond'}[c['mode']],
                 c, o[:300], {'result': repr(res)[:200], 'passes': len(calls)}, bad)
        _e52_property(ctx, c, calls, op, res)


# ------------------------------------------------------------------------------------------------
# part J (search only): the same statements far away from unit scale and on every stored BSR block shape.
#   * every utility is homogeneous in its data, so the input (matrix, scaling vector, candidates, targets; single
#     diagonal blocks) is multiplied by 2^-20 .. 2^-80 or 1e-5 .. 1e-12 and every statement is judged RELATIVE to the
#     data's own magnitude (no absolute floor in any tolerance; 1 x 1 pseudo-inverses are 1/a exactly)
#   * BSR input with stored blocks (R, C) in {1..4} x {1..4}, square or not, equal to the requested block size or not
#     (a square matrix stored with rectangular blocks is a perfectly valid BSR matrix)
# oracle: dense NumPy formulas (numpy.linalg.pinv / inv are scale-relative); no Lean model is asked
# ------------------------------------------------------------------------------------------------

W_SCALES = [2.0 ** -20, 2.0 ** -40, 2.0 ** -60, 2.0 ** -80, 1e-5, 1e-6, 1e-8, 1e-10, 1e-12]
W_FACT = [1.0, 1.0, 0.75, 0.1, 3.3]


def _wscale(rng, p_one=0.2):
    return 1.0 if rng.random() < p_one else float(W_SCALES[int(rng.integers(0, len(W_SCALES)))])


def _dyadic(s):
    return float(np.frexp(s)[0]) == 0.5


def _scaled_spec(spec, s):
    out = dict(spec)
    out['data'] = [[a * s, b * s] for a, b in spec['data']] if (spec['data'] and isinstance(spec['data'][0], list)) \
        else [x * s for x in spec['data']]
    return out


def rclose(a, b, tol, ref=None):
    """max |a - b| <= tol * max |b| (or tol * ref): relative to the data's own scale, no absolute floor"""
    a, b = np.asarray(a), np.asarray(b)
    if a.shape != b.shape:
        return False
    if a.size == 0:
        return True
    if not (np.isfinite(a).all() and np.isfinite(b).all()):
        return False
    sc = float(np.abs(b).max()) if ref is None else float(ref)
    return bool(np.abs(a - b).max() <= tol * sc)


def rclose_each(a, b, tol):
    """|a_i - b_i| <= tol |b_i| for every entry"""
    a, b = np.asarray(a), np.asarray(b)
    if a.shape != b.shape:
        return False
    if not (np.isfinite(a).all() and np.isfinite(b).all()):
        return False
    return bool((np.abs(a - b) <= tol * np.abs(b)).all())


def _wmat(rng, t, *, square=False, fmts=('csr', 'csc', 'bsr', 'coo'), cplx=None, diag=None, real_fmts=(), nmax=8, noncontig_unsorted_ok=False):
    """random matrix in the given storage; BSR with every block shape (R, C) in {1..4}^2 -- also for square matrices"""
    from math import lcm
    fmt = fmts[t % len(fmts)]
    cplx = bool(rng.random() < 0.3) if cplx is None else cplx
    if fmt in real_fmts:
        cplx = False
    feats = {fmt, 'complex' if cplx else 'real'}
    n = int(rng.integers(1, nmax + 1))
    m = n if square else int(rng.integers(1, nmax + 1))
    bs = None
    if fmt == 'bsr':
        R, C = int(rng.integers(1, 5)), int(rng.integers(1, 5))
        if square:
            n = m = lcm(R, C) * int(rng.integers(1, 3))
        else:
            n, m = R * int(rng.integers(1, 4)), C * int(rng.integers(1, 4))
        bs = (R, C)
        feats.add(f'bs{R}x{C}')
        if n == m and R != C:
            feats.add('square_matrix_rectangular_blocks')
    dg = diag(rng, max(n, m), cplx) if diag is not None else None
    D = rand_dense(rng, n, m, cplx, diag=dg)
    unsorted = bool(rng.random() < 0.3)
    dup = fmt == 'coo' and bool(rng.random() < 0.5)         # duplicates only where the storage format defines them as a sum
    zeros = fmt != 'bsr' and bool(rng.random() < 0.2)
    # unsorted BSR indices over non-contiguous block data: SciPy's bsr sort_indices() permutes the indices but not the data
    # (listed finding of get_diagonal, which sorts its argument in place: generated there and for the scaling routines, which never sort)
    noncontig = fmt == 'bsr' and bool(rng.random() < 0.2) and (noncontig_unsorted_ok or not unsorted)
    spec = compress(rng, D, fmt, unsorted=unsorted, dup=dup, zeros=zeros, bs=bs, noncontig=noncontig)
    for nm, f in (('unsorted', unsorted), ('duplicates', dup), ('explicit_zeros', zeros), ('noncontiguous_data', noncontig)):
        if f:
            feats.add(nm)
    return spec, D, feats


def _wfeat(*scales):
    return {'scaled_input' if any(s != 1.0 for s in scales) else 'unit_scale'} | \
           {('scale:2^k' if _dyadic(s) else 'scale:10^k') for s in scales if s != 1.0}


# ---- generators ----

def _gw_scale(rng, t):
    spec, D, feats = _wmat(rng, t, real_fmts=('csc',), noncontig_unsorted_ok=True)
    sA, sv = _wscale(rng), _wscale(rng)
    which = 'rows' if (t // 4) % 2 == 0 else 'cols'
    k = D.shape[0] if which == 'rows' else D.shape[1]
    vc = bool(rng.random() < 0.3) and spec['complex']
    v = rng.choice(SCAL, size=k).astype(complex if vc else float)
    if vc:
        v = v + 1j * rng.choice(SCAL[:6], size=k)
    v = v * sv * float(rng.choice(W_FACT))
    copy = bool(rng.random() < 0.5)
    c = {'op': 'wide', 'sub': 'scale', 'A': _scaled_spec(spec, sA), 'which': which, 'v': _encv(v), 'copy': copy, 'scales': [sA, sv],
         'vshape': str(rng.choice(['flat', 'column']))}
    return c, feats | _wfeat(sA, sv) | {which}


def _gw_diag(rng, t):
    spec, D, feats = _wmat(rng, t, square=bool(rng.random() < 0.8), diag=_diag_gen, noncontig_unsorted_ok=True)
    s = _wscale(rng)
    spec = _scaled_spec(spec, s)
    if rng.random() < 0.15:
        A = build(spec)
        spec = {'fmt': 'dense', 'shape': list(A.shape), 'complex': spec['complex'], 'data': _encv(A.toarray())}
        feats = {'dense', 'complex' if spec['complex'] else 'real'}
    c = {'op': 'wide', 'sub': 'diag', 'A': spec, 'norm_eq': [0, 1, 2, False, True][int(rng.integers(0, 5))], 'inv': bool(rng.random() < 0.6),
         'scales': [s]}
    return c, feats | _wfeat(s) | {f'norm_eq={int(c["norm_eq"])}', f'inv={c["inv"]}'}


def _gw_symresc(rng, t):
    spec, D, feats = _wmat(rng, t, square=True, diag=_sq_diag, real_fmts=('csc',))
    s = _wscale(rng)
    copy = bool(rng.random() < 0.6)
    return {'op': 'wide', 'sub': 'symresc', 'A': _scaled_spec(spec, s), 'copy': copy, 'scales': [s]}, feats | _wfeat(s) | {f'copy={copy}'}


def _gw_filter(rng, t):
    kind = ['rows', 'cols', 'diag', 'lump', 'trunc'][t % 5]
    # the in-place diagonal rule is only defined for CSR / BSR (listed finding for the other formats)
    fmts = ('csr', 'bsr') if kind in ('diag', 'lump') else ('csr', 'csc', 'bsr', 'coo')
    spec, D, feats = _wmat(rng, t // 5, square=bool(rng.random() < 0.4), fmts=fmts)
    s = _wscale(rng)
    c = {'op': 'wide', 'sub': 'filter', 'kind': kind, 'A': _scaled_spec(spec, s), 'scales': [s]}
    if kind == 'trunc':
        c['k'] = int(rng.integers(0, 5))
    else:
        c['theta'] = float(rng.choice(THETAS))
    return c, feats | _wfeat(s) | {'filter:' + kind}


def _gw_block(rng, t):
    from math import lcm
    bs = int(rng.choice([1, 2, 3, 4, 2, 3, 4, 1, 5, 6, 7, 8]))
    fmt = ['bsr', 'csr', 'bsr', 'csc', 'bsr', 'coo'][t % 6]
    R = C = 1
    base = bs
    if fmt == 'bsr':
        for _ in range(60):
            R, C = int(rng.integers(1, 5)), int(rng.integers(1, 5))
            u = rng.random()
            if bs <= 4 and u < 0.25:
                R = bs                 # only one of the two stored block dimensions equals the requested size
            elif bs <= 4 and u < 0.5:
                C = bs
            base = lcm(bs, R, C)
            if base <= 24:
                break
        else:
            R, C, base = bs, bs, bs
    n = base * int(rng.integers(1, max(1, 12 // base) + 1))
    nb = n // bs
    cplx = bool(rng.random() < 0.3)
    singular = bool(rng.random() < 0.4)
    D = _block_matrix(rng, bs, nb, cplx, singular)
    uniform = bool(rng.random() < 0.6)
    s0 = _wscale(rng)
    sk = [s0 if uniform else _wscale(rng, 0.3) for _ in range(nb)]
    for k in range(nb):
        D[k * bs:(k + 1) * bs, :] *= sk[k] * float(rng.choice(W_FACT))
    if fmt == 'bsr':
        spec = compress(rng, D, 'bsr', bs=(R, C), unsorted=bool(rng.random() < 0.3), noncontig=bool(rng.random() < 0.15))
    else:
        spec = compress(rng, D, fmt, unsorted=bool(rng.random() < 0.3), dup=(fmt == 'coo' and rng.random() < 0.5))
    fn = ['get_block_diag', 'scale_block_inverse'][(t // 6) % 2]
    c = {'op': 'wide', 'sub': 'block', 'fn': fn, 'A': spec, 'bs': bs, 'inv': bool(rng.random() < 0.65), 'scales': sk,
         'history': str(rng.choice(['single', 'single', 'inv_then_plain', 'twice', 'other_bs_first']))}
    feats = {fmt, f'bs={bs}', fn, 'complex' if cplx else 'real', 'singular_blocks' if singular else 'regular_blocks'} | _wfeat(*sk)
    if fmt == 'bsr':
        feats |= {f'stored{R}x{C}', 'stored_rectangular' if R != C else 'stored_square',
                  'stored==requested' if (R, C) == (bs, bs) else ('stored_rows==requested' if R == bs else
                                                                  ('stored_cols==requested' if C == bs else 'stored!=requested'))}
    return c, feats


def _gw_filterop(rng, t):
    cplx = bool(rng.random() < 0.3)
    bsr = t % 3 != 0
    rpb, cpb = (int(rng.integers(1, 5)), int(rng.integers(1, 5))) if bsr else (1, 1)
    nbr, ncb = int(rng.integers(1, 5)), int(rng.integers(1, 5))
    n, m = nbr * rpb, ncb * cpb
    nd = int(rng.choice([1, 1, 2, 3]))
    dens = float(rng.choice([0.4, 0.7, 1.0]))
    PA = rng.random((nbr, ncb)) < dens
    PC = rng.random((nbr, ncb)) < dens
    if rng.random() < 0.3:
        PC = PA.copy()
    sA, sB, sF = _wscale(rng, 0.35), _wscale(rng, 0.1), _wscale(rng, 0.35)
    if rng.random() < 0.3:
        sF = sA * sB                         # targets of the size of A B (what the smoothers pass)
    DA = rand_dense(rng, n, m, cplx, density=1.0) * np.kron(PA, np.ones((rpb, cpb))) * sA
    DC = np.kron(PC, np.ones((rpb, cpb))) * rng.choice([1.0, 2.0, -1.0], size=(n, m))
    B = rng.choice([1, 2, -1, 3, 0.5, 0, -2], size=(m, nd)).astype(complex if cplx else float)
    Bf = rng.choice([1, 2, -1, 0, 4], size=(n, nd)).astype(complex if cplx else float)
    if cplx:
        B = B + 1j * rng.choice([0, 1, -1, 2], size=(m, nd))
        Bf = Bf + 1j * rng.choice([0, 1, -1], size=(n, nd))
    if rng.random() < 0.3:
        B[:, 0] = 1
    B = B * sB * float(rng.choice(W_FACT))
    Bf = Bf * sF
    fmt = 'bsr' if bsr else 'csr'
    sa = compress(rng, DA.astype(complex if cplx else float), fmt, bs=(rpb, cpb))
    sc = compress(rng, DC.astype(complex if cplx else float), fmt, bs=(rpb, cpb), zeros=bool(rng.random() < 0.2) and not bsr)
    c = {'op': 'wide', 'sub': 'filterop', 'A': sa, 'C': sc, 'B': _encv(B), 'Bf': _encv(Bf), 'nd': nd, 'given': bool(rng.random() < 0.4),
         'flat': bool(nd == 1 and rng.random() < 0.3), 'scales': [sA, sB, sF]}
    return c, {fmt, f'nd={nd}', 'complex' if cplx else 'real', f'BtBinv_given={c["given"]}', f'blocks{rpb}x{cpb}'} | _wfeat(sA, sB, sF)


def _gw_pinv(rng, t):
    kind = ['py', 'core', 'py1', 'core', 'py'][t % 5]
    cplx = bool(rng.random() < 0.3)
    bs = 1 if kind == 'py1' else int(rng.integers(1, 9 if kind == 'py' else 7))
    nb = int(rng.integers(1, 7))
    dtype = None
    if bs == 1 and kind != 'core' and rng.random() < 0.3:
        dtype = 'complex64' if cplx else 'float32'
    D = _block_matrix(rng, bs, nb, cplx, bool(rng.random() < 0.4))
    blocks = np.array([D[k * bs:(k + 1) * bs, k * bs:(k + 1) * bs] for k in range(nb)])
    uniform = bool(rng.random() < 0.5)
    s0 = _wscale(rng, 0.1)
    sk = [s0 if uniform else _wscale(rng, 0.2) for _ in range(nb)]
    for k in range(nb):
        blocks[k] *= sk[k] * float(rng.choice(W_FACT))
    c = {'op': 'wide', 'sub': 'pinv', 'kind': 'py' if kind == 'py1' else kind, 'bs': bs, 'complex': cplx, 'blocks': _encv(blocks),
         'trans': str(rng.choice(['T', 'F'])), 'dtype': dtype, 'scales': sk}
    return c, {'pinv:' + c['kind'], f'bs={bs}', 'complex' if cplx else 'real'} | ({'dtype:' + dtype} if dtype else set()) | _wfeat(*sk)


_GW = (_gw_scale, _gw_diag, _gw_symresc, _gw_filter, _gw_block, _gw_filterop, _gw_pinv, _gw_block, _gw_filterop, _gw_pinv, _gw_filter,
       _gw_block)


def gen_wide(rng, t):
    c, feats = _GW[t % len(_GW)](rng, t // len(_GW))
    return c, feats | {'wide:' + c['sub']}


# ---- evaluation ----

def _ew_scale(ctx, c, it):
    U = _U()
    A = build(c['A'])
    fmt, which, copy = A.format, c['which'], c['copy']
    v = _decv(c['v'])
    D = A.toarray()
    it.nontrivial = A.nnz >= 2
    snap = snapshot(A)
    fn = U.scale_rows if which == 'rows' else U.scale_columns
    vv = v.reshape(-1, 1) if c.get('vshape') == 'column' else v
    R = fn(A, vv, copy=copy)
    ref = (v[:, None] * D) if which == 'rows' else (D * v[None, :])
    if not sp.issparse(R) or R.format != fmt:
        ctx.violation(f'scale_{which}: result format {getattr(R, "format", type(R).__name__)} for {fmt} input', c)
        return
    if not rclose(R.toarray(), ref, 1e-12):
        ctx.violation(f'scale_{which}({fmt}, copy={copy}, scales {c["scales"]}) is not {"diag(v) A" if which == "rows" else "A diag(v)"} '
                      f'(relative to the size of the product): expected {ref.tolist()} got {R.toarray().tolist()}', c)
    if copy:
        if snapshot(A) != snap:
            ctx.violation(f'scale_{which}({fmt}, copy=True) modified its input', c)
        elif shares(R, A):
            ctx.violation(f'scale_{which}({fmt}, copy=True) returned a matrix that shares its data with the input', c)


def _bsr_unsorted_noncontig(spec):
    """the input class of the listed finding, decided from the stored arrays: BSR, block data not C-contiguous, and at least
    one block row whose column indices are not ascending (so that sort_indices() has something to do)"""
    if spec.get('fmt') != 'bsr' or not spec.get('noncontig'):
        return False
    ip, ix = spec['indptr'], spec['indices']
    return any(ix[k] > ix[k + 1] for i in range(len(ip) - 1) for k in range(ip[i], ip[i + 1] - 1))


def _corpus_diag():
    """fixed case of the listed finding: 8 x 8, blocks (1, 4), both blocks of every row stored in descending order, strided data"""
    D = np.array([[((3 * i + 5 * j) % 7) + 1.0 for j in range(8)] for i in range(8)])
    A = sp.bsr_array(D, blocksize=(1, 4))
    A.sort_indices()
    ix = A.indices.reshape(8, 2)[:, ::-1].ravel()
    dat = A.data.reshape(8, 2, 1, 4)[:, ::-1].reshape(16, 1, 4)
    spec = {'fmt': 'bsr', 'shape': [8, 8], 'complex': False, 'blocksize': [1, 4], 'indptr': A.indptr.tolist(), 'indices': ix.tolist(),
            'data': _encv(dat), 'noncontig': True}
    return {'op': 'wide', 'sub': 'diag', 'A': spec, 'norm_eq': 1, 'inv': True, 'scales': [1.0], 'corpus': True}, {'corpus', 'bsr', 'wide:diag'}


def _ew_diag(ctx, c, it):
    U = _U()
    spec = c['A']
    cplx = spec['complex']
    if spec['fmt'] == 'dense':
        A = _decv(spec['data'], cplx).reshape(spec['shape'])
        D = A.copy()
    else:
        A = build(spec)
        D = A.toarray()
    ne, inv = int(c['norm_eq']), c['inv']
    it.nontrivial = np.count_nonzero(D) >= 2
    if ne == 0:
        ref = np.diag(D).copy()
    elif ne == 1:
        ref = np.diag(D.conj().T @ D)
    else:
        ref = np.diag(D @ D.conj().T)
    if inv:
        ref = np.array([0 if x == 0 else 1 / x for x in ref], dtype=ref.dtype)
    fk = FK_BSRSORT if _bsr_unsorted_noncontig(spec) else None
    if fk:
        it.feats.add('bsr_unsorted_noncontiguous')
    d = np.asarray(U.get_diagonal(A, norm_eq=c['norm_eq'], inv=inv))
    if d.shape != ref.shape or not rclose_each(d, ref, 1e-10):
        ctx.violation(f'get_diagonal({spec["fmt"]}, norm_eq={c["norm_eq"]}, inv={inv}, scale {c["scales"]}): expected {ref.tolist()} got {d.tolist()} '
                      f'(entrywise relative 1e-10)', c, fkey=fk)
    if sp.issparse(A) and not close(A.toarray(), D, 0):
        ctx.violation(f'get_diagonal({spec["fmt"]}) changed the value of its input', c, fkey=fk)


def _ew_symresc(ctx, c, it):
    U = _U()
    A = build(c['A'])
    fmt, cplx, copy = A.format, c['A']['complex'], c['copy']
    D = A.toarray()
    n = D.shape[0]
    it.nontrivial = A.nnz >= 2
    d = np.diag(D)
    s = np.sqrt(d) if cplx else np.sqrt(np.abs(d))
    sinv = np.array([0 if d[i] == 0 else 1 / s[i] for i in range(n)], dtype=s.dtype)
    ref = sinv[:, None] * D * sinv[None, :]
    snap = snapshot(A)
    Ds, Dsi, DAD = U.symmetric_rescaling(A, copy=copy)
    if not (rclose_each(Ds, s, 1e-12) and rclose_each(Dsi, sinv, 1e-12) and rclose(DAD.toarray(), ref, 1e-12, ref=max(1e-300, np.abs(ref).max()))):
        ctx.violation(f'symmetric_rescaling({fmt}, copy={copy}, scale {c["scales"]}) is not D^-1/2 A D^-1/2: expected {ref.tolist()} got '
                      f'{DAD.toarray().tolist()}, D_sqrt {np.asarray(Ds).tolist()} (expected {s.tolist()}), D_sqrt_inv {np.asarray(Dsi).tolist()}', c)
    else:
        dd = np.diag(DAD.toarray())
        want = np.where(d == 0, 0, d / np.where(d == 0, 1, np.abs(d)) if not cplx else 1)
        if not close(dd, want, 1e-12):
            ctx.violation(f'symmetric_rescaling (scale {c["scales"]}): the diagonal of the result is {dd.tolist()}, expected {np.asarray(want).tolist()}', c)
    if (copy or fmt not in ('csr', 'csc', 'bsr')) and snapshot(A) != snap:
        ctx.violation(f'symmetric_rescaling({fmt}, copy={copy}) modified its input', c)


def _wfilt_equal(Rd, ref, free, D, whole=False):
    """result == reference (relative to the largest entry of the matrix) except at don't-care positions"""
    if Rd.shape != ref.shape:
        return False
    if not Rd.size:
        return True
    mx = float(np.abs(D).max()) * max(1, D.shape[1])
    ok = np.abs(Rd - ref) <= 1e-12 * mx
    alt = free if whole else free & ((np.abs(Rd - D) <= 1e-12 * mx) | (Rd == 0))
    return bool((ok | alt).all())


def _ew_filter(ctx, c, it):
    U = _U()
    A = build(c['A'])
    fmt, kind = A.format, c['kind']
    D = A.toarray()
    n, m = D.shape
    it.nontrivial = A.nnz >= 2
    band = not _dyadic(c['scales'][0])
    snap = snapshot(A)
    if kind in ('rows', 'cols'):
        theta = c['theta']
        nm = 'filter_matrix_rows' if kind == 'rows' else 'filter_matrix_columns'
        R = getattr(U, nm)(A, theta)
        ref, free = ref_filter_max(D, theta, 1 if kind == 'rows' else 0, band=band)
        if not sp.issparse(R) or R.format != fmt or R.shape != A.shape:
            ctx.violation(f'{nm}: result {getattr(R, "format", type(R).__name__)} for {fmt} input', c)
            return
        if fmt == 'bsr' and tuple(R.blocksize) != tuple(A.blocksize):
            ctx.violation(f'{nm}: BSR input with blocks {A.blocksize} came back with blocks {R.blocksize}', c)
        Rd = R.toarray()
        if not _wfilt_equal(Rd, ref, free, D):
            ctx.violation(f'{nm}({fmt}, theta={theta}, scale {c["scales"]}) does not drop exactly the entries below theta * max: '
                          f'expected {ref.tolist()} got {Rd.tolist()}', c)
        if snapshot(A) != snap:
            ctx.violation(f'{nm}({fmt}) modified its input', c)
    elif kind in ('diag', 'lump'):
        theta, lump = c['theta'], kind == 'lump'
        ref, free = ref_filter_diag(D, theta, lump, band=band)
        r = U.filter_matrix_rows(A, theta, diagonal=True, lump=lump)
        if r is not None:
            ctx.violation('filter_matrix_rows(diagonal=True) returned something (documented: in place, returns None)', c)
        Rd = A.toarray()
        if fmt == 'bsr' and list(A.blocksize) != list(c['A']['blocksize']):
            ctx.violation(f'filter_matrix_rows(diagonal=True): BSR argument with blocks {c["A"]["blocksize"]} now has blocks {A.blocksize}', c)
        if not _wfilt_equal(Rd, ref, free, D, whole=True):
            ctx.violation(f'filter_matrix_rows({fmt}, theta={theta}, diagonal=True, lump={lump}, scale {c["scales"]}) did not filter its argument '
                          f'in place by theta*|a_ii|: expected {ref.tolist()} got {Rd.tolist()}', c)
        elif lump and not free.any() and not rclose(Rd.sum(1), D.sum(1), 1e-12, ref=max(1e-300, np.abs(D).max() * m)):
            ctx.violation('filter_matrix_rows(lump=True) changed a row sum', c)
    else:
        k = c['k']
        T = A.tocsr().copy()
        T.sum_duplicates()
        R = U.truncate_rows(A, k)
        if not sp.issparse(R) or R.format != fmt or R.shape != A.shape:
            ctx.violation(f'truncate_rows: result {getattr(R, "format", type(R).__name__)} for {fmt} input', c)
            return
        if fmt == 'bsr' and tuple(R.blocksize) != tuple(A.blocksize):
            ctx.violation(f'truncate_rows: BSR input with blocks {A.blocksize} came back with blocks {R.blocksize}', c)
        Rd = R.toarray()
        for i in range(n):
            stored = T.indices[T.indptr[i]:T.indptr[i + 1]].tolist()
            if not trunc_ok(D[i], Rd[i], stored, k):
                ctx.violation(f'truncate_rows({fmt}, k={k}, scale {c["scales"]}): row {i} = {D[i].tolist()} became {Rd[i].tolist()}', c)
                break
        if snapshot(A) != snap:
            ctx.violation(f'truncate_rows({fmt}) modified its input', c)


def _penrose(Ak, Xk, tol=1e-8):
    """the four Moore-Penrose equations, each relative to the sizes of its own terms -> None | which one fails"""
    na, nx = float(np.abs(Ak).max()), float(np.abs(Xk).max())
    if na == 0:
        return None if nx == 0 else 'pinv(0) != 0'
    if not np.isfinite(Xk).all():
        return 'not finite'
    m = Ak.shape[0]
    AX, XA = Ak @ Xk, Xk @ Ak
    if np.abs(AX @ Ak - Ak).max() > tol * m * na * max(1.0, np.abs(AX).max()):
        return 'A X A != A'
    if np.abs(XA @ Xk - Xk).max() > tol * m * nx * max(1.0, np.abs(XA).max()):
        return 'X A X != X'
    if np.abs(AX - AX.conj().T).max() > tol * m * max(1.0, na * nx):
        return 'A X not Hermitian'
    if np.abs(XA - XA.conj().T).max() > tol * m * max(1.0, na * nx):
        return 'X A not Hermitian'
    return None


def _judged(block):
    """assumption of the check: the non-zero singular values of a judged block exceed 0.05 ||block|| (a rank deficient block
    whose entries were rounded by a decimal rescaling / summed duplicates is numerically neither singular nor regular)"""
    if block.shape[0] == 1:
        return True
    sv = np.linalg.svd(block, compute_uv=False)
    return not ((sv > 1e-13 * sv.max()) & (sv < 0.02 * sv.max())).any()


def _blocks_ok(out, blocks, inv):
    """-> None | (k, reason): every block judged against its own magnitude"""
    if out.shape != blocks.shape:
        return (-1, f'shape {out.shape} instead of {blocks.shape}')
    for k in range(blocks.shape[0]):
        if not inv:
            if not rclose(out[k], blocks[k], 1e-13):
                return (k, f'block {out[k].tolist()} differs from the dense slice {blocks[k].tolist()}')
            continue
        if not _judged(blocks[k]):
            continue
        ref = np.linalg.pinv(blocks[k], rcond=1e-9)
        if blocks.shape[1] == 1:
            a = blocks[k][0, 0]
            ref = np.array([[0 if a == 0 else 1 / a]], dtype=blocks.dtype)
            if not rclose_each(out[k], ref, 1e-13):
                return (k, f'1 x 1 block {a!r}: pseudo-inverse {out[k][0, 0]!r} instead of 1/a = {ref[0, 0]!r}')
            continue
        if not rclose(out[k], ref, 1e-8):
            return (k, f'block {blocks[k].tolist()}: expected pinv {ref.tolist()} got {out[k].tolist()}')
        p = _penrose(blocks[k], out[k])
        if p:
            return (k, f'block {blocks[k].tolist()}: result {out[k].tolist()} fails the Penrose equation {p}')
    return None


def _ew_block(ctx, c, it):
    U = _U()
    A = build(c['A'])
    fmt, bs = A.format, c['bs']
    stored = tuple(A.blocksize) if fmt == 'bsr' else None
    D = A.toarray()
    n = D.shape[0]
    nb = n // bs
    it.nontrivial = n >= 2
    blocks = np.array([D[k * bs:(k + 1) * bs, k * bs:(k + 1) * bs] for k in range(nb)])
    snap = snapshot(A)
    tag = f'{fmt}{list(stored) if stored else ""}, blocksize={bs}'
    if c['fn'] == 'get_block_diag':
        inv, h = c['inv'], c['history']
        if h == 'inv_then_plain':
            U.get_block_diag(A, bs, inv_flag=not inv)
        elif h == 'twice':
            U.get_block_diag(A, bs, inv_flag=inv)
        elif h == 'other_bs_first':
            ob = [b for b in (1, 2, 3, 4) if n % b == 0 and b != bs]
            if ob:
                U.get_block_diag(A, ob[-1], inv_flag=inv)
        out = np.array(U.get_block_diag(A, bs, inv_flag=inv))
        bad = _blocks_ok(out, blocks, inv)
        if bad:
            ctx.violation(f'get_block_diag({tag}, inv_flag={inv}, history={h}, block scales {c["scales"]}): diagonal block {bad[0]}: {bad[1]}', c)
        if not close(A.toarray(), D, 0):
            ctx.violation('get_block_diag changed the value of its input', c)
    else:
        S, Dinv = U.scale_block_inverse(A, bs)
        Sd, Dd = S.toarray(), Dinv.toarray()
        if Sd.shape != D.shape or Dd.shape != D.shape:
            ctx.violation(f'scale_block_inverse({tag}): result shapes {Sd.shape}, {Dd.shape}', c)
            return
        got = np.array([Dd[k * bs:(k + 1) * bs, k * bs:(k + 1) * bs] for k in range(nb)])
        off = Dd.copy()
        for k in range(nb):
            off[k * bs:(k + 1) * bs, k * bs:(k + 1) * bs] = 0
        bad = _blocks_ok(got, blocks, True)
        if bad or off.any():
            ctx.violation(f'scale_block_inverse({tag}, block scales {c["scales"]}): the returned D^-1 is not the block diagonal pseudo-inverse: '
                          f'{"entries outside the block diagonal" if not bad else f"block {bad[0]}: {bad[1]}"}', c)
            return
        Dref = np.zeros_like(D)
        for k in range(nb):
            Dref[k * bs:(k + 1) * bs, k * bs:(k + 1) * bs] = np.linalg.pinv(blocks[k], rcond=1e-9)
        ref = Dref @ D
        for k in range(nb):
            rows = slice(k * bs, (k + 1) * bs)
            if not _judged(blocks[k]):
                continue
            sc = float(np.abs(Dref[rows]).max() * np.abs(D[rows]).max()) * bs
            if not rclose(Sd[rows], ref[rows], 1e-8, ref=max(sc, float(np.abs(ref[rows]).max()))):
                ctx.violation(f'scale_block_inverse({tag}, block scales {c["scales"]}): block row {k} of D^-1 A: expected {ref[rows].tolist()} '
                              f'got {Sd[rows].tolist()}', c)
                break
        if snapshot(A) != snap:
            ctx.violation(f'scale_block_inverse({fmt}) modified its input', c)


def _ew_filterop(ctx, c, it):
    U = _U()
    A, C = build(c['A']), build(c['C'])
    cplx = c['A']['complex']
    nd = c['nd']
    n, m = A.shape
    B = _decv(c['B'], cplx).reshape(m, nd)
    Bf = _decv(c['Bf'], cplx).reshape(n, nd)
    rpb, cpb = A.blocksize if A.format == 'bsr' else (1, 1)
    nbr = n // rpb
    DA = A.toarray()
    pat = [sorted(set(C.indices[C.indptr[i]:C.indptr[i + 1]].tolist())) for i in range(nbr)]
    mask = np.zeros((n, m), dtype=bool)
    for i in range(nbr):
        for jb in pat[i]:
            mask[i * rpb:(i + 1) * rpb, jb * cpb:(jb + 1) * cpb] = True
    snapA, snapC, B0, Bf0 = snapshot(A), snapshot(C), B.copy(), Bf.copy()
    Zc = np.array(U.compute_BtBinv(B, C))
    Z = U.compute_BtBinv(B, C) if c['given'] else None
    Bin, Bfin = (B.ravel(), Bf.ravel()) if c.get('flat') else (B, Bf)
    F = U.filter_operator(A, C, Bin, Bfin, BtBinv=Z)
    tag = f'{A.format} blocks {rpb}x{cpb}, {nd} candidate(s), scales A, B, Bf = {c["scales"]}'
    if not sp.issparse(F) or F.shape != A.shape or F.format != A.format:
        ctx.violation(f'filter_operator: result {getattr(F, "format", type(F).__name__)} {getattr(F, "shape", None)}', c)
        return
    Fd = F.toarray()
    if (Fd[~mask] != 0).any():
        ctx.violation(f'filter_operator ({tag}): entries outside the pattern of C: {Fd.tolist()} pattern {mask.astype(int).tolist()}', c)
        return
    if snapshot(A) != snapA or snapshot(C) != snapC or not np.array_equal(B, B0) or not np.array_equal(Bf, Bf0):
        ctx.violation('filter_operator / compute_BtBinv modified one of its arguments', c)
    if Zc.shape != (nbr, nd, nd):
        ctx.violation(f'compute_BtBinv: result shape {Zc.shape}, expected {(nbr, nd, nd)}', c)
        return
    Am = np.where(mask, DA, 0)
    E = Fd @ B - Bf
    good = 0
    for i in range(nbr):
        cols = [jb * cpb + s for jb in pat[i] for s in range(cpb)]
        if not cols:
            continue
        BJ = B[cols]
        G = BJ.conj().T @ BJ
        sv = np.linalg.svd(G, compute_uv=False)
        if sv.min() <= 1e-6 * sv.max() or sv.min() == 0:
            continue
        good += 1
        Gi = np.linalg.inv(G)
        rows = slice(i * rpb, (i + 1) * rpb)
        corr = (Am[rows] @ B - Bf[rows]) @ Gi @ BJ.conj().T
        size = float(np.abs(Bf[rows]).max() + (np.abs(Am[rows]).max() + np.abs(corr).max()) * np.abs(B).max() * m)
        if np.abs(E[rows]).max() > 1e-8 * size:
            ctx.violation(f'filter_operator ({tag}): block row {i} allows the constraint (B_J^H B_J invertible, singular values {sv.tolist()}) but '
                          f'(A_f B - Bf) = {E[rows].tolist()} with Bf = {Bf[rows].tolist()}', c)
            return
        ref = Am[rows][:, cols] - corr
        if not rclose(Fd[rows][:, cols], ref, 1e-8, ref=max(1e-300, float(np.abs(Am[rows]).max()), float(np.abs(corr).max()))):
            ctx.violation(f'filter_operator ({tag}): block row {i} is not the l2-projection of the masked row: expected {ref.tolist()} '
                          f'got {Fd[rows][:, cols].tolist()}', c)
            return
        # the array the projection is built from (an argument of filter_operator in its own right): inv(B_J^H B_J)
        if sv.min() > 1e-3 * sv.max() and not rclose(Zc[i], Gi, 1e-8):
            ctx.violation(f'compute_BtBinv ({tag}): block row {i}: B_J^H B_J = {G.tolist()} is invertible (singular values {sv.tolist()}) but the '
                          f'returned block is {Zc[i].tolist()}, expected {Gi.tolist()}', c)
            return
    it.nontrivial = C.nnz >= 2 and good > 0


def _ew_pinv(ctx, c, it):
    from pyamg import amg_core
    cplx, bs, kind = c['complex'], c['bs'], c['kind']
    blocks = _decv(c['blocks'], cplx).reshape(-1, bs, bs)
    if c.get('dtype'):
        blocks = blocks.astype(c['dtype'])
    it.nontrivial = blocks.size >= 2
    if kind == 'py':
        from pyamg.util.linalg import pinv_array
        out = blocks.copy()
        if pinv_array(out) is not None:
            ctx.violation('linalg.pinv_array returned something (documented: in place)', c)
        if bs == 1:
            # 1 x 1: the pseudo-inverse is 1/a, whatever the magnitude of a, and 0 for a = 0 (the working precision decides the rounding)
            one = blocks.dtype.type(1)
            with np.errstate(all='ignore'):
                ref = np.array([[[0 if b[0, 0] == 0 else one / b[0, 0]]] for b in blocks], dtype=blocks.dtype)
            eps = float(np.finfo(blocks.dtype).eps)
            if out.dtype != blocks.dtype or not rclose_each(out, ref, 0.0 if not cplx else 8 * eps):
                ctx.violation(f'linalg.pinv_array of 1 x 1 blocks {blocks.ravel().tolist()} ({blocks.dtype}): expected 1/a = {ref.ravel().tolist()} '
                              f'got {out.ravel().tolist()}', c)
            return
    else:
        a = np.ascontiguousarray(blocks if c['trans'] == 'T' else blocks.transpose(0, 2, 1)).ravel().copy()
        amg_core.pinv_array(a, blocks.shape[0], bs, c['trans'])
        out = a.reshape(-1, bs, bs)
    bad = _blocks_ok(out, blocks, True)
    if bad:
        ctx.violation(f'{"linalg" if kind == "py" else "amg_core"}.pinv_array ({c["trans"] if kind != "py" else "-"}, block scales {c["scales"]}): '
                      f'block {bad[0]}: {bad[1]}', c)


_EW = {'scale': _ew_scale, 'diag': _ew_diag, 'symresc': _ew_symresc, 'filter': _ew_filter, 'block': _ew_block, 'filterop': _ew_filterop,
       'pinv': _ew_pinv}


def eval_wide(ctx, c, feats=()):
    it = Item('wide:' + c['sub'], c, _key('wide', c), feats=feats)
    try:
        with warnings.catch_warnings():
            warnings.simplefilter('ignore')
            _EW[c['sub']](ctx, c, it)
    except Exception as e:
        what = {'scale': 'scale_' + str(c.get('which')), 'diag': 'get_diagonal', 'symresc': 'symmetric_rescaling', 'filter': str(c.get('kind')) + ' filter',
                'block': str(c.get('fn')), 'filterop': 'filter_operator / compute_BtBinv', 'pinv': 'pinv_array'}[c['sub']]
        A = c.get('A') or {}
        ctx.violation(f'{what} on {A.get("fmt", "blocks")}{A.get("blocksize", "")} (requested block size {c.get("bs")}, scales {c.get("scales")}) '
                      f'raised {type(e).__name__}: {e}', c)
    return it


# ------------------------------------------------------------------------------------------------
# part K (search only): spectral-radius and condition estimates far away from unit scale.  Both clauses are homogeneous in A.
#   `small` : rho(A) (resp. ||A||_2) down to about 1e-6 -- the unchanged code still meets the bounds there
#   `tiny`  : ||operator||_2 < 5e-11 (the operator is A, or A^H A on the general path of condest).  The breakdown test of
#             _approximate_eigenvalues is H[j+1, j] < set_tol = 2.2e-10 ABSOLUTE and H[1, 0] <= ||operator||_2, so the first
#             step is certain to "break down": listed finding FK_BREAK, given ONLY when ||operator||_2 < 2e-10 (computed
#             from the dense matrix) and only to the clauses that breakdown can break (lower bound / condest value).
#             In between (2e-10 .. 1e-7) nothing is generated and nothing is listed.
# ------------------------------------------------------------------------------------------------

BREAK_CLASS = 2e-10          # < set_tol(float64) = 2.22e-10


def _tiny_target(rng):
    return float(10.0 ** -rng.uniform(10.4, 24.0))


def _pow2_floor(s):
    return float(2.0 ** np.floor(np.log2(s)))


def _rho_one(ctx, M, kind, fmt, opts, seed, cls, scale):
    """one call of approximate_spectral_radius judged against [0.9 rho, rho], every tolerance relative to rho"""
    from pyamg.util import linalg as L
    n = M.shape[0]
    rho = float(np.abs(np.linalg.eigvalsh(M)).max())
    A = M.copy() if fmt == 'dense' else (sp.csr_array(M) if fmt == 'csr' else sp.csc_array(M))
    in_class = rho < BREAK_CLASS
    case = {'op': 'rho', 'kind': kind, 'n': n, 'fmt': fmt, 'seed': seed, 'complex': bool(np.iscomplexobj(M)), 'class': cls, 'scale': scale,
            'rho': rho, 'M': _encv(M) if n <= 12 else None,
            'opts': {k: (v if not isinstance(v, np.ndarray) else _encv(v)) for k, v in opts.items()}}
    ctx.case(key=_key('rho-scaled', kind, n, fmt, seed, cls, scale, sorted((k, str(v)) for k, v in case['opts'].items())), nontrivial=n >= 2)
    ctx.feat('op:approximate_spectral_radius')
    ctx.feat('rho_scale:' + cls)
    if in_class:
        ctx.feat('rho:norm_below_breakdown_threshold')
    np.random.seed(seed)
    try:
        with warnings.catch_warnings():
            warnings.simplefilter('ignore')
            r = L.approximate_spectral_radius(A, **opts)
    except Exception as e:
        ctx.violation(f'approximate_spectral_radius({kind}, n={n}, {fmt}, rho={rho:.3e}) raised {type(e).__name__}: {e}', case)
        return
    if opts.get('return_vector'):
        r = r[0]
    r = float(np.real(r))
    if not np.isfinite(r):
        ctx.violation(f'approximate_spectral_radius({kind}, n={n}, rho={rho:.3e}) returned {r}', case)
        return
    if rho > 0:
        ctx.rel_err(max(0.0, r / rho - 1))
    if r > rho * (1 + 1e-10):
        ctx.violation(f'approximate_spectral_radius({kind}, n={n}, {fmt}, opts={list(opts)}) = {r!r} exceeds the spectral radius {rho!r} '
                      f'(relative overshoot {r / rho - 1 if rho else float("inf"):.3e})', case, fkey=FK_RHO if r <= rho * 1.01 else None)
    if r < 0.9 * rho:
        ctx.violation(f'approximate_spectral_radius({kind}, n={n}, {fmt}, opts={list(opts)}) = {r!r} is below 0.9 * rho, rho = {rho!r} '
                      f'(ratio {r / rho:.4f}; ||A||_2 {"<" if in_class else ">="} {BREAK_CLASS})', case, fkey=FK_BREAK if in_class else None)


def part_krylov_scaled(ctx, N):
    from pyamg.util import linalg as L
    rng = ctx.np_rng
    # fixed corpus case of the listed finding: 2^-40 * poisson((4,)); every Rayleigh quotient of a positive start vector is <= 2 s < 0.9 * 3.618 s
    P4 = 2.0 ** -40 * sp.diags_array([-np.ones(3), 2 * np.ones(4), -np.ones(3)], offsets=[-1, 0, 1]).toarray()
    _rho_one(ctx, P4, 'poisson1d', 'csr', {}, 0, 'corpus', 2.0 ** -40)
    for t in range(N):
        M, kind = herm_matrix(rng, t)
        n = M.shape[0]
        rho0 = float(np.abs(np.linalg.eigvalsh(M)).max())
        if rho0 == 0 or n > 150:
            continue
        cls = ['tiny', 'small', 'tiny', 'small'][t % 4]
        if cls == 'tiny':
            s = _tiny_target(rng) / rho0
            if rng.random() < 0.5:
                s = _pow2_floor(s)
        else:
            s = float(rng.choice([2.0 ** -10, 2.0 ** -16, 1e-3, 1e-5]))
        g = t % 5
        opts = {}
        if g == 1:
            opts = {'tol': float(rng.choice([1e-2, 1e-4])), 'maxiter': 15, 'restart': int(rng.choice([5, 10]))}
        elif g == 2:
            v0 = rng.random((n, 1)) + (1j * rng.random((n, 1)) if np.iscomplexobj(M) else 0)
            opts = {'initial_guess': v0}
        elif g == 3:
            opts = {'return_vector': True}
        _rho_one(ctx, M * s, kind, ['csr', 'dense', 'csc'][t % 3], opts, int(rng.integers(0, 2 ** 31 - 1)), cls, s)
    for t in range(N):
        M, kappa, sym, cplx = cond_matrix(rng, t)
        n = M.shape[0]
        use_sym = sym and (t % 3 != 2)
        n2 = float(np.linalg.norm(M, 2))
        cls = 'tiny' if (not use_sym or (t // 2) % 2 == 0) else 'small'       # general path: A^H A, no safe small class measured
        if cls == 'tiny':
            tgt = _tiny_target(rng)
            s = (tgt if use_sym else np.sqrt(tgt)) / n2
            if rng.random() < 0.5:
                s = _pow2_floor(s)
        else:
            s = float(rng.choice([2.0 ** -10, 1e-3]))
        Ms = M * s
        opn = float(np.linalg.norm(Ms, 2)) ** (1 if use_sym else 2)
        in_class = opn < BREAK_CLASS
        fmt = ['dense', 'csr', 'csc'][t % 3]
        A = Ms.copy() if fmt == 'dense' else (sp.csr_array(Ms) if fmt == 'csr' else sp.csc_array(Ms))
        seed = int(rng.integers(0, 2 ** 31 - 1))
        maxiter = int(rng.choice([25, n, n + 3]))
        case = {'op': 'condest', 'n': n, 'complex': cplx, 'hermitian': sym, 'symmetric_flag': use_sym, 'fmt': fmt, 'seed': seed,
                'maxiter': maxiter, 'M': _encv(Ms), 'class': cls, 'scale': s, 'operator_norm': opn}
        ctx.case(key=_key('condest-scaled', _encv(Ms), use_sym, fmt, seed, maxiter), nontrivial=n >= 2)
        ctx.feat('op:condest')
        ctx.feat('condest_scale:' + cls)
        np.random.seed(seed)
        try:
            with warnings.catch_warnings():
                warnings.simplefilter('ignore')
                ce = float(np.real(L.condest(A, maxiter=maxiter, symmetric=use_sym)))
                cc = float(np.real(L.cond(A)))
        except Exception as e:
            ctx.violation(f'condest/cond(n={n}, {fmt}, symmetric={use_sym}, scale {s:.3e}) raised {type(e).__name__}: {e}', case)
            continue
        if not (abs(ce - kappa) <= 1e-6 * kappa):
            ctx.violation(f'condest(n={n}, {"complex" if cplx else "real"} {"Hermitian" if sym else "general"}, symmetric={use_sym}, maxiter={maxiter}, '
                          f'||operator||_2 = {opn:.3e}) = {ce!r}, 2-norm condition number = {kappa!r}', case, fkey=FK_BREAK if in_class else None)
        if not (abs(cc - kappa) <= 1e-10 * kappa):
            ctx.violation(f'cond(n={n}, {fmt}, scale {s:.3e}) = {cc!r}, 2-norm condition number = {kappa!r}', case)


# ------------------------------------------------------------------------------------------------
# driver
# ------------------------------------------------------------------------------------------------

PARTS = {'scale': (gen_scale, eval_scale), 'diag': (gen_diag, eval_diag), 'symresc': (gen_symresc, eval_symresc),
         'filter': (gen_filter, eval_filter), 'block': (gen_block, eval_block), 'filterop': (gen_filterop, eval_filterop),
         'kernel': (gen_kernel, eval_kernel), 'wide': (gen_wide, eval_wide)}


class _RecCtx:
    """what an evaluation may record (runs in a forked child: a mutated kernel that writes out of bounds or a
    utility that builds an inconsistent matrix must not take the check down with it)"""

    def __init__(self):
        self.violations, self.near_skipped = [], 0

    def violation(self, what, case, fkey=None, detail=None):
        self.violations.append((what, case, fkey))


def _in_child(e, batch):
    """evaluate a batch of cases in a forked child -> list of (item, violations, near_skipped) or the wait status"""
    r, w = os.pipe()
    pid = os.fork()
    if pid == 0:
        code = 0
        try:
            os.close(r)
            res = []
            for c, feats in batch:
                cc = _RecCtx()
                it = e(cc, c, feats)
                res.append((it, cc.violations, cc.near_skipped))
            data = pickle.dumps(('ok', res))
        except BaseException:
            import traceback
            data = pickle.dumps(('error', traceback.format_exc()))
        try:
            with os.fdopen(w, 'wb') as f:
                f.write(data)
        except BaseException:
            code = 4
        os._exit(code)
    os.close(w)
    with os.fdopen(r, 'rb') as f:
        data = f.read()
    _pid, status = os.waitpid(pid, 0)
    if os.WIFEXITED(status) and os.WEXITSTATUS(status) == 0 and data:
        kind, res = pickle.loads(data)
        if kind == 'error':
            raise RuntimeError('evaluation failed in the child process:\n' + res)
        return res
    return status


def run_part(ctx, name, N, chunk=40, cases=None):
    g, e = PARTS[name]
    rng = ctx.np_rng
    if cases is None:
        cases = [g(rng, t) for t in range(N)]
    N = len(cases)
    items = []

    def take(res):
        for it, viols, ns in res:
            items.append(it)
            ctx.near_skipped += ns
            for what, case, fkey in viols:
                ctx.violation(what, case, fkey=fkey)

    for k in range(0, N, chunk):
        batch = cases[k:k + chunk]
        res = _in_child(e, batch)
        if isinstance(res, list):
            take(res)
            continue
        for c, feats in batch:          # the child died: find the case
            one = _in_child(e, [(c, feats)])
            if isinstance(one, list):
                take(one)
            else:
                sig = os.WTERMSIG(one) if os.WIFSIGNALED(one) else None
                ctx.case(key=_key(name, c), nontrivial=True)
                ctx.violation(f'{name}: the call terminated the interpreter ({"signal " + str(sig) if sig else "status " + str(one)}) on this input '
                              f'({ {k2: v for k2, v in c.items() if k2 not in ("A", "C", "B", "Bf", "blocks", "v")} })', c)
    return items


def run(ctx):
    q = ctx.scale
    items = []
    for name, nq, nt in (('scale', 640, 12800), ('diag', 400, 8000), ('symresc', 250, 5000), ('filter', 840, 16800),
                         ('block', 300, 6000), ('filterop', 300, 6000), ('kernel', 480, 9600)):
        items += run_part(ctx, name, q(nq, nt))
    flush(ctx, items)              # one batch through the Lean driver
    part_spectral(ctx, q(240, 4000))
    part_cond(ctx, q(300, 6000))
    part_arnoldi(ctx, q(240, 4000))
    part_e52(ctx, q(320, 8000))
    flush(ctx, run_part(ctx, 'wide', q(2400, 48000)))      # part J last: the random streams of the parts above stay as validated
    flush(ctx, run_part(ctx, 'wide', 1, cases=[_corpus_diag()]))      # fixed corpus cases of the two listed findings
    part_krylov_scaled(ctx, q(150, 3000))
    _order(ctx)


def _order(ctx):
    """violations that match no finding key first: the reported replay is then a new failure, not a listed one"""
    ctx.violations.sort(key=lambda v: v['fkey'] is not None)


def search(ctx):
    items = []
    for name in PARTS:
        items += run_part(ctx, name, 1500 if name != 'wide' else 6000)
    flush(ctx, items)
    part_spectral(ctx, 600)
    part_cond(ctx, 1000)
    part_arnoldi(ctx, 600)
    part_e52(ctx, 1200)
    flush(ctx, run_part(ctx, 'wide', 1, cases=[_corpus_diag()]))
    part_krylov_scaled(ctx, 600)
    _order(ctx)


def replay(ctx, data):
    case = data['case']
    print('replaying', case.get('op'), {k: v for k, v in case.items() if k not in ('A', 'C', 'B', 'Bf', 'M', 'blocks')})
    op = case.get('op')
    if op in PARTS:
        it = PARTS[op][1](ctx, case)
        flush(ctx, [it])
        for f in ctx.corr_fail:
            print('model disagrees:', f['op'], f['note'], 'model', str(f['model_output'])[:300], 'impl', str(f['impl_output'])[:300])
        for k in ('A', 'C'):
            if k in case:
                print(k, '=', build(case[k]).toarray().tolist() if case[k]['fmt'] != 'dense' else case[k]['data'])
    elif op == 'rho':
        print('re-run: np.random.seed(case["seed"]); approximate_spectral_radius of the matrix case["M"] (row major) with case["opts"]')
    elif op == 'arnoldi':
        calls, opm, res = _arn_run(case)
        outs = _lean(ctx, [f'ext_c19_arnoldi {";".join(_fbits(r) for r in opm)} {_fbits([BREAKDOWN])} {int(cl["symmetric"])} '
                           f'{cl["maxiter"]} {_fbits(cl["v0"])}' for cl in calls if not cl.get('complex')])
        for k, (cl, o) in enumerate(zip([cl for cl in calls if not cl.get('complex')], outs)):
            print(f'cycle {k}: flag {cl["flag"]}, {cl["m"]} columns, comparison with the model:', _arn_compare(cl, opm, o))
            print('  H (code) =', cl['H'][:cl['m'] + 1, :cl['m']].tolist())
        print('returned value:', res)
    elif op == 'e52':
        calls, opm, res = _e52_run(case)
        line, info = _e52_line(case, calls, opm)
        o = _lean(ctx, [line])[0]
        print('mode', case['mode'], 'kind', case['kind'], 'n', case['n'], 'result of the code:', repr(res)[:300])
        for k, cl in enumerate(calls):
            print(f'  call {k}: flag {cl["flag"]}, {cl["m"]} columns, |ev| =', np.abs(cl['ev']).tolist())
        print('model reply:', o[:600])
        print('comparison with the model:', _e52_judge(ctx, case, calls, opm, res, info, o))
        _e52_property(ctx, case, calls, opm, res)
    elif op == 'condest':
        from pyamg.util import linalg as L
        n = case['n']
        M = _decv(case['M'], case['complex']).reshape(n, n)
        np.random.seed(case['seed'])
        A = M if case['fmt'] == 'dense' else sp.csr_array(M).asformat(case['fmt'])
        print('condest', L.condest(A, maxiter=case['maxiter'], symmetric=case['symmetric_flag']), 'cond', L.cond(A), 'numpy', np.linalg.cond(M, 2))
    print('violations now:', [v['what'][:300] for v in ctx.violations])
