"""C18 -- graph algorithms return what their names promise.

correspondence : raw kernels of graph.h (serial / parallel MIS with replayed weights, MIS colouring,
                 connected components, BFS order+levels, Bellman-Ford d/m/p; Jones-Plassmann / LDF colourings
                 and distance-k parallel MIS with tied integer weights) vs Model/KGraph.lean, Model/ExtGraph.lean
                 and Model/KNum.lean, exact integer / rational equality.
search         : public functions of pyamg/graph.py judged by the specification itself (independent
                 Python checkers, SciPy csgraph as a second opinion, and the Lean-proved `checkMIS`).
"""
import hashlib
import itertools

import numpy as np
import scipy.sparse as sp
from scipy.sparse import csgraph

import gen
from common import enc_ints, enc_rats, enc_list, enc_rat, dec_list, frac

META = {
    'rule': 'graphs: every labelled graph on <= 4 (quick) / <= 6 (thorough) vertices, plus seeded structured random graphs '
            '(paths, stars, cycles, cliques, isolated pairs, grids, two components, Erdos-Renyi; some with self loops, some '
            'nonsymmetric for the kernel correspondence) up to n = 40; weights dyadic with ties; a case is non-trivial when '
            'the graph has an edge; distinct = distinct (routine, graph, parameters)',
    'search_only': ['balanced Bellman-Ford, RCM: specification checkers on the real outputs (no Lean model)',
                    'Jones-Plassmann / LDF colourings and distance-k MIS through the public wrappers (random real weights): '
                    'specification checkers; the kernels themselves are compared exactly with Model/ExtGraph.lean on tied '
                    'integer weights (theorems coloring_jp_total, coloring_ldf_total, mis_k_total)'],
    'partial': ['rcm: only the wrapper contract (symmetric permutation) is checked'],
    'assumptions': ['random weights drawn inside the public wrappers are not replayed (their outputs are judged by the spec)',
                    'maximal_independent_set_k_parallel: theorem mis_k_total needs all weights > -1 (the kernel marks decided '
                    'nodes with the value -1; a weight <= -1 next to a decided node makes max_iters=-1 loop forever); the '
                    'generator draws the weights of the unbounded call from {0,1,2}, the wrapper from [0,1)'],
}


def _key(*a):
    return hashlib.sha1(repr(a).encode()).hexdigest()


def _csr(M, dtype=float):
    return gen.int32csr(sp.csr_array(np.array(M, dtype=dtype)))


# ---------------------------------------------------------------- spec checkers (independent)

def adj_lists(G):
    n = G.shape[0]
    return [set(int(j) for j in G.indices[G.indptr[i]:G.indptr[i + 1]] if j != i) for i in range(n)]


def within_k(adj, k):
    """neighbours within distance <= k (excluding self)"""
    n = len(adj)
    out = []
    for s in range(n):
        seen = {s}
        frontier = {s}
        for _ in range(k):
            frontier = {j for i in frontier for j in adj[i]} - seen
            seen |= frontier
        out.append(seen - {s})
    return out


def check_mis(adj, x, k=1):
    n = len(adj)
    nb = within_k(adj, k)
    if any(v not in (0, 1) for v in x):
        return 'values other than 0/1'
    for i in range(n):
        if x[i] == 1 and any(x[j] == 1 for j in nb[i]):
            return f'not independent at distance {k}: node {i}'
        if x[i] == 0 and not any(x[j] == 1 for j in nb[i]):
            return f'not maximal: node {i} could be added'
    return None


def check_coloring(adj, c):
    n = len(adj)
    for i in range(n):
        if c[i] < 0:
            return f'node {i} uncoloured'
        if any(c[j] == c[i] for j in adj[i]):
            return f'adjacent nodes share colour at node {i}'
    used = sorted(set(int(v) for v in c))
    if n and used != list(range(len(used))):
        return f'colours have gaps: {used}'
    return None


def shortest(G, centers):
    """reference distances from the centre set along edges i->j with weight G[i,j] (Fractions)"""
    n = G.shape[0]
    INF = None
    d = [INF] * n
    for c in centers:
        d[c] = frac(0)
    for _ in range(n):
        ch = False
        for i in range(n):
            if d[i] is None:
                continue
            for jj in range(G.indptr[i], G.indptr[i + 1]):
                j = int(G.indices[jj])
                v = d[i] + frac(G.data[jj])
                if d[j] is None or v < d[j]:
                    d[j] = v
                    ch = True
        if not ch:
            break
    return d


def dist_from(G, c):
    return shortest(G, [c])


def check_bf(G, centers, d, m, p):
    n = G.shape[0]
    ref = shortest(G, centers)
    W = {}
    for i in range(n):
        for jj in range(G.indptr[i], G.indptr[i + 1]):
            j = int(G.indices[jj])
            w = frac(G.data[jj])
            W[(i, j)] = min(W.get((i, j), w), w)
    per_center = {}
    for j in range(n):
        if ref[j] is None:
            if np.isfinite(d[j]):
                return f'node {j} unreachable but distance {d[j]}'
            if m[j] != -1 or p[j] != -1:
                return f'node {j} unreachable but labelled'
            continue
        if not np.isfinite(d[j]) or frac(d[j]) != ref[j]:
            return f'distance of node {j} is {d[j]}, shortest is {ref[j]}'
        if not 0 <= m[j] < len(centers):
            return f'node {j}: nearest-centre index {m[j]} out of range'
        c = int(centers[m[j]])
        if c not in per_center:
            per_center[c] = dist_from(G, c)
        if per_center[c][j] != ref[j]:
            return f'node {j}: labelled with centre {c} at distance {per_center[c][j]}, but nearest is at {ref[j]}'
        if j in [int(c) for c in centers] and ref[j] == 0:
            continue
        q = int(p[j])
        if q < 0 or (q, j) not in W:
            return f'node {j}: predecessor {q} is not a neighbour'
        if ref[q] is None or ref[q] + W[(q, j)] != ref[j]:
            return f'node {j}: predecessor {q} is not on a shortest path'
        if m[q] != m[j]:
            return (f'node {j} is labelled with centre index {int(m[j])} but its predecessor {q} with {int(m[q])}: the '
                    f'predecessor chain does not lead to the nearest centre the node is assigned to')
    return None


# ---------------------------------------------------------------- graph streams

def graph_stream(ctx, nmax_exh, n_rand, nmax_rand):
    for n in range(1, nmax_exh + 1):
        for M in gen.all_graphs(n):
            yield M, f'all{n}'
    rng = ctx.np_rng
    for _ in range(n_rand):
        n = int(rng.integers(1, nmax_rand + 1))
        M, kind = gen.rand_graph(rng, n)
        yield M, kind


# ---------------------------------------------------------------- part A: kernels vs Lean models

def part_a(ctx, graphs, with_variants=True):
    from pyamg import amg_core
    rng = ctx.np_rng
    items = []
    for t, (M, kind) in enumerate(graphs):
        M = np.array(M)
        n = M.shape[0]
        if with_variants and kind not in ('all1', 'all2', 'all3', 'all4', 'all5', 'all6'):
            if t % 5 == 0:
                M = M + np.diag(rng.integers(0, 2, size=n))     # some self loops
            if t % 7 == 0:
                M = M * (rng.random((n, n)) < 0.8)               # some nonsymmetric (kernel correspondence only)
        G = _csr((M != 0).astype(float))
        ap, aj = G.indptr, G.indices
        hdr = f'{n} {enc_ints(ap)} {enc_ints(aj)}'
        has_edge = bool((M - np.diag(np.diag(M))).any())

        def add(line, out, what):
            items.append((line, out, what, kind, has_edge))
        x = np.full(n, -1, dtype=np.int32)
        amg_core.maximal_independent_set_serial(n, ap, aj, -1, 1, 0, x)
        add('mis_serial ' + hdr, enc_ints(x), 'mis_serial')
        add('p_mis_serial ' + hdr, enc_ints(x), 'p_mis_serial')
        y = rng.integers(0, 6, size=n).astype(float)          # many ties on purpose
        x = np.full(n, -1, dtype=np.int32)
        amg_core.maximal_independent_set_parallel(n, ap, aj, -1, 1, 0, x, y, -1)
        add(f'mis_par {hdr} {enc_ints(y)}', enc_ints(x), 'mis_parallel')
        add(f'p_mis_par {hdr} {enc_ints(y)}', enc_ints(x), 'p_mis_parallel')
        x = np.full(n, -7, dtype=np.int32)
        amg_core.vertex_coloring_mis(n, ap, aj, x)
        add('color_mis ' + hdr, enc_ints(x), 'color_mis')
        add('p_color_mis ' + hdr, enc_ints(x), 'p_color_mis')
        x = np.full(n, -7, dtype=np.int32)
        amg_core.connected_components(n, ap, aj, x)
        add('cc ' + hdr, enc_ints(x), 'cc')
        add('p_cc ' + hdr, enc_ints(x), 'p_cc')
        seed = int(rng.integers(0, n))
        order = np.full(n, -9, dtype=np.int32)
        level = np.full(n, -1, dtype=np.int32)
        amg_core.breadth_first_search(ap, aj, seed, order, level)
        add(f'bfs {hdr} {seed}', enc_ints(order) + ';' + enc_ints(level), 'bfs')
        add(f'p_bfs {hdr} {seed}', enc_ints(level), 'p_bfs')
        # Bellman-Ford on positive dyadic weights with ties
        Wt = G.copy()
        Wt.data = rng.choice([0.5, 1.0, 1.0, 2.0, 1.5], size=G.nnz)
        k = int(rng.integers(1, min(n, 3) + 1))
        centers = rng.choice(n, size=k, replace=False).astype(np.int32)
        d = np.full(n, np.inf)
        m = np.full(n, -1, dtype=np.int32)
        p = np.full(n, -1, dtype=np.int32)
        d[centers] = 0
        m[centers] = np.arange(k)
        d0 = ','.join('inf' if not np.isfinite(v) else enc_rat(v) for v in d)
        line = f'bf {n} {enc_ints(ap)} {enc_ints(aj)} {enc_rats(Wt.data)} {d0} {enc_ints(m)} {enc_ints(p)}'
        amg_core.bellman_ford(n, ap, aj, Wt.data, centers, d, m, p)
        dd = ','.join('inf' if not np.isfinite(v) else enc_rat(v) for v in d)
        add(line, dd + ';' + enc_ints(m) + ';' + enc_ints(p) + ';true', 'bellman_ford')
        # kernels that take weights, called directly with TIED weights (the wrappers only pass random reals)
        Ms = np.array(M)
        if (Ms == Ms.T).all():
            adj = adj_lists(G)
            yt = rng.integers(0, 3, size=n).astype(float)
            kk = int(rng.integers(1, 4))
            x = np.zeros(n, dtype=np.int32)
            amg_core.maximal_independent_set_k_parallel(n, ap, aj, kk, x, yt, -1)
            # exact comparison with the Lean model G.misK (theorem mis_k_total is about this model)
            add(f'ext_mis_k {hdr} {enc_ints(yt)} {kk}', enc_ints(x), 'ext_mis_k')
            ctx.case(key=_key('mis_k_kernel', hdr, kk, yt.tobytes()), nontrivial=has_edge)
            ctx.feat('kernel:mis_k_parallel(tied weights)')
            e = check_mis(adj, x, k=kk)
            if e:
                ctx.violation(f'maximal_independent_set_k_parallel(k={kk}) with tied weights {yt.tolist()}: {e}; result {x.tolist()}',
                              {'M': Ms.tolist(), 'routine': 'mis_k_kernel', 'k': kk, 'weights': yt.tolist()})
            if t % 3 == 0:
                # bounded number of outer iterations, weights that may be <= -1 (the marker value): kernel vs model only
                yb = rng.integers(-3, 2, size=n).astype(float)
                mi = int(rng.integers(0, 4))
                x = np.zeros(n, dtype=np.int32)
                amg_core.maximal_independent_set_k_parallel(n, ap, aj, kk, x, yb, mi)
                add(f'ext_mis_k_iters {hdr} {enc_ints(yb)} {kk} {mi}', enc_ints(x), 'ext_mis_k(max_iters)')
            for nm, fn, op in (('jones_plassmann', amg_core.vertex_coloring_jones_plassmann, 'ext_color_jp'),
                               ('LDF', amg_core.vertex_coloring_LDF, 'ext_color_ldf')):
                z = rng.integers(-1 if nm == 'LDF' else 0, 3, size=n).astype(float)
                z0 = z.copy()
                x = np.full(n, -5, dtype=np.int32)
                ret = fn(n, ap, aj, x, z)
                # exact comparison (colours and returned max colour) with the Lean models G.coloringJP / G.coloringLDF
                add(f'{op} {hdr} {enc_ints(z0)}', enc_ints(x) + ';' + str(int(ret)), op)
                ctx.case(key=_key(nm, hdr, z0.tobytes()), nontrivial=has_edge)
                ctx.feat(f'kernel:coloring_{nm}(tied weights)')
                e = check_coloring(adj, x)
                if e:
                    ctx.violation(f'vertex_coloring_{nm} with tied weights {z0.tolist()}: {e}; result {x.tolist()}',
                                  {'M': Ms.tolist(), 'routine': 'coloring_kernel_' + nm, 'weights': z0.tolist()})
    outs = ctx.lean([it[0] for it in items])
    for (line, out, what, kind, has_edge), o in zip(items, outs):
        ctx.case(key=_key(line), nontrivial=has_edge, sample={'request': line[:200], 'model': o[:100], 'impl': out[:100]})
        ctx.feat('kernel:' + what)
        ctx.feat('graph:' + kind)
        if o != out:
            ctx.corr('kernel ' + what, {'line': line}, o, out)


# ---------------------------------------------------------------- part B: public API judged by the spec

def part_b(ctx, graphs):
    import pyamg.graph as PG
    rng = ctx.np_rng
    lean_lines, lean_meta = [], []
    for t, (M, kind) in enumerate(graphs):
        M = np.array(M)
        n = M.shape[0]
        if kind.startswith('all') is False and t % 4 == 0:
            M = M + np.eye(n, dtype=int)          # self loops / stored diagonal
        G = _csr((M != 0).astype(float))
        adj = adj_lists(G)
        has_edge = any(adj)
        case0 = {'M': M.tolist()}

        def viol(what, extra=None):
            ctx.violation(what, {**case0, **(extra or {})})

        def reg(name, **kw):
            ctx.case(key=_key(name, M.tobytes(), sorted(kw.items())), nontrivial=has_edge,
                     sample={'routine': name, 'n': n, 'graph': kind, **kw} if ctx.evaluations % 997 == 0 else None)
            ctx.feat('api:' + name)
        # --- MIS
        for algo in ('serial', 'parallel'):
            np.random.seed(int(rng.integers(2**31)))
            x = PG.maximal_independent_set(G, algo=algo)
            reg('mis', algo=algo)
            e = check_mis(adj, x)
            if e:
                viol(f'maximal_independent_set(algo={algo}): {e}; result {list(map(int, x))}', {'routine': 'mis', 'algo': algo})
            lean_lines.append(f'check_mis {n} {enc_ints(G.indptr)} {enc_ints(G.indices)} {enc_ints(x)}')
            lean_meta.append((algo, case0, x))
        if t % 2 == 0:
            k = int(rng.integers(1, 4))
            np.random.seed(int(rng.integers(2**31)))
            x = PG.maximal_independent_set(G, k=k)
            reg('mis_k', k=k)
            e = check_mis(adj, x, k=k)
            if e:
                viol(f'maximal_independent_set(k={k}): {e}; result {list(map(int, x))}', {'routine': 'mis_k', 'k': k})
        # --- colourings
        for method in ('MIS', 'JP', 'LDF'):
            np.random.seed(int(rng.integers(2**31)))
            c = PG.vertex_coloring(G, method=method)
            reg('coloring', method=method)
            e = check_coloring(adj, c)
            if e:
                viol(f'vertex_coloring(method={method}): {e}; result {list(map(int, c))}', {'routine': 'coloring', 'method': method})
        # --- components
        comp = PG.connected_components(G)
        reg('cc')
        ncomp, lab = csgraph.connected_components(sp.csr_array(G), directed=False)
        same = all((comp[i] == comp[j]) == (lab[i] == lab[j]) for i in range(n) for j in range(i))
        if not same or sorted(set(int(v) for v in comp)) != list(range(ncomp)):
            viol(f'connected_components: labels {list(map(int, comp))} do not describe the components {lab.tolist()}', {'routine': 'cc'})
        # --- BFS
        seed = int(rng.integers(0, n))
        order, level = PG.breadth_first_search(G, seed)
        reg('bfs', seed=seed)
        Gs = sp.csr_array(G.copy())
        Gs.data[:] = 1.0
        ref = csgraph.shortest_path(Gs, directed=False, unweighted=True, indices=seed) if n > 0 else np.zeros(0)
        lvl_ref = [-1 if not np.isfinite(v) else int(v) for v in ref]
        reach = [i for i in range(n) if lvl_ref[i] >= 0]
        if list(map(int, level)) != lvl_ref:
            viol(f'breadth_first_search(seed={seed}): levels {list(map(int, level))} != hop counts {lvl_ref}', {'routine': 'bfs', 'seed': seed})
        else:
            o = [int(v) for v in order[:len(reach)]]
            if sorted(o) != reach or any(lvl_ref[o[a]] > lvl_ref[o[a + 1]] for a in range(len(o) - 1)):
                viol(f'breadth_first_search(seed={seed}): order {o} is not a level-ordered listing of the reachable set', {'routine': 'bfs', 'seed': seed})
        # --- Bellman-Ford (symmetric positive weights, ties)
        Wm = np.triu(M != 0, 1) * rng.choice([0.5, 1.0, 1.0, 2.0, 3.0], size=(n, n))
        Wm = Wm + Wm.T
        Gw = _csr(Wm)
        k = int(rng.integers(1, min(n, 3) + 1))
        centers = rng.choice(n, size=k, replace=False).astype(np.int32)
        for method in ('standard', 'balanced'):
            d, m, p = PG.bellman_ford(Gw, centers, method=method)
            reg('bellman_ford', method=method, k=k)
            e = check_bf(Gw, centers, d, m, p)
            if e:
                viol(f'bellman_ford(method={method}, centers={centers.tolist()}): {e}',
                     {'routine': 'bellman_ford', 'method': method, 'W': Wm.tolist(), 'centers': centers.tolist()})
        # --- RCM: a symmetric permutation of the input (distinct diagonal makes the permutation visible)
        if n >= 1:
            A = (M != 0).astype(float) * rng.integers(1, 5, size=(n, n))
            A = np.triu(A, 1)
            A = A + A.T + np.diag(np.arange(1, n + 1) * 10.0)
            Ar = _csr(A)
            reg('rcm')
            try:
                Bm = PG.symmetric_rcm(Ar).toarray()
                diag = np.diag(Bm)
                perm = [int(round(v / 10.0)) - 1 for v in diag]
                if sorted(perm) != list(range(n)) or not np.array_equal(Bm, A[np.ix_(perm, perm)]):
                    viol('symmetric_rcm: the result is not a symmetric permutation of the input', {'routine': 'rcm', 'A': A.tolist()})
            except Exception as ex:
                viol(f'symmetric_rcm raised {type(ex).__name__}: {ex}', {'routine': 'rcm', 'A': A.tolist()})
            if n <= 6:
                # no stored diagonal, so isolated vertices are empty rows; the random start may land anywhere:
                # the result must be P A P^T for SOME permutation P (brute force), for several RNG states
                A0 = np.triu((M != 0) * rng.integers(1, 9, size=(n, n)).astype(float), 1)
                A0 = A0 + A0.T
                Az = _csr(A0)
                perms = None
                for rep in range(3):
                    reg('rcm_nodiag')
                    np.random.seed(int(rng.integers(2**31)))
                    try:
                        Bz = PG.symmetric_rcm(Az)
                        ok = Bz.shape == (n, n)
                        if ok:
                            Bd = Bz.toarray()
                            if perms is None:
                                perms = [list(pp) for pp in itertools.permutations(range(n))]
                            ok = any(np.array_equal(Bd, A0[np.ix_(pp, pp)]) for pp in perms)
                        if not ok:
                            viol(f'symmetric_rcm on a matrix with {int((A0.sum(1) == 0).sum())} empty row(s): the result '
                                 f'(shape {Bz.shape}) is not a symmetric permutation of the input', {'routine': 'rcm_nodiag', 'A': A0.tolist()})
                            break
                    except Exception as ex:
                        viol(f'symmetric_rcm raised {type(ex).__name__}: {ex}', {'routine': 'rcm_nodiag', 'A': A0.tolist()})
                        break
    outs = ctx.lean(lean_lines)
    for (algo, case0, x), o in zip(lean_meta, outs):
        ctx.feat('lean_checker:mis')
        if o != 'ok':
            ctx.violation(f'maximal_independent_set(algo={algo}) rejected by the proved checker checkMIS: result {list(map(int, x))}',
                          {**case0, 'routine': 'mis', 'algo': algo})


def run(ctx):
    if ctx.quick:
        ga = list(graph_stream(ctx, 4, 260, 14))
        gb = list(graph_stream(ctx, 4, 160, 24))
    else:
        ga = list(graph_stream(ctx, 6, 4000, 40))
        gb = list(graph_stream(ctx, 5, 3000, 40))
    part_a(ctx, ga)
    part_b(ctx, gb)


def search(ctx):
    part_b(ctx, list(graph_stream(ctx, 5, 1500, 30)))


def replay(ctx, data):
    case = data['case']
    M = np.array(case['M'])
    print('replaying on graph', M.tolist(), {k: v for k, v in case.items() if k != 'M'})
    part_b(ctx, [(M, 'replay')])
    for v in ctx.violations:
        print('  ', v['what'])
