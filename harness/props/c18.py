"""C18 -- graph algorithms return what their names promise.

correspondence : raw kernels of graph.h (serial / parallel MIS with replayed weights, MIS colouring,
                 connected components, BFS order+levels, Bellman-Ford d/m/p; Jones-Plassmann / LDF colourings
                 and distance-k parallel MIS with tied integer weights) vs Model/KGraph.lean, Model/ExtGraph.lean
                 and Model/KNum.lean, exact integer / rational equality.
search         : public functions of pyamg/graph.py judged by the specification itself (independent
                 Python checkers, SciPy csgraph as a second opinion, and the Lean-proved `checkMIS`): the whole option
                 grid per graph -- maximal_independent_set algo {serial, parallel} x k {None, 1, 2, 3, 4} judged at the
                 requested distance, vertex_coloring MIS / JP / LDF, bellman_ford methods x tiebreaking with centres as list /
                 int64 / int32 array, breadth_first_search from every seed (n <= 6), lloyd_cluster (centre list / count,
                 maxiter 1, 2, 3, 5, default, complex weights; nearest-centre labels w.r.t. the centres returned with one sweep
                 less, returned centres most interior), bellman_ford / lloyd_cluster again on the weights scaled by 2^-40 ..
                 2^-200, 1e-12 .. 1e-18 and up to 2^200 (float64 / float32; balanced method: multiples of h > 2e-14 only),
                 pseudo_peripheral_node, connected_components, symmetric_rcm; inputs as CSR, CSC, dense, COO and CSR
                 with unsorted rows; self loops on all / some vertices, exhaustively every self-loop subset on <= 3 (4) vertices.
extension E20  : `bellman_ford_balanced` (kernel on the wrapper's and on the Lloyd loop's initial arrays, second call on
                 its own final state, tiebreaking on/off, dyadic weights with ties, some zero weights) and the public
                 `bellman_ford(method='balanced')` (repeated / negative centres, CSC input) vs Model/ExtC18Bal.lean: exact
                 equality of d, m, p, pc, s and the returned flag; `pseudo_peripheral_node` and `symmetric_rcm` (NumPy's
                 global generator replayed; CSR sorted / unsorted rows, CSC, with and without stored diagonal, disconnected
                 graphs, some nonsymmetric patterns) vs Model/ExtC18Rcm.lean: the model's permutation must reproduce the
                 returned matrix exactly.  The model is asked first; the real balanced kernel runs in a forked worker.
"""
import hashlib
import itertools

import numpy as np
import scipy.sparse as sp
from scipy.sparse import csgraph

import gen
from common import enc_ints, enc_rats, enc_list, enc_rat, dec_list, frac

META = {
    'rule': 'graphs: every labelled graph on <= 4 (quick) / <= 6 (thorough) vertices, plus seeded structured random graphs '
            '(paths, stars, cycles, cliques, isolated pairs, grids, two components, Erdos-Renyi; some with self loops, some '
            'nonsymmetric for the kernel correspondence) up to n = 40; weights dyadic with ties; a case is non-trivial when '
            'the graph has an edge; distinct = distinct (routine, graph, input format, parameters); every graph on <= 3 (quick) / '
            '<= 4 (thorough) vertices with every non-empty self-loop subset; public functions: full option grid per graph; '
            'every weighted routine (kernel and public bellman_ford, lloyd_cluster) additionally on the same weights in other '
            'units of length: scalings 2^-40 .. 2^-70, 2^-200, 2^20 .. 2^60, 2^200 and 1e-12 .. 1e-18, 1e12 cut to 20 mantissa '
            'bits (float sums of the weights are exact: exact Fraction oracle and exact model equality), true decimal scalings '
            '1e-12 .. 1e-18, 1e-3, 1e12 (float sums are rounded: every comparison of path lengths up to the relative tolerance '
            '1e-9, predecessor labels not compared), binary32 weights on the dyadic scalings that fit; lloyd_cluster: nearest-'
            'centre labels and "the returned centre is a most interior node of its cluster" (Fraction oracle)',
    'search_only': ['balanced Bellman-Ford: termination (the kernel gives up after n*n sweeps with a C++ exception) is not a theorem; '
                    'the check never met it on the unchanged tree; RCM: only "permutation" is a theorem, bandwidth quality is not judged',
                    'Jones-Plassmann / LDF colourings and distance-k MIS through the public wrappers (random real weights): '
                    'specification checkers; the kernels themselves are compared exactly with Model/ExtGraph.lean on tied '
                    'integer weights (theorems coloring_jp_total, coloring_ldf_total, mis_k_total)',
                    'lloyd_cluster (nearest-centre labels w.r.t. the previous centres, returned centres most interior) and the '
                    'decimal-scaled / binary32 Bellman-Ford runs: Fraction oracles only; the Bellman-Ford kernel itself is '
                    'compared exactly with the model on the exact scalings'],
    'partial': [],
    'assumptions': ['balanced Bellman-Ford theorems (bf_balanced_kernel, bf_balanced_wrapper) assume weights in h*N with '
                    '2*tol < h (tol = 1e-14 is the kernel constant): then the two float tests are exact (theorem '
                    'bf_balanced_tests_exact); the generator draws weights from {0, 0.5, 1, 1.5, 2} (h = 0.5), for which float '
                    'arithmetic is exact as well, on every other graph multiplied by a scale from SC_BAL (h = 0.5*scale between '
                    '2^-45 = 2.84e-14 and 2^199, the smallest dyadic h above 2*tol = 2e-14 included); the public '
                    "bellman_ford(method='balanced') is judged on such weights only: for positive weights that are NOT of this "
                    'form (measured on the unchanged tree: every graph scaled to h = 2^-46 = 1.42e-14 or less, e.g. weights '
                    '1e-15 .. 4e-15) the absolute tolerance makes the balanced kernel ignore improvements of a path by <= 2e-14 '
                    'and its distances / nearest centres are not the shortest-path ones: known finding '
                    '`balanced-bf-absolute-tolerance`, shown on every run by the fixed corpus of part_known (W = [[0,1,4],[1,0,3],'
                    '[4,3,0]] * 2^-46, centres [1,0]; controls on the grid 2^-45 and with the standard method must hold) and by the '
                    'scalings SC_BAL_TINY; the key is given only to the balanced variant on a weight grid (gcd of the weights) '
                    '<= 2^-46, the model correspondence stays exact there; they speak about runs that return (model result `ok`): out-of-bounds accesses '
                    '(`fault`, only met with zero weights, where the real kernel is then not run) and the kernel\'s "too many '
                    'iterations" exception are outside',
                    'rcm_total assumes a symmetric pattern with column indices < n and a start node < n (int(rand()*n) always is)',
                    'random weights drawn inside the public wrappers are not replayed (their outputs are judged by the spec)',
                    'maximal_independent_set_k_parallel: theorem mis_k_total needs all weights > -1 (the kernel marks decided '
                    'nodes with the value -1; a weight <= -1 next to a decided node makes max_iters=-1 loop forever); the '
                    'generator draws the weights of the unbounded call from {0,1,2}, the wrapper from [0,1)'],
}


def _key(*a):
    return hashlib.sha1(repr(a).encode()).hexdigest()


def _csr(M, dtype=float):
    return gen.int32csr(sp.csr_array(np.array(M, dtype=dtype)))


# ---------------------------------------------------------------- spec checkers (independent)

def adj_lists(G):
    n = G.shape[0]
    return [set(int(j) for j in G.indices[G.indptr[i]:G.indptr[i + 1]] if j != i) for i in range(n)]


def within_k(adj, k):
    """neighbours within distance <= k (excluding self)"""
    n = len(adj)
    out = []
    for s in range(n):
        seen = {s}
        frontier = {s}
        for _ in range(k):
            frontier = {j for i in frontier for j in adj[i]} - seen
            seen |= frontier
        out.append(seen - {s})
    return out


def check_mis(adj, x, k=1):
    n = len(adj)
    nb = within_k(adj, k)
    if any(v not in (0, 1) for v in x):
        return 'values other than 0/1'
    for i in range(n):
        if x[i] == 1 and any(x[j] == 1 for j in nb[i]):
            return f'not independent at distance {k}: node {i}'
        if x[i] == 0 and not any(x[j] == 1 for j in nb[i]):
            return f'not maximal: node {i} could be added'
    return None


def check_coloring(adj, c):
    n = len(adj)
    for i in range(n):
        if c[i] < 0:
            return f'node {i} uncoloured'
        if any(c[j] == c[i] for j in adj[i]):
            return f'adjacent nodes share colour at node {i}'
    used = sorted(set(int(v) for v in c))
    if n and used != list(range(len(used))):
        return f'colours have gaps: {used}'
    return None


def shortest(G, centers):
    """reference distances from the centre set along edges i->j with weight G[i,j] (Fractions)"""
    n = G.shape[0]
    INF = None
    d = [INF] * n
    for c in centers:
        d[c] = frac(0)
    for _ in range(n):
        ch = False
        for i in range(n):
            if d[i] is None:
                continue
            for jj in range(G.indptr[i], G.indptr[i + 1]):
                j = int(G.indices[jj])
                v = d[i] + frac(G.data[jj])
                if d[j] is None or v < d[j]:
                    d[j] = v
                    ch = True
        if not ch:
            break
    return d


def dist_from(G, c):
    return shortest(G, [c])


def _eq(a, b, rtol):
    """a == b for Fractions; with rtol > 0 (weights whose float sums round): equal up to the relative tolerance"""
    if not rtol:
        return a == b
    return abs(a - b) <= rtol * max(abs(a), abs(b))


def check_bf(G, centers, d, m, p, rtol=0):
    """d, m, p are shortest-path distances / nearest-centre indices / predecessors for the weighted graph G (exact, in
    Fractions).  rtol > 0 is for weights whose float sums are rounded (decimal scalings): every comparison of path lengths
    is then made up to this relative tolerance and the label of the predecessor is not compared (near ties)."""
    n = G.shape[0]
    rtol = frac(rtol)
    ref = shortest(G, centers)
    W = {}
    for i in range(n):
        for jj in range(G.indptr[i], G.indptr[i + 1]):
            j = int(G.indices[jj])
            w = frac(G.data[jj])
            W[(i, j)] = min(W.get((i, j), w), w)
    per_center = {}
    for j in range(n):
        if ref[j] is None:
            if np.isfinite(d[j]):
                return f'node {j} unreachable but distance {d[j]}'
            if m[j] != -1 or p[j] != -1:
                return f'node {j} unreachable but labelled'
            continue
        if not np.isfinite(d[j]) or not _eq(frac(d[j]), ref[j], rtol):
            return f'distance of node {j} is {d[j]}, shortest is {float(ref[j])!r} (= {ref[j]})'
        if not 0 <= m[j] < len(centers):
            return f'node {j}: nearest-centre index {m[j]} out of range'
        c = int(centers[m[j]])
        if c not in per_center:
            per_center[c] = dist_from(G, c)
        if per_center[c][j] is None or not _eq(per_center[c][j], ref[j], rtol):
            return (f'node {j}: labelled with centre {c} at distance {per_center[c][j] if per_center[c][j] is None else float(per_center[c][j])!r}, '
                    f'but nearest is at {float(ref[j])!r}')
        if j in [int(c) for c in centers] and ref[j] == 0:
            continue
        q = int(p[j])
        if q < 0 or (q, j) not in W:
            return f'node {j}: predecessor {q} is not a neighbour'
        if ref[q] is None or not _eq(ref[q] + W[(q, j)], ref[j], rtol):
            return f'node {j}: predecessor {q} is not on a shortest path'
        if m[q] != m[j] and not rtol:
            return (f'node {j} is labelled with centre index {int(m[j])} but its predecessor {q} with {int(m[q])}: the '
                    f'predecessor chain does not lead to the nearest centre the node is assigned to')
    return None


# ---------------------------------------------------------------- guarded execution of the balanced kernel

class _Guard:
    """Runs calls of the balanced Bellman-Ford code in a forked worker: the kernel's C++ `throw` (or heap corruption)
    cannot be caught through the ctypes shim and would otherwise take the whole check down.  `call` returns
    ('ok', result) / ('raised', 'ExcName: text') / ('crashed', 'signal k')."""

    def __init__(self):
        self.pid = None

    def _spawn(self):
        import os
        import pickle
        r1, w1 = os.pipe()
        r2, w2 = os.pipe()
        pid = os.fork()
        if pid == 0:
            try:
                os.close(w1)
                os.close(r2)
                fin = os.fdopen(r1, 'rb')
                fout = os.fdopen(w2, 'wb')
                while True:
                    try:
                        name, args = pickle.load(fin)
                    except EOFError:
                        break
                    try:
                        res = ('ok', _GUARDED[name](*args))
                    except Exception as ex:            # noqa: BLE001
                        res = ('raised', f'{type(ex).__name__}: {ex}')
                    pickle.dump(res, fout)
                    fout.flush()
            finally:
                os._exit(0)
        os.close(r1)
        os.close(w2)
        self.pid, self.fout, self.fin = pid, os.fdopen(w1, 'wb'), os.fdopen(r2, 'rb')

    def call(self, name, *args):
        import os
        import pickle
        if self.pid is None:
            self._spawn()
        try:
            pickle.dump((name, args), self.fout)
            self.fout.flush()
            return pickle.load(self.fin)
        except (EOFError, BrokenPipeError, pickle.UnpicklingError):
            _, status = os.waitpid(self.pid, 0)
            self.close(wait=False)
            return ('crashed', f'signal {os.WTERMSIG(status)}' if os.WIFSIGNALED(status) else f'exit status {status}')

    def close(self, wait=True):
        import os
        if self.pid is None:
            return
        for f in (self.fout, self.fin):
            try:
                f.close()
            except Exception:                          # noqa: BLE001
                pass
        if wait:
            try:
                os.waitpid(self.pid, 0)
            except ChildProcessError:
                pass
        self.pid = None


def _g_kernel(n, indptr, indices, data, centers, st, tb):
    from pyamg import amg_core
    st = tuple(a.copy() for a in st)
    ch = amg_core.bellman_ford_balanced(n, indptr, indices, data, centers, *st, tb)
    return st, bool(ch)


def _g_public(G, centers, method, tb):
    import pyamg.graph as PG
    return PG.bellman_ford(G, centers, method=method, tiebreaking=tb)


_GUARDED = {'kernel': _g_kernel, 'public': _g_public}


# ---------------------------------------------------------------- weight scalings

TOL = 1e-14          # bellman_ford_balanced's `const double tol` (an ABSOLUTE tolerance)


def _trunc20(x):
    """x cut to 20 mantissa bits: small multiples of it and their sums (any order) are exact in binary64"""
    import math
    mant, e = math.frexp(x)
    return math.ldexp(math.floor(mant * 2**20), e - 20)


# scalings under which float arithmetic on small multiples of the scale stays exact (exact oracle, exact model comparison)
SC_EXACT = (2.0**-45, _trunc20(1e-15), 2.0**20, 2.0**-50, _trunc20(1e-14), 2.0**-40, 2.0**-60, _trunc20(1e-16), 2.0**60,
            2.0**-70, _trunc20(1e-13), 2.0**-200, _trunc20(1e-18), 2.0**40, _trunc20(1e-12), 2.0**200, _trunc20(1e12))
# ... that fit binary32 as well (the weights are passed as float32 there)
SC_EXACT32 = (2.0**-50, 2.0**-70, 1.0, 2.0**-45, 2.0**40, 2.0**-60)
# decimal scalings: sums of the weights are rounded, judged with the relative tolerance RTOL_DEC
SC_DEC = (1e-15, 1e-12, 1e-14, 1e-3, 1e-16, 1e-13, 1e-18, 1e12, 1e-17)
RTOL_DEC = 1e-9
# the balanced kernel: weights must be multiples of some h with 2*tol < h (E20 theorems; below that the kernel's absolute
# tolerance ignores improvements of a path).  The base weights are multiples of 0.5, so a scale s needs 0.5*s > 2*tol.
SC_BAL = tuple(sc for sc in (2.0**-44, 2.0**-43, 2.0**-30) + SC_EXACT if 0.5 * sc > 2 * TOL)
# ... and below that: the weight grid h = gcd of the weights is then usually <= 2^-46, where the balanced variant is the
# known finding `balanced-bf-absolute-tolerance`; when the drawn weights happen to lie on a grid h >= 2^-45 the theorems apply
SC_BAL_TINY = (2.0**-45, 2.0**-50, _trunc20(1e-15), 2.0**-60, 2.0**-200, _trunc20(1e-18), 2.0**-47)
FKEY_BAL = 'balanced-bf-absolute-tolerance'


def _grid(data):
    """the largest h such that every positive weight is an integer multiple of h (exact; None without positive weights)"""
    import math
    from fractions import Fraction
    fs = [frac(v) for v in np.asarray(data).ravel() if v > 0]
    if not fs:
        return None
    den = 1
    for f in fs:
        den = den * f.denominator // math.gcd(den, f.denominator)
    g = 0
    for f in fs:
        g = math.gcd(g, f.numerator * (den // f.denominator))
    return Fraction(g, den)


def _bal_fkey(balanced, data):
    """key of the known finding iff the input is the listed one: BALANCED variant and weight grid h <= 2^-46 (decided from
    the input alone); the standard variant at any scale and the balanced one on a grid h >= 2^-45 stay unlisted"""
    from fractions import Fraction
    h = _grid(data)
    return FKEY_BAL if balanced and h is not None and h <= Fraction(1, 2**46) else None


# ---------------------------------------------------------------- graph streams

def graph_stream(ctx, nmax_exh, n_rand, nmax_rand):
    for n in range(1, nmax_exh + 1):
        for M in gen.all_graphs(n):
            yield M, f'all{n}'
    rng = ctx.np_rng
    for _ in range(n_rand):
        n = int(rng.integers(1, nmax_rand + 1))
        M, kind = gen.rand_graph(rng, n)
        yield M, kind


def loop_stream(nmax):
    """every labelled graph on <= nmax vertices with every non-empty subset of self loops (stored diagonal entries)"""
    for n in range(1, nmax + 1):
        for M in gen.all_graphs(n):
            for bits in range(1, 1 << n):
                L = M.copy()
                for i in range(n):
                    if bits >> i & 1:
                        L[i, i] = 1
                yield L, f'loops{n}'


ALT_FMTS = ('csc', 'dense', 'csr-unsorted', 'coo')


def _variants(ctx, graphs):
    """(adjacency incl. self loops, kind, input format) for the public-API part: exhaustive graphs are passed as CSR and in
    one more input form; the random ones get self loops on all / some vertices and cycle through the input forms"""
    rng = ctx.np_rng
    for t, (M, kind) in enumerate(graphs):
        M = np.array(M)
        n = M.shape[0]
        if kind == 'replay':
            for fmt in ('csr',) + ALT_FMTS:
                yield M, kind, fmt
        elif kind.startswith('all') or kind.startswith('loops'):
            yield M, kind, 'csr'
            yield M, kind, ALT_FMTS[t % 4]
        else:
            if t % 4 == 0:
                M = M + np.eye(n, dtype=int)                       # self loops / stored diagonal everywhere
            elif t % 4 == 2:
                M = M + np.diag(rng.integers(0, 2, size=n))        # ... on some vertices
            yield M, kind, ('csr', 'csc', 'csr', 'dense', 'csr-unsorted', 'coo')[t % 6]


def _as_fmt(G, fmt, rng):
    """the graph of the CSR array G in another input form accepted by pyamg.graph (same edges, same weights)"""
    if fmt == 'csc':
        H = sp.csc_array(G)
        H.indptr = H.indptr.astype(np.int32)
        H.indices = H.indices.astype(np.int32)
        return H
    if fmt == 'dense':
        return G.toarray()
    if fmt == 'coo':
        return sp.coo_array(G)
    if fmt == 'csr-unsorted' and G.nnz:
        ip, ix, dx = G.indptr, G.indices.copy(), G.data.copy()
        for i in range(G.shape[0]):
            q = rng.permutation(ip[i + 1] - ip[i]) + ip[i]
            ix[ip[i]:ip[i + 1]] = ix[q]
            dx[ip[i]:ip[i + 1]] = dx[q]
        return sp.csr_array((dx, ix, ip), shape=G.shape)
    return G


def check_nearest(G, centers, cl, rtol=0):
    """cluster ids `cl` are nearest-centre labels for the centre list `centers` (ties: any nearest centre), -1 iff no
    centre is reachable"""
    n = G.shape[0]
    rtol = frac(rtol)
    ref = shortest(G, centers)
    per = {}
    for j in range(n):
        if ref[j] is None:
            if cl[j] != -1:
                return f'node {j} cannot be reached from a centre but is labelled {int(cl[j])}'
            continue
        if not 0 <= cl[j] < len(centers):
            return f'node {j}: cluster id {int(cl[j])} out of range'
        c = int(centers[cl[j]])
        if c not in per:
            per[c] = dist_from(G, c)
        if per[c][j] is None or not _eq(per[c][j], ref[j], rtol):
            return (f'node {j} is in the cluster of centre {c} at distance {per[c][j] if per[c][j] is None else float(per[c][j])!r}, '
                    f'the nearest centre is at {float(ref[j])!r}')
    return None


def check_interior(G, cl, cs, rtol=0):
    """the returned centre of every cluster is a most interior node of it: its distance to the nearest boundary node (a
    node with a neighbour in another cluster) is the largest one in the cluster (what most_interior_nodes promises;
    clusters without a boundary node keep any centre)"""
    n = G.shape[0]
    rtol = frac(rtol)
    bnd = [i for i in range(n)
           if any(cl[int(j)] != cl[i] for j in G.indices[G.indptr[i]:G.indptr[i + 1]])]
    db = shortest(G, bnd)
    for a, c in enumerate(cs):
        mem = [i for i in range(n) if cl[i] == a]
        if any(db[i] is None for i in mem):
            if db[c] is not None:
                return f'cluster {a}: node at infinite distance from the boundary exists, centre {c} is at {float(db[c])!r}'
            continue
        far = max(db[i] for i in mem)
        if not (db[c] == far or (rtol and _eq(db[c], far, rtol))):
            return (f'centre {c} of cluster {a} is at distance {float(db[c])!r} from the cluster boundary, node '
                    f'{max(mem, key=lambda i: db[i])} is at {float(far)!r}: not a most interior node')
    return None


# ---------------------------------------------------------------- part A: kernels vs Lean models

def part_a(ctx, graphs, with_variants=True):
    from pyamg import amg_core
    rng = ctx.np_rng
    items = []
    bf_runs = {}
    for t, (M, kind) in enumerate(graphs):
        M = np.array(M)
        n = M.shape[0]
        if with_variants and kind not in ('all1', 'all2', 'all3', 'all4', 'all5', 'all6'):
            if t % 5 == 0:
                M = M + np.diag(rng.integers(0, 2, size=n))     # some self loops
            if t % 7 == 0:
                M = M * (rng.random((n, n)) < 0.8)               # some nonsymmetric (kernel correspondence only)
        G = _csr((M != 0).astype(float))
        ap, aj = G.indptr, G.indices
        hdr = f'{n} {enc_ints(ap)} {enc_ints(aj)}'
        has_edge = bool((M - np.diag(np.diag(M))).any())

        def add(line, out, what):
            items.append((line, out, what, kind, has_edge))
        x = np.full(n, -1, dtype=np.int32)
        amg_core.maximal_independent_set_serial(n, ap, aj, -1, 1, 0, x)
        add('mis_serial ' + hdr, enc_ints(x), 'mis_serial')
        add('p_mis_serial ' + hdr, enc_ints(x), 'p_mis_serial')
        y = rng.integers(0, 6, size=n).astype(float)          # many ties on purpose
        x = np.full(n, -1, dtype=np.int32)
        amg_core.maximal_independent_set_parallel(n, ap, aj, -1, 1, 0, x, y, -1)
        add(f'mis_par {hdr} {enc_ints(y)}', enc_ints(x), 'mis_parallel')
        add(f'p_mis_par {hdr} {enc_ints(y)}', enc_ints(x), 'p_mis_parallel')
        x = np.full(n, -7, dtype=np.int32)
        amg_core.vertex_coloring_mis(n, ap, aj, x)
        add('color_mis ' + hdr, enc_ints(x), 'color_mis')
        add('p_color_mis ' + hdr, enc_ints(x), 'p_color_mis')
        x = np.full(n, -7, dtype=np.int32)
        amg_core.connected_components(n, ap, aj, x)
        add('cc ' + hdr, enc_ints(x), 'cc')
        add('p_cc ' + hdr, enc_ints(x), 'p_cc')
        seed = int(rng.integers(0, n))
        order = np.full(n, -9, dtype=np.int32)
        level = np.full(n, -1, dtype=np.int32)
        amg_core.breadth_first_search(ap, aj, seed, order, level)
        add(f'bfs {hdr} {seed}', enc_ints(order) + ';' + enc_ints(level), 'bfs')
        add(f'p_bfs {hdr} {seed}', enc_ints(level), 'p_bfs')
        # Bellman-Ford on positive dyadic weights with ties
        Wt = G.copy()
        Wt.data = rng.choice([0.5, 1.0, 1.0, 2.0, 1.5], size=G.nnz)
        k = int(rng.integers(1, min(n, 3) + 1))
        centers = rng.choice(n, size=k, replace=False).astype(np.int32)
        d = np.full(n, np.inf)
        m = np.full(n, -1, dtype=np.int32)
        p = np.full(n, -1, dtype=np.int32)
        d[centers] = 0
        m[centers] = np.arange(k)
        d0 = ','.join('inf' if not np.isfinite(v) else enc_rat(v) for v in d)
        line = f'bf {n} {enc_ints(ap)} {enc_ints(aj)} {enc_rats(Wt.data)} {d0} {enc_ints(m)} {enc_ints(p)}'
        amg_core.bellman_ford(n, ap, aj, Wt.data, centers, d, m, p)
        dd = ','.join('inf' if not np.isfinite(v) else enc_rat(v) for v in d)
        add(line, dd + ';' + enc_ints(m) + ';' + enc_ints(p) + ';true', 'bellman_ford')
        bf_runs[line] = (Wt, centers, d, m, p)
        # ... and on the same weights in another unit of length (tiny / huge scalings under which float sums stay exact,
        # so the model on rationals must still be met exactly); other centres
        sc = SC_EXACT[t % len(SC_EXACT)]
        Ws = G.copy()
        Ws.data = Wt.data * sc
        k = int(rng.integers(1, min(n, 3) + 1))
        centers = rng.choice(n, size=k, replace=False).astype(np.int32)
        d = np.full(n, np.inf)
        m = np.full(n, -1, dtype=np.int32)
        p = np.full(n, -1, dtype=np.int32)
        d[centers] = 0
        m[centers] = np.arange(k)
        line = f'bf {n} {enc_ints(ap)} {enc_ints(aj)} {enc_rats(Ws.data)} {_enc_d(d)} {enc_ints(m)} {enc_ints(p)}'
        amg_core.bellman_ford(n, ap, aj, Ws.data, centers, d, m, p)
        add(line, _enc_d(d) + ';' + enc_ints(m) + ';' + enc_ints(p) + ';true', 'bellman_ford(scaled weights)')
        ctx.feat(f'kernel_bf_scale:{sc:.3g}')
        bf_runs[line] = (Ws, centers, d, m, p)
        # kernels that take weights, called directly with TIED weights (the wrappers only pass random reals)
        Ms = np.array(M)
        if (Ms == Ms.T).all():
            adj = adj_lists(G)
            yt = rng.integers(0, 3, size=n).astype(float)
            kk = int(rng.integers(1, 4))
            x = np.zeros(n, dtype=np.int32)
            amg_core.maximal_independent_set_k_parallel(n, ap, aj, kk, x, yt, -1)
            # exact comparison with the Lean model G.misK (theorem mis_k_total is about this model)
            add(f'ext_mis_k {hdr} {enc_ints(yt)} {kk}', enc_ints(x), 'ext_mis_k')
            ctx.case(key=_key('mis_k_kernel', hdr, kk, yt.tobytes()), nontrivial=has_edge)
            ctx.feat('kernel:mis_k_parallel(tied weights)')
            e = check_mis(adj, x, k=kk)
            if e:
                ctx.violation(f'maximal_independent_set_k_parallel(k={kk}) with tied weights {yt.tolist()}: {e}; result {x.tolist()}',
                              {'M': Ms.tolist(), 'routine': 'mis_k_kernel', 'k': kk, 'weights': yt.tolist()})
            if t % 3 == 0:
                # bounded number of outer iterations, weights that may be <= -1 (the marker value): kernel vs model only
                yb = rng.integers(-3, 2, size=n).astype(float)
                mi = int(rng.integers(0, 4))
                x = np.zeros(n, dtype=np.int32)
                amg_core.maximal_independent_set_k_parallel(n, ap, aj, kk, x, yb, mi)
                add(f'ext_mis_k_iters {hdr} {enc_ints(yb)} {kk} {mi}', enc_ints(x), 'ext_mis_k(max_iters)')
            for nm, fn, op in (('jones_plassmann', amg_core.vertex_coloring_jones_plassmann, 'ext_color_jp'),
                               ('LDF', amg_core.vertex_coloring_LDF, 'ext_color_ldf')):
                z = rng.integers(-1 if nm == 'LDF' else 0, 3, size=n).astype(float)
                z0 = z.copy()
                x = np.full(n, -5, dtype=np.int32)
                ret = fn(n, ap, aj, x, z)
                # exact comparison (colours and returned max colour) with the Lean models G.coloringJP / G.coloringLDF
                add(f'{op} {hdr} {enc_ints(z0)}', enc_ints(x) + ';' + str(int(ret)), op)
                ctx.case(key=_key(nm, hdr, z0.tobytes()), nontrivial=has_edge)
                ctx.feat(f'kernel:coloring_{nm}(tied weights)')
                e = check_coloring(adj, x)
                if e:
                    ctx.violation(f'vertex_coloring_{nm} with tied weights {z0.tolist()}: {e}; result {x.tolist()}',
                                  {'M': Ms.tolist(), 'routine': 'coloring_kernel_' + nm, 'weights': z0.tolist()})
    outs = ctx.lean([it[0] for it in items])
    for (line, out, what, kind, has_edge), o in zip(items, outs):
        ctx.case(key=_key(line), nontrivial=has_edge, sample={'request': line[:200], 'model': o[:100], 'impl': out[:100]})
        ctx.feat('kernel:' + what)
        ctx.feat('graph:' + kind)
        if o != out:
            ctx.corr('kernel ' + what, {'line': line}, o, out)
            if line in bf_runs:
                # the property itself on the kernel's output (the pattern may be nonsymmetric here: directed shortest paths)
                Wg, centers, d, m, p = bf_runs[line]
                e = check_bf(Wg, centers, d, m, p)
                if e:
                    ctx.violation(f'kernel bellman_ford (centers={centers.tolist()}, weights between '
                                  f'{float(Wg.data.min()) if Wg.nnz else 0.0!r} and {float(Wg.data.max()) if Wg.nnz else 0.0!r}): {e}',
                                  {'routine': 'bf_kernel', 'n': int(Wg.shape[0]), 'indptr': Wg.indptr.tolist(),
                                   'indices': Wg.indices.tolist(), 'data': Wg.data.tolist(), 'centers': centers.tolist(),
                                   'M': (Wg.toarray() != 0).astype(int).tolist()})


# ---------------------------------------------------------------- part B: public API judged by the spec

def part_b(ctx, graphs):
    import pyamg.graph as PG
    rng = ctx.np_rng
    guard = _Guard()
    lean_lines, lean_meta = [], []
    for t, (M, kind, fmt) in enumerate(_variants(ctx, graphs)):
        n = M.shape[0]
        Gc = _csr((M != 0).astype(float))         # the reference form (checkers, Lean lines)
        G = _as_fmt(Gc, fmt, rng)                 # what the public functions are given
        adj = adj_lists(Gc)
        has_edge = any(adj)
        case0 = {'M': M.tolist(), 'format': fmt}
        ctx.feat('api_format:' + fmt)
        if M.diagonal().any():
            ctx.feat('api_graph:self loops')

        def viol(what, extra=None, fkey=None):
            ctx.violation(what + f' [input format {fmt}]', {**case0, **(extra or {})}, fkey=fkey)

        def reg(name, **kw):
            ctx.case(key=_key(name, M.tobytes(), fmt, sorted(kw.items())), nontrivial=has_edge,
                     sample={'routine': name, 'n': n, 'graph': kind, 'format': fmt, **kw} if ctx.evaluations % 997 == 0 else None)
            ctx.feat('api:' + name)
        # --- MIS: the whole option grid algo x k, each judged at the distance actually requested
        for algo in ('serial', 'parallel'):
            for k in (None, 1, 2, 3, 4):
                np.random.seed(int(rng.integers(2**31)))
                kw = {'algo': algo} if k is None else {'algo': algo, 'k': k}
                if algo == 'serial' and t % 2:
                    del kw['algo']                # the default spelled out / left out
                x = PG.maximal_independent_set(G, **kw)
                reg('mis' if k is None else 'mis_k', **kw)
                ctx.feat(f'mis_grid:{algo}:k={k}')
                e = None if len(x) == n else f'result has length {len(x)}'
                e = e or check_mis(adj, x, k=k or 1)
                if e:
                    viol(f'maximal_independent_set({", ".join(f"{a}={b!r}" for a, b in kw.items())}): {e}; '
                         f'result {list(map(int, x))}', {'routine': 'mis', **kw})
                if k is None:
                    lean_lines.append(f'check_mis {n} {enc_ints(Gc.indptr)} {enc_ints(Gc.indices)} {enc_ints(x)}')
                    lean_meta.append((algo, case0, x))
        # --- colourings
        for method in ('MIS', 'JP', 'LDF'):
            np.random.seed(int(rng.integers(2**31)))
            c = PG.vertex_coloring(G, **({} if method == 'MIS' and t % 2 else {'method': method}))
            reg('coloring', method=method)
            e = check_coloring(adj, c)
            if e:
                viol(f'vertex_coloring(method={method}): {e}; result {list(map(int, c))}', {'routine': 'coloring', 'method': method})
        # --- components
        comp = PG.connected_components(G)
        reg('cc')
        ncomp, lab = csgraph.connected_components(sp.csr_array(Gc), directed=False)
        same = len(comp) == n and all((comp[i] == comp[j]) == (lab[i] == lab[j]) for i in range(n) for j in range(i))
        if not same or sorted(set(int(v) for v in comp)) != list(range(ncomp)):
            viol(f'connected_components: labels {list(map(int, comp))} do not describe the components {lab.tolist()}', {'routine': 'cc'})
        # --- BFS: every seed on small graphs, a few on the larger ones
        Gs = sp.csr_array(Gc.copy())
        Gs.data[:] = 1.0

        def judge_bfs(what, seed, order, level, extra):
            ref = csgraph.shortest_path(Gs, directed=False, unweighted=True, indices=seed) if n > 0 else np.zeros(0)
            lvl_ref = [-1 if not np.isfinite(v) else int(v) for v in ref]
            reach = [i for i in range(n) if lvl_ref[i] >= 0]
            if list(map(int, level)) != lvl_ref:
                viol(f'{what}: levels {list(map(int, level))} != hop counts {lvl_ref} from node {seed}', extra)
            else:
                o = [int(v) for v in order[:len(reach)]]
                if sorted(o) != reach or any(lvl_ref[o[a]] > lvl_ref[o[a + 1]] for a in range(len(o) - 1)) or (o and o[0] != seed):
                    viol(f'{what}: order {o} is not a level-ordered listing of the set reachable from node {seed}', extra)
        seeds = list(range(n)) if n <= 6 else sorted(set(int(v) for v in rng.integers(0, n, size=3)))
        for seed in seeds:
            sarg = (seed, np.int32(seed), np.int64(seed))[(t + seed) % 3]
            order, level = PG.breadth_first_search(G, sarg)
            reg('bfs', seed=seed)
            judge_bfs(f'breadth_first_search(seed={seed})', seed, order, level, {'routine': 'bfs', 'seed': seed})
        # --- Bellman-Ford (symmetric positive weights with ties; a self loop carries a positive weight as well):
        #     methods x tiebreaking, centres given as list / int64 array / int32 array
        Wm = np.triu(M != 0, 0) * rng.choice([0.5, 1.0, 1.0, 2.0, 3.0], size=(n, n))
        Wm = Wm + np.triu(Wm, 1).T
        Gwc = _csr(Wm)
        Gw = _as_fmt(Gwc, fmt, rng)
        k = int(rng.integers(1, min(n, 3) + 1))
        centers = rng.choice(n, size=k, replace=False).astype(np.int32)
        carg = (centers.tolist(), centers.astype(np.int64), centers.copy())[t % 3]
        for method, tb in (('standard', None), ('standard', False), ('balanced', True), ('balanced', False)):
            kw = {'method': method} if tb is None else {'method': method, 'tiebreaking': tb}
            if method == 'standard' and tb is None and t % 2:
                kw = {}
            reg('bellman_ford', k=k, **kw)
            ctx.feat(f'bf_grid:{method}:tiebreaking={tb}')
            extra = {'routine': 'bellman_ford', 'W': Wm.tolist(), 'centers': centers.tolist(), **kw}
            if method == 'balanced':
                status, res = guard.call('public', Gw, carg, method, tb)
                if status != 'ok':
                    viol(f'bellman_ford(centers={centers.tolist()}, {kw}) on positive weights did not return: {status} {res}', extra)
                    continue
                d, m, p = res
            else:
                d, m, p = PG.bellman_ford(Gw, carg, **kw)
            e = check_bf(Gwc, centers, d, m, p) if len(d) == len(m) == len(p) == n else 'results of wrong length'
            if e:
                viol(f'bellman_ford(centers={centers.tolist()}, {kw}): {e}', extra)
        # --- the same weights scaled down / up (shortest paths do not depend on the unit of length): tiny and huge dyadic
        #     scalings and 20-bit decimal ones (float sums exact: exact oracle), true decimal ones (rounded sums: relative
        #     tolerance), binary32 weights; the balanced method only on scalings its absolute tolerance admits (SC_BAL)
        if kind == 'replay':
            plan = ([('standard', sc, 'exact', np.float64) for sc in SC_EXACT] + [('standard', sc, 'dec', np.float64) for sc in SC_DEC]
                    + [('standard', sc, 'exact', np.float32) for sc in SC_EXACT32] + [('balanced', sc, 'exact', np.float64) for sc in SC_BAL + SC_BAL_TINY])
        else:
            plan = [('standard', SC_EXACT[t % len(SC_EXACT)], 'exact', np.float64),
                    ('standard', SC_DEC[t % len(SC_DEC)], 'dec', np.float64),
                    ('balanced', SC_BAL[t % len(SC_BAL)], 'exact', np.float64)]
            if t % 2 == 0:
                plan.append(('balanced', SC_BAL_TINY[(t // 2) % len(SC_BAL_TINY)], 'exact', np.float64))
            if t % 3 == 0:
                plan.append(('standard', SC_EXACT32[(t // 3) % len(SC_EXACT32)], 'exact', np.float32))
        scaled = {}
        for pi, (method, sc, how, dt) in enumerate(plan):
            Gsc = _csr(Wm * sc)
            if dt is np.float32:
                Gsc = Gsc.astype(np.float32)
            Gsf = _as_fmt(Gsc, fmt, rng)
            Gsc = Gsc.astype(np.float64)
            scaled[('bal' if method == 'balanced' else how, pi)] = (sc, Gsc, Gsf)
            tb = bool((t + pi) % 2)
            kw = {'method': method, 'tiebreaking': tb} if method == 'balanced' or t % 2 else {}
            rt = RTOL_DEC if how == 'dec' else 0
            reg('bellman_ford_scaled', k=k, scale=sc, dtype=dt.__name__, **kw)
            ctx.feat(f'bf_scale:{method}:{dt.__name__}:{sc:.3g}({how})')
            extra = {'routine': 'bellman_ford', 'W': (Wm * sc).tolist(), 'scale': sc, 'dtype': dt.__name__,
                     'centers': centers.tolist(), **kw}
            if method == 'balanced':
                status, res = guard.call('public', Gsf, carg, method, tb)
                if status != 'ok':
                    viol(f'bellman_ford(centers={centers.tolist()}, {kw}) on positive weights (multiples of {0.5 * sc!r}) did '
                         f'not return: {status} {res}', extra)
                    continue
                d, m, p = res
            else:
                d, m, p = PG.bellman_ford(Gsf, carg, **kw)
            e = check_bf(Gsc, centers, d, m, p, rtol=rt) if len(d) == len(m) == len(p) == n else 'results of wrong length'
            if e:
                h = float(_grid(Gsc.data) or 0)
                viol(f'bellman_ford(centers={centers.tolist()}, {kw}) with {dt.__name__} weights on the grid h = {h!r}'
                     f'{f" (2^{float(np.log2(h)):.4g})" if h else ""}: {e}', extra, fkey=_bal_fkey(method == 'balanced', Gsc.data))
        # --- Lloyd clustering: the cluster ids are nearest-centre labels for the centres the last sweep started from,
        #     i.e. the centres returned with one sweep less; the returned centre of a cluster lies in that cluster and is a
        #     most interior node of it; on the weights as drawn and (4th run; all scalings on replay) on scaled weights
        lplan = [(mi, None) for mi in ((1, 2, 5) if t % 2 else (1, 3, None))]
        cands = [key for key in sorted(scaled) if key[0] != 'bal']
        lplan += [((1, 2, 3, None)[(t // 2) % 4], key) for key in (cands if kind == 'replay' else [cands[(t // 3) % len(cands)]])]
        for mi, skey in lplan:
            by_count = (t + (mi or 0)) % 3 == 0                   # `centers` = number of clusters (drawn by the library)
            Gl, lkind = Gw, 'real'
            Glc, lrt, lsc = Gwc, 0, 1.0
            if skey is not None:
                lsc, Glc, Gl = scaled[skey]
                lrt = RTOL_DEC if skey[0] == 'dec' else 0
                lkind = f'real*{lsc:.3g}' + ('' if Gl.dtype == np.float64 else ':' + str(Gl.dtype))
            if (t + (mi or 0)) % 5 == 0 and fmt in ('csr', 'csc') and Gl.dtype == np.float64:
                Gl, lkind = Gl.astype(complex), lkind.replace('real', 'complex')   # complex weights: abs(G) is the graph
                Gl.data = Gl.data * (1j, -1.0, 0.6 + 0.8j, 1.0)[t % 4]
            sd = int(rng.integers(2**31))

            def lloyd(maxiter):
                np.random.seed(sd)
                c0 = k if by_count else centers.tolist()
                return PG.lloyd_cluster(Gl, c0) if maxiter is None else PG.lloyd_cluster(Gl, c0, maxiter=maxiter)
            reg('lloyd', k=k, maxiter=mi, by_count=by_count, weights=lkind)
            ctx.feat(f'lloyd:maxiter={mi}:{"count" if by_count else "list"}:{lkind}')
            extra = {'routine': 'lloyd', 'W': (Wm * lsc).tolist(), 'centers': k if by_count else centers.tolist(), 'maxiter': mi,
                     'np_seed': sd, 'weights': lkind}
            try:
                cl, cs = lloyd(mi)
                _, cprev = lloyd((5 if mi is None else mi) - 1)
            except Exception as ex:                                # noqa: BLE001
                viol(f'lloyd_cluster(centers={extra["centers"]}, maxiter={mi}) raised {type(ex).__name__}: {ex}', extra)
                continue
            cs = [int(v) for v in cs]
            e = None
            if len(cl) != n or len(cs) != k or len(set(cs)) != k or not all(0 <= v < n for v in cs):
                e = f'{k} clusters requested, returned centres {cs}, {len(cl)} labels'
            elif not by_count and mi == 1 and sorted(int(v) for v in cprev) != sorted(centers.tolist()):
                e = f'maxiter=0 returns the centres {list(map(int, cprev))}, given were {centers.tolist()}'
            e = e or check_nearest(Glc, [int(v) for v in cprev], cl, rtol=lrt)
            if not e and any(cl[cs[a]] != a for a in range(k)):
                e = f'returned centres {cs} do not lie in their own clusters'
            e = e or check_interior(Glc, cl, cs, rtol=lrt)
            if e:
                viol(f'lloyd_cluster(centers={extra["centers"]}, maxiter={mi}, {lkind} weights): {e}; clusters '
                     f'{list(map(int, cl))}, centres of the last sweep {list(map(int, cprev))}', extra)
        # --- pseudo_peripheral_node (CSR / CSC only): the returned order / levels are a BFS from the returned node
        if n >= 1:
            Gp = G if fmt in ('csr', 'csc', 'csr-unsorted') else Gc
            np.random.seed(int(rng.integers(2**31)))
            reg('ppn')
            try:
                x, order, level = PG.pseudo_peripheral_node(Gp)
                if not 0 <= int(x) < n:
                    viol(f'pseudo_peripheral_node: node {x} out of range', {'routine': 'ppn'})
                else:
                    judge_bfs(f'pseudo_peripheral_node (returned node {int(x)})', int(x), order, level, {'routine': 'ppn'})
            except Exception as ex:                                # noqa: BLE001
                viol(f'pseudo_peripheral_node raised {type(ex).__name__}: {ex}', {'routine': 'ppn'})
        # --- RCM: a symmetric permutation of the input (distinct diagonal makes the permutation visible)
        if n >= 1:
            A = (M != 0).astype(float) * rng.integers(1, 5, size=(n, n))
            A = np.triu(A, 1)
            A = A + A.T + np.diag(np.arange(1, n + 1) * 10.0)
            Ar = _as_fmt(_csr(A), fmt if fmt in ('csc', 'csr-unsorted') else 'csr', rng)
            reg('rcm')
            try:
                Bm = PG.symmetric_rcm(Ar).toarray()
                diag = np.diag(Bm)
                perm = [int(round(v / 10.0)) - 1 for v in diag]
                if sorted(perm) != list(range(n)) or not np.array_equal(Bm, A[np.ix_(perm, perm)]):
                    viol('symmetric_rcm: the result is not a symmetric permutation of the input', {'routine': 'rcm', 'A': A.tolist()})
            except Exception as ex:
                viol(f'symmetric_rcm raised {type(ex).__name__}: {ex}', {'routine': 'rcm', 'A': A.tolist()})
            if n <= 6:
                # no stored diagonal, so isolated vertices are empty rows; the random start may land anywhere:
                # the result must be P A P^T for SOME permutation P (brute force), for several RNG states
                A0 = np.triu((M != 0) * rng.integers(1, 9, size=(n, n)).astype(float), 1)
                A0 = A0 + A0.T
                Az = _csr(A0)
                perms = None
                for rep in range(3):
                    reg('rcm_nodiag')
                    np.random.seed(int(rng.integers(2**31)))
                    try:
                        Bz = PG.symmetric_rcm(Az)
                        ok = Bz.shape == (n, n)
                        if ok:
                            Bd = Bz.toarray()
                            if perms is None:
                                perms = [list(pp) for pp in itertools.permutations(range(n))]
                            ok = any(np.array_equal(Bd, A0[np.ix_(pp, pp)]) for pp in perms)
                        if not ok:
                            viol(f'symmetric_rcm on a matrix with {int((A0.sum(1) == 0).sum())} empty row(s): the result '
                                 f'(shape {Bz.shape}) is not a symmetric permutation of the input', {'routine': 'rcm_nodiag', 'A': A0.tolist()})
                            break
                    except Exception as ex:
                        viol(f'symmetric_rcm raised {type(ex).__name__}: {ex}', {'routine': 'rcm_nodiag', 'A': A0.tolist()})
                        break
    guard.close()
    outs = ctx.lean(lean_lines)
    for (algo, case0, x), o in zip(lean_meta, outs):
        ctx.feat('lean_checker:mis')
        if o != 'ok':
            ctx.violation(f'maximal_independent_set(algo={algo}) rejected by the proved checker checkMIS: result {list(map(int, x))}',
                          {**case0, 'routine': 'mis', 'algo': algo})


# ---------------------------------------------------------------- part C (E20): balanced Bellman-Ford and RCM vs Lean models

# TOL (the kernel's `const double tol`) and the admissible scalings SC_BAL are defined above (weight scalings)


def _enc_d(d):
    return ','.join('inf' if not np.isfinite(v) else enc_rat(v) for v in d) if len(d) else '-'


def _bal_state(n, centers, init):
    k = len(centers)
    d = np.full(n, np.inf)
    m = np.full(n, -1, dtype=np.int32)
    p = np.full(n, -1, dtype=np.int32)
    pc = np.zeros(n, dtype=np.int32)
    s = np.ones(k, dtype=np.int32)
    d[centers] = 0
    m[centers] = np.arange(k)
    if init == 'lloyd':            # the initialisation of balanced_lloyd_cluster: a centre is its own predecessor
        p[centers] = centers
        pc[centers] = 1
    return d, m, p, pc, s


def _bal_line(G, tb, st):
    d, m, p, pc, s = st
    return (f'ext_c18_bfbal {G.shape[0]} {enc_ints(G.indptr)} {enc_ints(G.indices)} {enc_rats(G.data)} {enc_rat(TOL)} '
            f'{int(tb)} {_enc_d(d)} {enc_ints(m)} {enc_ints(p)} {enc_ints(pc)} {enc_ints(s)}')


def _bal_out(st, changed):
    d, m, p, pc, s = st
    return ';'.join([_enc_d(d), enc_ints(m), enc_ints(p), enc_ints(pc), enc_ints(s), 'true' if changed else 'false'])


def part_c_bal(ctx, graphs):
    """kernel `bellman_ford_balanced` and the public wrapper vs Model/ExtC18Bal.lean (exact).  The model is asked
    FIRST: the real kernel is only run where the model predicts a regular exit (an out-of-bounds access or the C++
    `throw` would take the process down through the ctypes shim)."""
    rng = ctx.np_rng
    cases = []
    for t, (M, kind) in enumerate(graphs):
        M = np.array(M)
        n = M.shape[0]
        sym = True
        if not kind.startswith('all') and t % 7 == 0:
            M = M * (rng.random((n, n)) < 0.8)                    # nonsymmetric pattern (correspondence only)
            sym = False
        if not kind.startswith('all') and t % 5 == 0:
            M = M + np.diag(rng.integers(0, 2, size=n))          # self loops
        pat = (M != 0)
        wkind = 'zero' if t % 6 == 5 else 'pos'
        vals = [0.5, 1.0, 1.0, 2.0, 1.5] if wkind == 'pos' else [0.0, 0.0, 1.0, 0.5]
        # every other graph in another unit of length: multiples of h = 0.5*scale with 2*tol < h (SC_BAL), float sums exact
        #     and every fourth graph below that (correspondence with the model still exact; the property is the known finding
        #     `balanced-bf-absolute-tolerance` when the drawn grid is <= 2^-46)
        bsc = 1.0 if t % 2 == 0 else SC_BAL_TINY[(t // 4) % len(SC_BAL_TINY)] if t % 4 == 3 else SC_BAL[(t // 4) % len(SC_BAL)]
        vals = [v * bsc for v in vals]
        ctx.feat(f'bal_scale:{bsc:.3g}')
        if sym:
            Wm = np.triu(pat, 0) * rng.choice(vals, size=(n, n))
            Wm = np.triu(Wm, 1) + np.triu(Wm, 0).T
        else:
            Wm = pat * rng.choice(vals, size=(n, n))
        # explicit CSR so that zero weights stay stored entries
        G = _csr(pat.astype(float))
        G.data = np.array([Wm[i, j] for i in range(n) for j in G.indices[G.indptr[i]:G.indptr[i + 1]]], dtype=float)
        k = int(rng.integers(1, min(n, 3) + 1))
        centers = rng.choice(n, size=k, replace=False).astype(np.int32)
        has_edge = bool((pat & ~np.eye(n, dtype=bool)).any())
        for tb in (True, False):
            for init in (('wrapper', 'lloyd') if t % 2 == 0 else ('wrapper',)):
                cases.append(dict(kind=kind, G=G, centers=centers, tb=tb, init=init, wkind=wkind, sym=sym, has_edge=has_edge,
                                  line=_bal_line(G, tb, _bal_state(n, centers, init))))
        # the public wrapper; now and then a repeated / negative centre (NumPy index semantics) and CSC input
        cw = centers.copy()
        if t % 9 == 0 and n >= 2:
            cw = np.append(cw, cw[0]).astype(np.int32)
        if t % 11 == 0:
            cw = np.append(cw, np.int32(-1 - int(rng.integers(0, n)))).astype(np.int32)
        Gin = G
        if t % 4 == 1:
            Gin = sp.csc_array(G)
            Gin.indptr = Gin.indptr.astype(np.int32)
            Gin.indices = Gin.indices.astype(np.int32)
        for tb in (True, False):
            cases.append(dict(kind=kind, G=Gin, centers=cw, tb=tb, init='public', wkind=wkind, sym=sym, has_edge=has_edge,
                              line=f'ext_c18_bfbal_w {n} {enc_ints(Gin.indptr)} {enc_ints(Gin.indices)} {enc_rats(Gin.data)} '
                                   f'{enc_rat(TOL)} {int(tb)} {enc_ints(cw)}'))
    outs = ctx.lean([c['line'] for c in cases])
    again = []
    guard = _Guard()

    def crashed(c, what, status, res, line):
        ctx.corr('kernel ' + what, {'line': line}, 'regular exit predicted', f'{status}: {res}')
        n = c['G'].shape[0]
        ctx.violation(f'bellman_ford_balanced ({c["init"]} initialisation, tiebreaking={c["tb"]}, centers={c["centers"].tolist()}, '
                      f'{c["wkind"]} weights) did not return where the model predicts a regular exit: {status} {res}',
                      {'routine': 'bf_balanced', 'init': c['init'] if c['init'] != 'public' else 'wrapper', 'tb': c['tb'], 'n': n,
                       'indptr': c['G'].indptr.tolist(), 'indices': c['G'].indices.tolist(), 'data': c['G'].data.tolist(),
                       'centers': [int(v) % n for v in c['centers']], 'M': (c['G'].toarray() != 0).astype(int).tolist()})

    for c, o in zip(cases, outs):
        G, centers, tb, n = c['G'], c['centers'], c['tb'], c['G'].shape[0]
        what = 'bf_balanced(' + c['init'] + ')'
        ctx.feat('kernel:' + what)
        ctx.feat('bal_weights:' + c['wkind'])
        if o in ('fault', 'too-many-iterations'):
            # the model predicts undefined behaviour / the C++ throw: the real kernel is NOT run on this input
            ctx.feat(f'bal_model_predicts:{o}:{c["wkind"]}:{c["init"]}')
            continue
        ctx.case(key=_key(c['line']), nontrivial=c['has_edge'],
                 sample={'request': c['line'][:200], 'model': o[:100]} if ctx.evaluations % 499 == 0 else None)
        if c['init'] == 'public':
            Gk = sp.csr_array((G.data, G.indices, G.indptr), shape=G.shape)   # the graph the kernel sees
            status, res = guard.call('public', G, centers, 'balanced', tb)
            if status == 'raised' and res.split(':')[0] in ('ValueError', 'IndexError'):
                if o != res.split(':')[0]:
                    ctx.corr('kernel ' + what, {'line': c['line']}, o, res)
                continue
            if status != 'ok':
                crashed(c, what, status, res, c['line'])
                continue
            d, m, p = res
            out = ';'.join([_enc_d(d), enc_ints(m), enc_ints(p)])
        else:
            status, res = guard.call('kernel', n, G.indptr, G.indices, G.data, centers, _bal_state(n, centers, c['init']), tb)
            if status != 'ok':
                crashed(c, what, status, res, c['line'])
                continue
            st, ch = res
            out = _bal_out(st, ch)
            d, m, p = st[0], st[1], st[2]
            Gk = G
            again.append((c, tuple(a.copy() for a in st)))
        fk = _bal_fkey(True, G.data)
        if o != out:
            ctx.corr('kernel ' + what, {'line': c['line']}, o, out)
        if (o != out or fk) and c['wkind'] == 'pos' and len(set(int(v) % n for v in centers)) == len(centers):
            # the property itself on the real output (check_bf does not look at the predecessor of a centre); below the
            # grid the theorems need (fk: known finding) it is judged on every run, not only when the model is missed
            e = check_bf(Gk, np.array([int(v) % n for v in centers]), d, m, p)
            if e:
                ctx.violation(f'bellman_ford_balanced ({c["init"]} initialisation, tiebreaking={tb}, centers={centers.tolist()}, '
                              f'weight grid h = {float(_grid(G.data) or 0)!r}): {e}',
                              {'routine': 'bf_balanced', 'init': c['init'] if c['init'] != 'public' else 'wrapper', 'tb': tb, 'n': n,
                               'indptr': Gk.indptr.tolist(), 'indices': Gk.indices.tolist(), 'data': Gk.data.tolist(),
                               'centers': [int(v) % n for v in centers], 'M': (Gk.toarray() != 0).astype(int).tolist()}, fkey=fk)
    # call history: the kernel called again on its own final state (as the Lloyd loop does)
    lines = [_bal_line(c['G'], c['tb'], st) for c, st in again]
    outs = ctx.lean(lines)
    for (c, st), line, o in zip(again, lines, outs):
        ctx.feat('kernel:bf_balanced(second call)')
        if o in ('fault', 'too-many-iterations'):
            ctx.feat(f'bal_model_predicts:{o}:{c["wkind"]}:second')
            continue
        ctx.case(key=_key(line), nontrivial=c['has_edge'])
        status, res = guard.call('kernel', c['G'].shape[0], c['G'].indptr, c['G'].indices, c['G'].data, c['centers'], st, c['tb'])
        if status != 'ok':
            crashed(c, 'bf_balanced(second call)', status, res, line)
            continue
        out = _bal_out(*res)
        if o != out:
            ctx.corr('kernel bf_balanced(second call)', {'line': line}, o, out)
    guard.close()


def part_c_rcm(ctx, graphs):
    """`symmetric_rcm` / `pseudo_peripheral_node` vs Model/ExtC18Rcm.lean: NumPy's global generator is replayed to obtain
    the start node, the permutation returned by the model must reproduce the real result exactly."""
    import pyamg.graph as PG
    rng = ctx.np_rng
    cases = []
    for t, (M, kind) in enumerate(graphs):
        M = np.array(M)
        n = M.shape[0]
        if n < 1:
            continue
        sym = True
        if not kind.startswith('all') and t % 7 == 3:
            M = M * (rng.random((n, n)) < 0.8)                    # nonsymmetric: correspondence only
            sym = False
        pat = (M != 0) & ~np.eye(n, dtype=bool)
        for variant in ('diag', 'nodiag'):
            A = pat * rng.integers(1, 9, size=(n, n)).astype(float)
            if sym:
                A = np.triu(A, 1)
                A = A + A.T
            if variant == 'diag':
                A = A + np.diag(np.arange(1, n + 1) * 10.0)       # distinct diagonal: the permutation is visible
            Ar = _csr(A)
            fmt = 'csr'
            if t % 3 == 0 and Ar.nnz:
                # rows stored in a shuffled order (unsorted indices change the traversal, not the contract)
                ip, ix, dx = Ar.indptr, Ar.indices.copy(), Ar.data.copy()
                for i in range(n):
                    q = rng.permutation(ip[i + 1] - ip[i]) + ip[i]
                    ix[ip[i]:ip[i + 1]] = ix[q]
                    dx[ip[i]:ip[i + 1]] = dx[q]
                Ar = sp.csr_array((dx, ix, ip), shape=(n, n))
                fmt = 'csr-unsorted'
            elif t % 4 == 1:
                Ar = sp.csc_array(Ar)
                Ar.indptr = Ar.indptr.astype(np.int32)
                Ar.indices = Ar.indices.astype(np.int32)
                fmt = 'csc'
            sd = int(rng.integers(2**31))
            np.random.seed(sd)
            x0 = int(np.random.rand() * n)
            hdr = f'{n} {enc_ints(Ar.indptr)} {enc_ints(Ar.indices)} {x0}'
            cases.append(dict(kind=kind, A=A, Ar=Ar, sd=sd, x0=x0, variant=variant, sym=sym, fmt=fmt, hdr=hdr,
                              has_edge=bool(pat.any())))
    outs = ctx.lean([op + c['hdr'] for c in cases for op in ('ext_c18_rcm ', 'ext_c18_ppn ')])
    for ci, c in enumerate(cases):
        o_rcm, o_ppn = outs[2 * ci], outs[2 * ci + 1]
        A, Ar, n = c['A'], c['Ar'], c['A'].shape[0]
        ctx.case(key=_key('rcm', c['hdr']), nontrivial=c['has_edge'],
                 sample={'request': 'ext_c18_rcm ' + c['hdr'][:160], 'model': o_rcm[:100]} if ctx.evaluations % 499 == 0 else None)
        ctx.feat('api:rcm(model)')
        ctx.feat('rcm_format:' + c['fmt'])
        ctx.feat('rcm_graph:' + ('symmetric' if c['sym'] else 'nonsymmetric'))
        case = {'routine': 'rcm_model', 'A': A.tolist(), 'M': (A != 0).astype(int).tolist(), 'seed': c['sd'], 'format': c['fmt']}
        # --- pseudo_peripheral_node
        np.random.seed(c['sd'])
        x, order, level = PG.pseudo_peripheral_node(Ar)
        cnt = int(np.count_nonzero(level >= 0))
        out = f'{int(x)};{enc_ints(order[:cnt])};{enc_ints(level)}'
        if o_ppn != out:
            ctx.corr('pseudo_peripheral_node', {'line': 'ext_c18_ppn ' + c['hdr']}, o_ppn, out)
        # --- symmetric_rcm
        np.random.seed(c['sd'])
        try:
            B = PG.symmetric_rcm(Ar).toarray()
        except Exception as ex:
            ctx.corr('symmetric_rcm', {'line': 'ext_c18_rcm ' + c['hdr']}, o_rcm, f'{type(ex).__name__}: {ex}')
            if c['sym']:
                ctx.violation(f'symmetric_rcm raised {type(ex).__name__}: {ex}', case)
            continue
        ok = o_rcm != 'none'
        if ok:
            pm = [int(v) for v in dec_list(o_rcm)]
            ok = all(0 <= v < n for v in pm) and np.array_equal(B, A[np.ix_(pm, pm)]) if B.shape == (len(pm), len(pm)) else False
            if ok and c['variant'] == 'diag' and c['sym']:
                ok = [int(round(v / 10.0)) - 1 for v in np.diag(B)] == pm
        if not ok:
            ctx.corr('symmetric_rcm', {'line': 'ext_c18_rcm ' + c['hdr']}, o_rcm, B.tolist())
            if c['sym']:
                # the property itself, judged independently: some symmetric permutation of the input
                good = B.shape == (n, n)
                if good and c['variant'] == 'diag':
                    perm = [int(round(v / 10.0)) - 1 for v in np.diag(B)]
                    good = sorted(perm) == list(range(n)) and np.array_equal(B, A[np.ix_(perm, perm)])
                elif good and n <= 7:
                    good = any(np.array_equal(B, A[np.ix_(pp, pp)]) for pp in itertools.permutations(range(n)))
                if not good:
                    ctx.violation('symmetric_rcm: the result is not a symmetric permutation of the input', case)


def part_known(ctx):
    """fixed corpus for the known finding `balanced-bf-absolute-tolerance`: W = [[0,1,4],[1,0,3],[4,3,0]] * 2^-46, centres
    [1, 0], balanced kernel and public wrapper (listed: node 2 keeps 4*2^-46); controls that must hold and are NOT listed
    (the key is decided by _bal_fkey from the input): the same graph on the grid 2^-45, and the standard method on both"""
    import pyamg.graph as PG
    guard = _Guard()
    W0 = np.array([[0, 1, 4], [1, 0, 3], [4, 3, 0]], dtype=float)
    centers = np.array([1, 0], dtype=np.int32)
    for ex in (-46, -45):
        G = _csr(W0 * 2.0**ex)
        base = {'n': 3, 'indptr': G.indptr.tolist(), 'indices': G.indices.tolist(), 'data': G.data.tolist(),
                'centers': centers.tolist(), 'M': (W0 != 0).astype(int).tolist()}
        for tb in (True, False):
            runs = [('kernel bellman_ford_balanced', True, {'routine': 'bf_balanced', 'init': 'wrapper', 'tb': tb, **base},
                     lambda: guard.call('kernel', 3, G.indptr, G.indices, G.data, centers, _bal_state(3, centers, 'wrapper'), tb)),
                    ("bellman_ford(method='balanced')", True, {'routine': 'bf_balanced', 'init': 'wrapper', 'tb': tb, **base},
                     lambda: guard.call('public', G, centers.tolist(), 'balanced', tb)),
                    ("bellman_ford(method='standard')", False, {'routine': 'bf_kernel', **base},
                     lambda: ('ok', PG.bellman_ford(G, centers.tolist(), method='standard', tiebreaking=tb)))]
            for name, bal, case, call in runs:
                ctx.case(key=_key('known-corpus', name, ex, tb), nontrivial=True)
                ctx.feat(f'corpus:{name}:h=2^{ex}')
                status, res = call()
                if status != 'ok':
                    ctx.violation(f'{name} (tiebreaking={tb}) on W*2^{ex}, centres [1, 0] did not return: {status} {res}', case)
                    continue
                d, m, p = res[0][:3] if name.startswith('kernel') else res
                e = check_bf(G, centers, d, m, p)
                if e:
                    ctx.violation(f'{name} (tiebreaking={tb}) on W = [[0,1,4],[1,0,3],[4,3,0]] * 2^{ex}, centres [1, 0]: {e}',
                                  case, fkey=_bal_fkey(bal, G.data))
    guard.close()


def part_c(ctx, graphs_bal, graphs_rcm):
    part_c_bal(ctx, graphs_bal)
    part_c_rcm(ctx, graphs_rcm)


def run(ctx):
    if ctx.quick:
        ga = list(graph_stream(ctx, 4, 260, 14))
        gb = list(graph_stream(ctx, 4, 160, 24))
    else:
        ga = list(graph_stream(ctx, 6, 4000, 40))
        gb = list(graph_stream(ctx, 5, 3000, 40))
    loops = list(loop_stream(3 if ctx.quick else 4))      # self loops exhaustively (kernels and public functions)
    part_known(ctx)
    part_a(ctx, ga + loops)
    part_b(ctx, gb + loops)
    if ctx.quick:
        part_c(ctx, list(graph_stream(ctx, 4, 200, 16)), list(graph_stream(ctx, 4, 200, 20)))
    else:
        part_c(ctx, list(graph_stream(ctx, 5, 3000, 40)), list(graph_stream(ctx, 5, 3000, 40)))


def search(ctx):
    part_b(ctx, list(loop_stream(3)) + list(graph_stream(ctx, 5, 1500, 30)))


def replay(ctx, data):
    case = data['case']
    if case.get('routine') == 'bf_balanced':
        from pyamg import amg_core
        n = int(case['n'])
        G = gen.csr_from_arrays(n, case['indptr'], case['indices'], np.array(case['data'], dtype=float))
        centers = np.array(case['centers'], dtype=np.int32)
        st = _bal_state(n, centers, case['init'])
        amg_core.bellman_ford_balanced(n, G.indptr, G.indices, G.data, centers, *st, bool(case['tb']))
        e = check_bf(G, centers, st[0], st[1], st[2])
        print('replaying bellman_ford_balanced:', e or 'specification holds')
        if e:
            ctx.violation(f'bellman_ford_balanced: {e}', case, fkey=_bal_fkey(True, G.data))
        return
    if case.get('routine') == 'bf_kernel':
        from pyamg import amg_core
        n = int(case['n'])
        G = gen.csr_from_arrays(n, case['indptr'], case['indices'], np.array(case['data'], dtype=float))
        centers = np.array(case['centers'], dtype=np.int32)
        d, m, p, _, _ = _bal_state(n, centers, 'wrapper')
        amg_core.bellman_ford(n, G.indptr, G.indices, G.data, centers, d, m, p)
        e = check_bf(G, centers, d, m, p)
        print('replaying the kernel bellman_ford:', e or 'specification holds')
        if e:
            ctx.violation(f'kernel bellman_ford: {e}', case)
        return
    if case.get('routine') == 'rcm_model':
        import pyamg.graph as PG
        A = np.array(case['A'], dtype=float)
        n = A.shape[0]
        Ar = _csr(A) if case.get('format') != 'csc' else sp.csc_array(_csr(A))
        np.random.seed(int(case['seed']))
        good = False
        try:
            B = PG.symmetric_rcm(Ar).toarray()
            good = B.shape == (n, n) and any(np.array_equal(B, A[np.ix_(pp, pp)]) for pp in itertools.permutations(range(n)))
        except Exception as ex:
            print('  symmetric_rcm raised', type(ex).__name__, ex)
        print('replaying symmetric_rcm:', 'symmetric permutation' if good else 'NOT a symmetric permutation of the input')
        if not good:
            ctx.violation('symmetric_rcm: the result is not a symmetric permutation of the input', case)
        return
    M = np.array(case['M'])
    print('replaying on graph', M.tolist(), {k: v for k, v in case.items() if k != 'M'})
    part_b(ctx, [(M, 'replay')])
    for v in ctx.violations:
        print('  ', v['what'])
