"""C01 -- stand-alone multigrid solve: termination, tolerance and truthful reporting.

correspondence : every observable of a real `MultilevelSolver.solve` call (returned vector, info, final
                 content of the residuals list, callback arguments, number of cycles really performed)
                 vs the Lean models `PyamgV.solve` (op c01_solve_loop) and `C01.solvePy` (op c01_solve_py)
                 replayed over the residual norms the harness recomputes from the iterates.  Decisions are
                 exact (rationals); residual values are compared with a rounding tolerance.
search         : the property's clauses judged directly on the same calls by an independent Python oracle
                 (cycle counter and iterate snapshots taken at the level-0 smoothers / coarse solver, not
                 through the solver's own reporting); hashes of b, x0, A before/after.
"""
import hashlib
from fractions import Fraction

import numpy as np
import scipy.sparse as sp

import gen
from common import enc_rat, enc_rats, dec_list, dec_rat

META = {
    'rule': 'one case = one call of MultilevelSolver.solve on a hierarchy built by a public constructor; distinct = distinct '
            '(constructor, levels, dtype, b-kind, x0-kind, cycle, cycles_per_level, maxiter, tol-kind, callback/residuals/'
            'return_info options, exit branch, cycles performed) tuples; non-trivial when the matrix has n >= 2 rows (one-level '
            'hierarchies are counted: they exercise the one-level branch)',
    'search_only': ['inputs unchanged on the REAL arrays: decided by hashing b, x0, A.data/indices/indptr (of the user matrix and of '
                    'levels[0].A) before/after every call; the theorem solveStore_inputs_unchanged covers the buffer-level model only',
                    'each history entry equals the recomputed ||b - A x||, callback arguments equal the iterates: numeric '
                    'comparison with the harness recomputation (the theorems say WHICH iterate each entry / argument belongs to)',
                    'what a cycle computes (V/W/F recursion, smoothers, cycles_per_level) is outside C01: cycles enter the '
                    'theorems as arbitrary functions (the E17 theorems solvePy_on_cycM_* / solvePy_on_kernel_cycle_* only compose the '
                    'loop with the cycle models of C03 / C02)'],
    'partial': [],
    'assumptions': ['rounding: a residual norm reported by the code is accepted when it is within 1e-12 relative + 64 eps '
                    '(||b|| + || |A| |x| ||) of the harness recomputation; a status decision inside that band is taken in exact '
                    'rational arithmetic on the float iterate and skipped when it disagrees with the float evaluation; model '
                    'comparisons with a residual within 1e-12 relative of tol*||b|| (1e-6 for a single-precision b, whose norm the '
                    'code takes in single precision) are skipped and counted (near_threshold_skipped)',
                    'the harness reads the iterates at the level-0 pre/post-smoother (coarse solver for one level); these '
                    'hooks are called once per cycle, which is how `__solve` is written',
                    'store model: np.zeros_like / np.array / astype / a copying ravel / the coarse solver return new buffers, '
                    'ravel of a contiguous array is a view, a cycle writes only the buffer of x; the copy/view flags are taken '
                    'from NumPy on the same objects and the aliasing predictions are compared with np.shares_memory inside the call'],
}

EPS = float(np.finfo(float).eps)
KNOWN_MIXED = 'mixed-shape-initial-residual'


class _Abort(Exception):
    pass


def _h(a):
    a = np.asarray(a)
    return hashlib.sha1(np.ascontiguousarray(a).tobytes()).hexdigest() + str(a.dtype) + str(a.shape)


def _enc_arr(a):
    a = np.asarray(a)
    if np.iscomplexobj(a):
        return {'dtype': str(a.dtype), 'shape': list(a.shape), 're': a.real.ravel().tolist(), 'im': a.imag.ravel().tolist()}
    return {'dtype': str(a.dtype), 'shape': list(a.shape), 're': a.ravel().tolist()}


def _dec_arr(d):
    if d is None:
        return None
    v = np.array(d['re'], dtype=float)
    if 'im' in d:
        v = v + 1j * np.array(d['im'], dtype=float)
    return v.astype(np.dtype(d['dtype'])).reshape(d['shape'])


# ------------------------------------------------------------------------------------------------
# generators: matrices and hierarchies (deterministic functions of a JSON-able spec)
# ------------------------------------------------------------------------------------------------

REAL_FAMILIES = ['poisson1d', 'poisson2d', 'aniso2d', 'graphlap', 'graphlap_shift', 'advdiff1d', 'advdiff2d', 'indef',
                 'diag', 'tiny', 'bsr2']
CPLX_FAMILIES = ['cshift', 'gauge', 'cherm', 'crot', 'ctiny']
SINGULAR = {'graphlap', 'diag'}


def build_matrix(spec):
    from pyamg.gallery import poisson, stencil_grid, diffusion_stencil_2d, gauge_laplacian
    rng = np.random.default_rng(spec['mseed'])
    fam, n = spec['family'], spec['n']
    nx, ny = spec.get('nx', 3), spec.get('ny', 3)
    if fam == 'poisson1d':
        A = poisson((n,), format='csr')
    elif fam == 'poisson2d':
        A = poisson((nx, ny), format='csr')
    elif fam == 'aniso2d':
        sten = diffusion_stencil_2d(epsilon=spec['eps'], theta=spec['theta'], type='FD')
        A = stencil_grid(sten, (nx, ny), format='csr')
    elif fam in ('graphlap', 'graphlap_shift'):
        W = np.zeros((n, n))
        for i in range(n - 1):
            W[i, i + 1] = rng.integers(1, 4)
        extra = (rng.random((n, n)) < min(0.5, 2.0 / max(n, 1))) * rng.integers(1, 3, size=(n, n))
        W = W + np.triu(extra, 2)
        W = W + W.T
        L = np.diag(W.sum(1)) - W
        if fam == 'graphlap_shift':
            L = L + np.diag(rng.choice([0.0, 0.25, 1.0], size=n))
            L[0, 0] += 0.5
        A = sp.csr_array(L)
    elif fam == 'advdiff1d':
        c = spec['c']
        A = sp.diags_array([-(1 + c) * np.ones(n - 1), (2 + c) * np.ones(n), -np.ones(n - 1)], offsets=[-1, 0, 1], format='csr')
    elif fam == 'advdiff2d':
        c = spec['c']
        T = lambda m: sp.diags_array([-(1 + c) * np.ones(m - 1), (2 + c) * np.ones(m), -np.ones(m - 1)], offsets=[-1, 0, 1])
        A = sp.csr_array(sp.kron(sp.eye_array(ny), T(nx)) + sp.kron(T(ny), sp.eye_array(nx)))
    elif fam == 'indef':
        A = sp.csr_array(poisson((n,), format='csr') - spec['c'] * sp.eye_array(n))
    elif fam == 'diag':
        d = rng.choice([1.0, 2.0, 4.0, 0.5, 0.0], size=n, p=[0.3, 0.2, 0.15, 0.15, 0.2])
        d[0] = 1.0
        A = sp.csr_array(sp.diags_array(d).tocsr())
        A.eliminate_zeros()
    elif fam == 'tiny':
        B = rng.integers(-2, 3, size=(n, n)).astype(float)
        A = sp.csr_array(B @ B.T + n * np.eye(n))
    elif fam == 'bsr2':
        P = poisson((nx, ny), format='csr')
        A = sp.csr_array(sp.kron(P, np.array([[2.0, 0.5], [0.5, 1.0]])))
    elif fam == 'cshift':
        A = sp.csr_array(poisson((n,), format='csr').astype(complex) + 1j * spec['c'] * sp.eye_array(n))
    elif fam == 'gauge':
        np.random.seed(spec['mseed'] % (2 ** 31))
        A = sp.csr_array(gauge_laplacian(nx, 1.0, spec['c']))
    elif fam == 'cherm':
        P = poisson((nx, ny), format='csr').astype(complex)
        ph = np.exp(2j * np.pi * rng.random(P.shape[0]))
        D = sp.diags_array(ph)
        A = sp.csr_array(D @ P @ D.conj())
    elif fam == 'crot':
        A = sp.csr_array(poisson((nx, ny), format='csr').astype(complex) * np.exp(1j * spec['theta']))
    elif fam == 'ctiny':
        B = rng.integers(-2, 3, size=(n, n)) + 1j * rng.integers(-2, 3, size=(n, n))
        A = sp.csr_array(B @ B.conj().T + n * np.eye(n))
    else:
        raise KeyError(fam)
    A = gen.int32csr(A)
    A.sort_indices()
    if fam == 'bsr2':
        A = A.tobsr(blocksize=(2, 2))
        A.indptr = A.indptr.astype(np.int32)
        A.indices = A.indices.astype(np.int32)
    return A


def rand_matrix_spec(rng, cplx, big, t=None):
    fams = CPLX_FAMILIES if cplx else REAL_FAMILIES
    fam = str(rng.choice(fams)) if t is None else fams[(t // 5) % len(fams)]
    spec = {'family': fam, 'mseed': int(rng.integers(0, 2 ** 31)), 'n': int(rng.integers(6, 260 if big else 90))}
    if fam in ('poisson2d', 'aniso2d', 'advdiff2d', 'bsr2', 'cherm', 'crot'):
        spec['nx'], spec['ny'] = int(rng.integers(2, 18 if big else 10)), int(rng.integers(2, 18 if big else 10))
    if fam == 'gauge':
        spec['nx'] = int(rng.integers(3, 12 if big else 8))
        spec['c'] = float(rng.choice([0.05, 0.2, 0.5]))
    if fam == 'aniso2d':
        spec['eps'], spec['theta'] = float(rng.choice([1.0, 0.1, 0.001])), float(rng.choice([0.0, np.pi / 6, np.pi / 4]))
    if fam in ('advdiff1d', 'advdiff2d'):
        spec['c'] = float(rng.choice([0.0, 0.5, 2.0, 10.0]))
    if fam == 'indef':
        spec['c'] = float(rng.choice([0.01, 0.03, 0.08]))
    if fam == 'cshift':
        spec['c'] = float(rng.choice([0.1, 0.5, 2.0]))
    if fam == 'crot':
        spec['theta'] = float(rng.choice([0.3, 1.0, 2.0]))
    if fam in ('tiny', 'ctiny'):
        spec['n'] = int(rng.integers(1, 4))
    if fam == 'diag':
        spec['n'] = int(rng.integers(1, 9))
    return spec


CONSTRUCTORS = ['ruge_stuben_solver', 'air_solver', 'smoothed_aggregation_solver', 'rootnode_solver', 'pairwise_solver']
SMOOTHERS = [None, ('gauss_seidel', {'sweep': 'symmetric'}), ('jacobi', {'omega': 2.0 / 3.0}),
             ('gauss_seidel', {'sweep': 'forward', 'iterations': 2}), ('gauss_seidel_nr', {'sweep': 'symmetric'})]


def rand_hier_spec(rng, t, big):
    ctor = CONSTRUCTORS[t % 5]
    cplx = ctor in ('smoothed_aggregation_solver', 'rootnode_solver') and rng.random() < 0.45
    one_level = rng.random() < 0.08
    if ctor == 'ruge_stuben_solver' and one_level and rng.random() < 0.4:
        cplx = True                      # classical AMG takes complex input only while no interpolation is built
    m = rand_matrix_spec(rng, cplx, big, t if rng.random() < 0.7 else None)
    if ctor in ('air_solver', 'pairwise_solver', 'ruge_stuben_solver') and m['family'] == 'bsr2':
        m['family'] = 'poisson2d'
    kw = {'max_levels': 1 if one_level else int(rng.choice([2, 2, 3, 3, 4, 5, 10])),
          'max_coarse': int(rng.choice([1, 2, 3, 5, 10]))}
    singular = m['family'] in SINGULAR
    cs = str(rng.choice(['pinv', 'pinv', 'splu', 'lu', 'gauss_seidel', 'jacobi']))
    if singular and cs in ('splu', 'lu'):
        cs = 'pinv'
    if m['family'] == 'bsr2' and cs in ('gauss_seidel', 'jacobi'):
        cs = 'pinv'
    kw['coarse_solver'] = cs
    sm = int(rng.integers(0, len(SMOOTHERS)))
    if ctor == 'air_solver' or m['family'] == 'bsr2':
        sm = 0
    if ctor == 'ruge_stuben_solver' and not cplx:
        kw['CF'] = str(rng.choice(['RS', 'PMIS', 'CLJP']))
    return {'ctor': ctor, 'matrix': m, 'kw': kw, 'smoother': sm, 'npseed': int(rng.integers(0, 2 ** 31))}


def build_hierarchy(spec):
    import pyamg
    A = build_matrix(spec['matrix'])
    kw = dict(spec['kw'])
    sm = SMOOTHERS[spec['smoother']]
    if sm is not None:
        kw['presmoother'] = sm
        kw['postsmoother'] = sm
    np.random.seed(spec['npseed'])
    ml = getattr(pyamg, spec['ctor'])(A, **kw)
    return A, ml


# ------------------------------------------------------------------------------------------------
# one instrumented call
# ------------------------------------------------------------------------------------------------

class Instr:
    """Counts the cycles the solver really performs and snapshots the iterate entering / leaving each one
    (level-0 pre-/post-smoother; the coarse solver for a one-level hierarchy).  Aborts a runaway loop."""

    def __init__(self, ml, limit, b_user=None, x0_user=None):
        self.ml, self.limit, self.pre, self.post = ml, limit, [], []
        self.b_user = b_user
        self.x0_user = x0_user if isinstance(x0_user, np.ndarray) else None
        self.b_alias, self.x_alias = [], []      # per cycle: does the b / x the cycle works on live in a caller's buffer?

    def _alias(self, x, b):
        if self.b_user is not None:
            self.b_alias.append(bool(np.shares_memory(b, self.b_user)))
            ax = bool(np.shares_memory(x, self.b_user))
            if self.x0_user is not None:
                ax = ax or bool(np.shares_memory(x, self.x0_user))
            self.x_alias.append(ax)

    def __enter__(self):
        ml = self.ml
        if len(ml.levels) == 1:
            self.orig = ml.coarse_solver

            def cs(A, b):
                if len(self.post) >= self.limit:
                    raise _Abort()
                x = self.orig(A, b)
                self._alias(np.asarray(x), b)
                self.post.append(np.array(x, copy=True).ravel())
                return x
            ml.coarse_solver = cs
        else:
            l0 = ml.levels[0]
            self.o_pre, self.o_post = l0.presmoother, l0.postsmoother

            def pre(A, x, b):
                if len(self.pre) >= self.limit:
                    raise _Abort()
                self._alias(x, b)
                self.pre.append(np.array(x, copy=True).ravel())
                return self.o_pre(A, x, b)

            def post(A, x, b):
                r = self.o_post(A, x, b)
                self.post.append(np.array(x, copy=True).ravel())
                return r
            l0.presmoother, l0.postsmoother = pre, post
        return self

    def __exit__(self, *a):
        ml = self.ml
        if len(ml.levels) == 1:
            ml.coarse_solver = self.orig
        else:
            ml.levels[0].presmoother, ml.levels[0].postsmoother = self.o_pre, self.o_post
        return False


def _input_hashes(A_user, ml, b, x0):
    A0 = ml.levels[0].A
    hs = {'b': _h(b), 'A.data': _h(A0.data), 'A.indices': _h(A0.indices), 'A.indptr': _h(A0.indptr),
          'A_user.data': _h(A_user.data), 'A_user.indices': _h(A_user.indices), 'A_user.indptr': _h(A_user.indptr)}
    if x0 is not None:
        hs['x0'] = _h(np.asarray(x0)) if not isinstance(x0, list) else repr(x0)
    return hs


def do_run(A_user, ml, b, x0, opt):
    """opt: tol, maxiter, cycle, cpl, cb (bool), res (None | list: content of the caller's list before the call),
    ret_info (bool), pass_x0_none (bool)"""
    cbs = []
    kw = {'tol': opt['tol'], 'maxiter': opt['maxiter'], 'cycle': opt['cycle'], 'cycles_per_level': opt['cpl']}
    if opt.get('np_scalars'):
        kw.update(tol=np.float64(opt['tol']), maxiter=np.int64(opt['maxiter']))
    if opt['ret_info']:
        kw['return_info'] = True
    if x0 is not None or opt.get('pass_x0_none'):
        kw['x0'] = x0
    x0arr = x0 if isinstance(x0, np.ndarray) else None
    out_alias = []           # returned array / callback arguments living in a caller's buffer

    def _al(v, who):
        if isinstance(v, np.ndarray) and (np.shares_memory(v, b) or (x0arr is not None and np.shares_memory(v, x0arr))):
            out_alias.append(who)
    if opt['cb']:
        def _cb(v):
            _al(v, f'callback argument {len(cbs) + 1}')
            cbs.append(np.array(v, copy=True))
        kw['callback'] = _cb
    res = None
    if opt['res'] is not None:
        res = list(opt['res'])
        kw['residuals'] = res
    before = _input_hashes(A_user, ml, b, x0)
    out, exc = None, None
    with Instr(ml, opt['maxiter'] + 2, b, x0) as ins:
        try:
            out = ml.solve(b, **kw)
        except _Abort:
            exc = 'abort'
        except Exception as e:     # noqa: BLE001 -- any exception of the call under test is an observation
            exc = f'{type(e).__name__}: {e}'
    after = _input_hashes(A_user, ml, b, x0)
    _al(out[0] if isinstance(out, tuple) and out else out, 'returned array')
    # detach the returned vector from whatever buffer it lives in (comparisons with the model are deferred)
    if isinstance(out, tuple) and len(out) == 2 and isinstance(out[0], np.ndarray):
        out = (np.array(out[0], copy=True), out[1])
    elif isinstance(out, np.ndarray):
        out = np.array(out, copy=True)
    return {'out': out, 'exc': exc, 'cbs': cbs, 'res': res, 'pre': ins.pre, 'post': ins.post,
            'b_alias': ins.b_alias, 'x_alias': ins.x_alias, 'out_alias': out_alias,
            'changed': [k for k in before if before[k] != after[k]]}


# ------------------------------------------------------------------------------------------------
# the oracle: the property's clauses on one observed call
# ------------------------------------------------------------------------------------------------

class Frame:
    """what the harness itself computes for one (hierarchy, b, x0): dtype, raveled b, effective x0, norms"""

    def __init__(self, ml, b, x0):
        self.A = ml.levels[0].A
        self.n = self.A.shape[0]
        xdt = np.asarray(x0).dtype if x0 is not None else b.dtype
        self.tp = np.result_type(b.dtype, xdt, self.A.dtype, np.float64 if not np.iscomplexobj(self.A.data) else np.complex128)
        self.bb = np.ravel(b).astype(self.tp)
        self.x0eff = np.zeros(self.n, dtype=self.tp) if x0 is None else np.ravel(np.asarray(x0)).astype(self.tp)
        self.normb = float(np.linalg.norm(self.bb))
        self.normb_eff = 1.0 if self.normb == 0.0 else self.normb
        self.absA = abs(self.A)
        # single-precision b: the code takes ||b|| in single precision (before it unifies the types)
        self.relband = Fraction(1, 10 ** 6) if b.dtype == np.float32 else Fraction(1, 10 ** 12)

    def rec(self, x):
        return float(np.linalg.norm(self.bb - self.A @ np.asarray(x).ravel().astype(self.tp)))

    def scale(self, x):
        return self.normb + float(np.linalg.norm(self.absA @ np.abs(np.asarray(x).ravel())))

    def slack(self, x, r):
        return 1e-12 * abs(r) + 64 * EPS * self.scale(x)


def _veq(u, v):
    u, v = np.asarray(u).ravel(), np.asarray(v).ravel()
    if u.shape != v.shape:
        return False
    m = float(np.max(np.abs(v))) if v.size else 0.0
    return bool(np.all(np.abs(u - v) <= 1e-12 * (np.abs(v) + m)))


def exact_norm2(fr, x):
    """||b - A x||^2 in rational arithmetic on the float data (small n only)"""
    A = sp.csr_array(fr.A)
    x = np.asarray(x).ravel()
    tot = Fraction(0)
    cplx = np.iscomplexobj(A.data) or np.iscomplexobj(x) or np.iscomplexobj(fr.bb)
    for i in range(fr.n):
        if cplx:
            re, im = Fraction(float(fr.bb[i].real)), Fraction(float(fr.bb[i].imag))
            for k in range(A.indptr[i], A.indptr[i + 1]):
                a, xv = complex(A.data[k]), complex(x[A.indices[k]])
                ar, ai, xr, xi = Fraction(a.real), Fraction(a.imag), Fraction(xv.real), Fraction(xv.imag)
                re -= ar * xr - ai * xi
                im -= ar * xi + ai * xr
            tot += re * re + im * im
        else:
            s = Fraction(float(fr.bb[i]))
            for k in range(A.indptr[i], A.indptr[i + 1]):
                s -= Fraction(float(A.data[k])) * Fraction(float(x[A.indices[k]]))
            tot += s * s
    return tot


def exact_normb2(fr):
    return sum((Fraction(float(v.real)) ** 2 + Fraction(float(v.imag)) ** 2) for v in fr.bb.astype(complex))


def decide_below(fr, x, rec, tol):
    """Is the TRUE residual norm of the float vector x below tol*||b|| (||b|| = 0 -> 1)?  True / False, or None when
    rounding decides: the norm is within the rounding of tol*||b|| (1e-12 relative; 1e-6 for single-precision b), or it is
    within the rounding of the float residual evaluation and the exact rational evaluation disagrees with the float one."""
    thr = Fraction(tol) * Fraction(fr.normb_eff)
    fl = Fraction(rec) < thr
    gap = abs(Fraction(rec) - thr)
    if gap != 0 and gap <= fr.relband * thr:
        return None                                # inside the rounding of tol*||b|| itself
    if gap > Fraction(fr.slack(x, rec)) + fr.relband * thr:
        return fl                                  # far outside the rounding band of the float evaluation
    if fr.A.nnz > 20000:
        return None
    r2 = exact_norm2(fr, x)
    nb2 = exact_normb2(fr)
    t2 = Fraction(tol) ** 2 * (nb2 if nb2 != 0 else 1)
    ex = r2 < t2
    if ex != fl:
        return None
    if r2 != t2 and abs(r2 - t2) <= 4 * fr.relband * t2:
        return None
    return ex


def judge(fr, ml, b, x0, opt, obs):
    """-> (fails, info): fails = list of (clause, message) the real call violates; info = derived data
    (orbit, recomputed norms, near-threshold flags) shared with the correspondence."""
    fails = []
    maxiter, tol = opt['maxiter'], opt['tol']
    one = len(ml.levels) == 1
    info = {'skip_decision': False, 'orbit': None}
    if obs['exc'] == 'abort':
        fails.append(('cycles', f'ran more than maxiter={maxiter} cycles (stopped by the harness after {len(obs["post"])})'))
        return fails, info
    if obs['exc'] is not None:
        snaps = list(obs['pre']) + list(obs['post'])
        if any((not np.all(np.isfinite(v))) or np.max(np.abs(v), initial=0.0) > 1e100 for v in snaps):
            info['nonfinite'] = True      # the iterates overflowed (a diverging cycle): nothing to decide
            return fails, info
        fails.append(('raised', f'solve raised {obs["exc"]}'))
        return fails, info
    if obs['changed']:
        fails.append(('inputs', f'the call modified {obs["changed"]}'))
    orbit = [fr.x0eff] + list(obs['post'])
    kc = len(obs['post'])
    recs = [fr.rec(x) for x in orbit]
    info.update(orbit=orbit, recs=recs, kc=kc)
    if not all(np.isfinite(recs)) or not all(np.isfinite(fr.scale(x)) for x in orbit):
        info['nonfinite'] = True          # overflow in the iterates: nothing numeric can be decided
        return fails, info
    # the cycles start from the initial guess and chain
    if not one:
        if len(obs['pre']) != kc:
            fails.append(('cycles', f'{len(obs["pre"])} cycles started but {kc} finished'))
        elif kc and not _veq(obs['pre'][0], fr.x0eff):
            fails.append(('iterates', 'the first cycle did not start from the initial guess'))
        elif any(not _veq(obs['pre'][j], obs['post'][j - 1]) for j in range(1, kc)):
            fails.append(('iterates', 'a cycle did not start from the previous iterate'))
    if not 1 <= kc <= maxiter:
        fails.append(('cycles', f'performed {kc} cycles with maxiter={maxiter}'))
        if kc == 0:
            return fails, info
    # return value
    out = obs['out']
    if opt['ret_info']:
        if not (isinstance(out, tuple) and len(out) == 2):
            fails.append(('return', f'return_info=True did not return a pair: {type(out).__name__}'))
            return fails, info
        xret, status = out
    else:
        if isinstance(out, tuple):
            fails.append(('return', 'return_info=False returned a tuple'))
            return fails, info
        xret, status = out, None
    if not _veq(xret, orbit[kc]):
        which = [j for j in range(len(orbit)) if _veq(xret, orbit[j])]
        fails.append(('return', f'the returned vector is not the last iterate (iterate {kc}); it matches iterates {which}'))
    # status
    dec = decide_below(fr, orbit[kc], recs[kc], tol)
    info['decision'] = dec
    thr = Fraction(tol) * Fraction(fr.normb_eff)
    last = recs[kc]
    if dec is None:
        info['skip_decision'] = True
    elif status is not None:
        below = dec
        if below and status != 0:
            fails.append(('status', f'reported {status} although the returned iterate has ||b-Ax|| = {last!r} < tol*||b|| = {float(thr)!r}'))
        if not below and status == 0:
            fails.append(('status', f'reported success although the returned iterate has ||b-Ax|| = {last!r} >= tol*||b|| = {float(thr)!r}'))
        if not below and status != 0 and status != kc:
            fails.append(('status', f'reported {status} but performed {kc} cycles'))
    if dec is False and 1 <= kc < maxiter:
        # neither way out of the loop applies: the iteration cap is maxiter, not less
        fails.append(('cycles', f'stopped after {kc} of maxiter={maxiter} cycles although the last iterate has ||b-Ax|| = {last!r} '
                                f'>= tol*||b|| = {float(thr)!r}'))
    # residual history
    if obs['res'] is not None:
        res = obs['res']
        if len(res) != kc + 1:
            fails.append(('history', f'{len(res)} history entries for {kc + 1} iterates (initial guess included)'))
        for j in range(min(len(res), kc + 1)):
            try:
                rj = float(res[j])
            except (TypeError, ValueError):
                fails.append(('history', f'entry {j} is not a number: {res[j]!r}'))
                break
            if not abs(rj - recs[j]) <= fr.slack(orbit[j], recs[j]):
                fails.append(('history', f'entry {j} is {rj!r} but ||b-Ax|| of iterate {j} is {recs[j]!r}'))
                break
    # callback
    if opt['cb']:
        if len(obs['cbs']) != kc:
            fails.append(('callback', f'callback called {len(obs["cbs"])} times for {kc} cycles'))
        for j, v in enumerate(obs['cbs'][:kc]):
            if not _veq(v, orbit[j + 1]):
                fails.append(('callback', f'callback argument {j + 1} is not iterate {j + 1}'))
                break
    return fails, info


def known_key(fr, b, x0, fails):
    """the one listed finding: b and x0 of different dimensionality (column vs 1-d) -> the *initial*
    residual is the Frobenius norm of the broadcast n x n array; nothing else may be wrong"""
    if x0 is None or len(fails) != 1 or fails[0][0] != 'history' or 'entry 0 ' not in fails[0][1]:
        return None
    x0 = np.asarray(x0)
    if b.ndim == x0.ndim or b.size != x0.size:
        return None
    return KNOWN_MIXED


# ------------------------------------------------------------------------------------------------
# inputs and options
# ------------------------------------------------------------------------------------------------

B_KINDS = ['rand', 'rand', 'col', 'zero', 'zerocol', 'Axs', 'int', 'f32', 'realb', 'strided', 'unit', 'tinyb', 'hugeb']
X0_KINDS = ['none'] * 7 + ['rand'] * 7 + ['exact'] * 4 + ['zeros'] * 4 + ['list'] * 2 + ['realx'] * 4 + ['intx'] * 2 + ['mixed']


def make_inputs(rng, fr_A, cplx):
    n = fr_A.shape[0]
    dt = complex if cplx else float

    def rv():
        if rng.random() < 0.5:
            v = rng.integers(-8, 9, size=n) / 4.0
            if cplx:
                v = v + 1j * rng.integers(-8, 9, size=n) / 4.0
        else:
            v = rng.standard_normal(n)
            if cplx:
                v = v + 1j * rng.standard_normal(n)
        return v.astype(dt)
    bk = str(rng.choice(B_KINDS))
    if bk == 'realb' and not cplx:
        bk = 'rand'
    if bk in ('int', 'f32') and cplx:
        bk = 'col'
    xs = rv()
    if bk in ('rand', 'realb'):
        b = rng.standard_normal(n).astype(dt) if bk == 'rand' else rng.standard_normal(n)
        if cplx and bk == 'rand':
            b = b + 1j * rng.standard_normal(n)
    elif bk == 'col':
        b = rv().reshape(n, 1)
    elif bk in ('tinyb', 'hugeb'):
        b = rv() * float(2.0 ** (int(rng.choice([25, 40, 60])) * (-1 if bk == 'tinyb' else 1)))
        if rng.random() < 0.3:
            b = b.reshape(n, 1)
    elif bk == 'zero':
        b = np.zeros(n, dtype=dt)
    elif bk == 'zerocol':
        b = np.zeros((n, 1), dtype=dt)
    elif bk == 'Axs':
        b = np.asarray(fr_A @ xs).astype(dt)
    elif bk == 'int':
        b = rng.integers(-5, 6, size=n)
    elif bk == 'f32':
        b = rng.standard_normal(n).astype(np.float32)
    elif bk == 'strided':
        b = np.repeat(rv(), 2)[::2]
    else:
        b = np.zeros(n, dtype=dt)
        b[int(rng.integers(0, n))] = float(2.0 ** int(rng.integers(-3, 4)))
    xk = str(rng.choice(X0_KINDS))
    if xk == 'realx' and not cplx:
        xk = 'rand'
    if xk == 'intx' and cplx:
        xk = 'realx'
    if xk == 'list' and b.ndim == 2:
        xk = 'rand'
    like = (lambda v: v.reshape(b.shape))       # x0 has the dimensionality of b (column for a column b) ...
    if xk == 'none':
        x0 = None
    elif xk == 'rand':
        x0 = like(rv())
    elif xk == 'exact':
        if bk != 'Axs':
            b = np.asarray(fr_A @ xs).astype(dt).reshape(b.shape)
            bk = 'Axs' + ('col' if b.ndim == 2 else '')
        x0 = like(xs.copy())
    elif xk == 'zeros':
        x0 = like(np.zeros(n, dtype=dt))
    elif xk == 'list':
        x0 = [float(v) for v in rng.integers(-4, 5, size=n)]
    elif xk == 'realx':
        x0 = like(rng.integers(-8, 9, size=n) / 4.0)
    elif xk == 'intx':
        x0 = like(rng.integers(-4, 5, size=n))
    else:   # ... except here: column b with 1-d x0 or the other way round (listed finding)
        x0 = rv() if b.ndim == 2 else rv().reshape(n, 1)
    return bk, xk, b, x0


def pick_tol(rng, ratios):
    """ratios[j] = ||r_j|| / ||b|| observed by the probe call (j >= 1)"""
    kind = str(rng.choice(['random', 'above', 'below', 'above', 'below', 'at', 'tiny', 'huge']))
    cand = None
    ok = [j for j, q in enumerate(ratios) if j >= 1 and np.isfinite(q) and 0 < q < 0.5]
    if kind in ('above', 'below', 'at') and ok:
        j = int(rng.choice(ok))
        d = float(rng.choice([1e-9, 1e-6, 1e-3]))
        cand = ratios[j] * (1 + d) if kind == 'above' else ratios[j] * (1 - d) if kind == 'below' else ratios[j]
    elif kind == 'tiny':
        cand = float(rng.choice([1e-30, 1e-18, 1e-14]))
    elif kind == 'huge':
        cand = float(rng.choice([0.999999, 0.9, 0.5]))
    if cand is None or not 0 < cand < 1:
        kind, cand = 'random', float(10.0 ** rng.uniform(-10, -0.05))
    return kind, float(cand)


def rand_cycle(rng):
    cyc = str(rng.choice(['V', 'W', 'F', 'V', 'W', 'F', 'v', 'f']))
    return cyc, int(rng.integers(1, 4)) if cyc.upper() == 'F' or rng.random() < 0.2 else 1


def rand_options(rng, full=False, cyc=None):
    cyc, cpl = cyc or rand_cycle(rng)
    opt = {'cycle': cyc, 'cpl': cpl, 'maxiter': int(rng.integers(1, 7)), 'pass_x0_none': bool(rng.random() < 0.5),
           'np_scalars': bool(rng.random() < 0.15)}
    if full:
        opt.update(cb=True, res=[], ret_info=True)
    else:
        r = rng.random()
        opt.update(cb=bool(rng.random() < 0.6), ret_info=bool(rng.random() < 0.7),
                   res=None if r < 0.3 else [] if r < 0.75 else [float(v) for v in rng.integers(-3, 4, size=int(rng.integers(1, 4)))])
    return opt


# ------------------------------------------------------------------------------------------------
# one evaluated call: oracle + model request
# ------------------------------------------------------------------------------------------------

def store_flags(fr, ml, b, x0):
    """the copy/view decisions of the prologue, taken by NumPy itself on the same objects"""
    x = np.zeros_like(b) if x0 is None else np.array(x0)
    bconv, xconv = b.dtype != fr.tp, x.dtype != fr.tp
    b2 = b.astype(fr.tp) if bconv else b
    x2 = x.astype(fr.tp) if xconv else x
    return [int(x0 is not None), int(len(ml.levels) == 1), int(bconv), int(xconv),
            int(not np.shares_memory(np.ravel(b2), b2)), int(not np.shares_memory(np.ravel(x2), x2))]


def _case(hspec, b, x0, opt, extra=None):
    c = {'hier': hspec, 'b': _enc_arr(b), 'x0': None if x0 is None else ({'list': x0} if isinstance(x0, list) else _enc_arr(x0)),
         'opt': {k: opt[k] for k in ('tol', 'maxiter', 'cycle', 'cpl', 'cb', 'res', 'ret_info', 'pass_x0_none', 'np_scalars') if k in opt}}
    if extra:
        c.update(extra)
    return c


def evaluate(ctx, pend, hspec, A_user, ml, b, x0, opt, tags):
    """run one call, judge it, queue the model request; returns the derived info (or None)"""
    fr = Frame(ml, b, x0)
    obs = do_run(A_user, ml, b, x0, opt)
    fails, info = judge(fr, ml, b, x0, opt, obs)
    case = _case(hspec, b, x0, opt)
    nlev = len(ml.levels)
    kc = info.get('kc', -1)
    status = obs['out'][1] if (opt['ret_info'] and isinstance(obs['out'], tuple) and len(obs['out']) == 2) else None
    branch = 'raised' if obs['exc'] else ('tol' if status == 0 else 'maxiter' if status else 'noinfo')
    key = (hspec['ctor'], nlev, str(fr.tp), tags['bk'], tags['xk'], opt['cycle'], opt['cpl'], opt['maxiter'], tags['tk'],
           opt['cb'], None if opt['res'] is None else len(opt['res']), opt['ret_info'], branch, kc)
    ctx.case(key=repr(key), nontrivial=fr.n >= 2,
             sample={'ctor': hspec['ctor'], 'family': hspec['matrix']['family'], 'n': fr.n, 'levels': nlev, 'b': tags['bk'], 'x0': tags['xk'],
                     'tol': opt['tol'], 'maxiter': opt['maxiter'], 'cycle': opt['cycle'], 'cycles': kc, 'info': status,
                     'residuals': (obs['res'] or [])[:7]} if ctx.evaluations % 97 == 0 else None)
    for f in (f'ctor:{hspec["ctor"]}', f'levels:{min(nlev, 5)}', f'b:{tags["bk"]}', f'x0:{tags["xk"]}', f'cycle:{opt["cycle"].upper()}',
              f'cpl:{opt["cpl"]}', f'maxiter:{opt["maxiter"]}', f'tol:{tags["tk"]}', f'exit:{branch}', f'dtype:{fr.tp}',
              f'family:{hspec["matrix"]["family"]}', 'callback' if opt['cb'] else 'no_callback',
              'no_list' if opt['res'] is None else 'empty_list' if not opt['res'] else 'prefilled_list',
              'return_info' if opt['ret_info'] else 'bare_return'):
        ctx.feat(f)
    if info.get('nonfinite'):
        ctx.feat('nonfinite_skipped')
    if info.get('skip_decision'):
        ctx.feat('status_decided_by_rounding_skipped')
    if not fails and obs['res'] is not None and info.get('recs') and len(obs['res']) == len(info['recs']):
        for rj, cj in zip(obs['res'], info['recs']):
            if cj > 0 and np.isfinite(rj):
                ctx.rel_err(abs(float(rj) - cj) / max(cj, 64 * EPS * fr.scale(info['orbit'][0])))
    if fails:
        fk = known_key(fr, b, x0, fails)
        ctx.violation(f'{hspec["ctor"]} ({nlev} level(s), n={fr.n}, {fr.tp}) solve(tol={opt["tol"]!r}, maxiter={opt["maxiter"]}, '
                      f'cycle={opt["cycle"]!r}, cycles_per_level={opt["cpl"]}, b:{tags["bk"]}{list(b.shape)}, x0:{tags["xk"]}, '
                      f'callback={opt["cb"]}, residuals={opt["res"]}, return_info={opt["ret_info"]}): '
                      + '; '.join(m for _, m in fails), case, fkey=fk,
                      detail={'residuals': obs['res'], 'recomputed': info.get('recs'), 'cycles_performed': kc})
    if obs['exc'] is None and kc >= 1:
        pend.append({'kind': 'store', 'line': 'c01_store ' + ' '.join(str(v) for v in store_flags(fr, ml, b, x0)) + f' {kc}',
                     'obs': obs, 'case': case})
    # model request (needs the recomputed norms of the observed iterates)
    listed = bool(fails) and known_key(fr, b, x0, fails) is not None      # the listed finding: the oracle has spoken
    if info.get('orbit') is not None and not info.get('nonfinite') and kc >= 1 and not listed:
        recs = info['recs']
        thr = Fraction(opt['tol']) * Fraction(fr.normb_eff)
        thr_exact_product = Fraction(float(opt['tol']) * fr.normb_eff) == thr
        nearany = False
        for j in range(1, len(recs)):
            gap = abs(Fraction(recs[j]) - thr)
            if 0 < gap <= fr.relband * thr or (gap == 0 and not thr_exact_product):
                nearany = True       # the model compares exact rationals, the code rounds tol*||b||
            elif gap <= Fraction(fr.slack(info['orbit'][j], recs[j])) and obs['res'] is not None and \
                    (j >= len(obs['res']) or float(obs['res'][j]) != recs[j]):
                nearany = True       # the code's own norm differs in the last bits from the recomputation
        if nearany:
            ctx.near_skipped += 1
        else:
            one = nlev == 1
            resarg = 'none' if opt['res'] is None else enc_rats(opt['res']) if opt['res'] else '-'
            seq = enc_rats(recs)
            pend.append({'kind': 'loop', 'line': f'c01_solve_loop {opt["maxiter"]} {enc_rat(opt["tol"])} {enc_rat(fr.normb)} {seq}',
                         'fr': fr, 'obs': obs, 'info': info, 'opt': opt, 'case': case, 'one': one, 'had_fail': bool(fails)})
            pend.append({'kind': 'py', 'line': f'c01_solve_py {opt["maxiter"]} {enc_rat(opt["tol"])} {enc_rat(fr.normb)} {seq} '
                                               f'{int(one)} {int(x0 is not None)} {resarg} {int(opt["cb"])} {int(opt["ret_info"])}',
                         'fr': fr, 'obs': obs, 'info': info, 'opt': opt, 'case': case, 'one': one, 'had_fail': bool(fails)})
    return info


def _lean(ctx, lines):
    """the driver is started from compiled modules that a concurrent `lake build` may be rewriting: retry"""
    import time
    from common import InfraError
    waits = [5, 10, 20, 40, 60]
    for attempt in range(len(waits) + 1):
        try:
            return ctx.lean(lines)
        except InfraError:
            if attempt == len(waits):
                raise
            time.sleep(waits[attempt])


def compare_models(ctx, pend):
    """send the queued requests through the Lean driver and compare every observable"""
    if not pend:
        return
    outs = _lean(ctx, [p['line'] for p in pend])
    for p, o in zip(pend, outs):
        if p['kind'] == 'store':
            obs = p['obs']
            impl = {'b_aliased_in_cycles': obs['b_alias'], 'x_aliased_in_cycles': obs['x_alias'],
                    'outputs_in_caller_buffers': obs['out_alias'], 'changed': obs['changed']}
            try:
                mb, mret, mcb, mwr, msame = o.split(';')
                fresh = lambda t: all(int(v) >= 3 for v in dec_list(t))
                ok = (all(a == (int(mb) == 0) for a in obs['b_alias'])
                      and (not fresh(mwr) or not any(obs['x_alias']))
                      and (not (int(mret) >= 3 and fresh(mcb)) or not obs['out_alias'])
                      and (msame != '1' or not obs['changed']))
            except ValueError:
                ok = False
            if not ok:
                ctx.corr('c01_store', p['case'], o, impl, note='b buffer seen by the cycles;returned buffer;callback buffers;'
                         'buffers written;inputs unchanged (buffers 0..2 = b, x0, matrix)')
            continue
        obs, info, opt, fr = p['obs'], p['info'], p['opt'], p['fr']
        kc, orbit, recs = info['kc'], info['orbit'], info['recs']
        out = obs['out']
        status = out[1] if (opt['ret_info'] and isinstance(out, tuple) and len(out) == 2) else None
        xret = out[0] if isinstance(out, tuple) else out
        if p['kind'] == 'loop':
            impl = f'{"?" if status is None else status};{kc};{"?" if obs["res"] is None else len(obs["res"])};{kc}'
            if o in ('short', 'none', 'bad-op'):
                ok = False
            else:
                ms, mk, ml_, mi = o.split(';')
                ok = (int(mk) == kc and int(mi) == kc and (status is None or int(ms) == status)
                      and (obs['res'] is None or int(ml_) == len(obs['res'])))
            if not ok:
                ctx.corr('c01_solve_loop', p['case'], o, impl,
                         note='status;cycles;history length;index of the returned iterate (observed from the real call)')
            continue
        impl = {'cycles': kc, 'info': status, 'residuals': obs['res'], 'callbacks': len(obs['cbs'])}
        if o in ('short', 'none', 'bad-op'):
            ctx.corr('c01_solve_py', p['case'], o, impl, note='the model would have continued past the last observed iterate'
                     if o == 'short' else '')
            continue
        mx, minfo, mres, mcb = o.split(';')
        mx = int(mx)
        ok = mx < len(orbit) and xret is not None and _veq(xret, orbit[mx]) and (mx == kc or p['one'])
        ok = ok and ((minfo == 'none') == (status is None)) and (status is None or int(minfo) == status)
        if mres == 'none':
            ok = ok and obs['res'] is None
        else:
            mvals = dec_list(mres, dec_rat)
            ok = ok and obs['res'] is not None and len(mvals) == len(obs['res'])
            if ok:
                for j, (mv, rv) in enumerate(zip(mvals, obs['res'])):
                    idx = min(j, 1) if p['one'] else j
                    ok = ok and abs(float(mv) - float(rv)) <= fr.slack(orbit[min(idx, len(orbit) - 1)], float(mv))
        mcbl = [int(t) for t in dec_list(mcb)]
        ok = ok and len(mcbl) == len(obs['cbs'])
        if ok:
            ok = all(i < len(orbit) and _veq(v, orbit[i]) for i, v in zip(mcbl, obs['cbs']))
        if not ok:
            ctx.corr('c01_solve_py', p['case'], o, impl, note='x index;info;residuals;callback indices vs the real call')


# ------------------------------------------------------------------------------------------------
# parts
# ------------------------------------------------------------------------------------------------

def part_main(ctx, nh, per_h, per_in):
    rng = ctx.np_rng
    pend = []
    for t in range(nh):
        if ctx.time_left() < 15:
            ctx.feat('budget_stop')
            break
        hspec = rand_hier_spec(rng, t, big=(not ctx.quick) or t % 4 == 0)
        try:
            A_user, ml = build_hierarchy(hspec)
        except Exception as e:     # noqa: BLE001 -- constructors are other properties' business
            ctx.feat('constructor_raised:' + type(e).__name__)
            continue
        cplx = np.iscomplexobj(ml.levels[0].A.data)
        for _ in range(per_h):
            bk, xk, b, x0 = make_inputs(rng, ml.levels[0].A, cplx)
            nb = Frame(ml, b, x0).normb_eff
            for _c in range(1 if rng.random() < 0.6 else 2):
                cyc = rand_cycle(rng)
                # probe: every observation channel on, tolerance never met
                popt = rand_options(rng, full=True, cyc=cyc)
                popt.update(maxiter=6, tol=1e-30)
                pinfo = evaluate(ctx, pend, hspec, A_user, ml, b, x0, popt, {'bk': bk, 'xk': xk, 'tk': 'probe'})
                ratios = [1.0]
                if pinfo and pinfo.get('recs') and not pinfo.get('nonfinite'):
                    ratios = [r / nb for r in pinfo['recs']]
                for _k in range(per_in):
                    opt = rand_options(rng, cyc=cyc)
                    tk, opt['tol'] = pick_tol(rng, ratios)
                    evaluate(ctx, pend, hspec, A_user, ml, b, x0, opt, {'bk': bk, 'xk': xk, 'tk': tk})
        if len(pend) > 4000:
            compare_models(ctx, pend)
            pend = []
    compare_models(ctx, pend)


def part_ties(ctx, N):
    """one-level hierarchies on diagonal matrices with dyadic data: ||b||, the iterate and its residual norm
    are exact, tol = ||r|| / ||b|| is dyadic: the residual is exactly AT the threshold, i.e. not below it"""
    rng = ctx.np_rng
    pend = []
    pats = [([1, 1, 1, 1], [0, 0, 0, 1]), ([2, 2, 2, 2], [0, 0, 0, 1]), ([1, 1, 1, 1], [1, 0, 1, 1]),
            ([4, 4, 4, 4, 8], [1, 1, 1, 0, 1]), ([3, 4], [1, 0]), ([1, 1, 1, 1], [1, 1, 1, 0]), ([2], [0])]
    for t in range(N):
        bvals, zero = pats[t % len(pats)]
        n = len(bvals)
        sc = float(2.0 ** int(rng.integers(-2, 3)))
        d = np.where(np.array(zero) == 1, 0.0, rng.choice([1.0, 2.0, 0.5], size=n))
        ctor = CONSTRUCTORS[t % 5]
        hspec = {'ctor': ctor, 'matrix': {'family': 'explicit_diag', 'diag': d.tolist(), 'n': n, 'mseed': 0},
                 'kw': {'coarse_solver': str(rng.choice(['pinv', 'gauss_seidel', 'jacobi'])), 'max_coarse': 10}, 'smoother': 0, 'npseed': 0}
        try:
            A_user, ml = build_hierarchy_explicit(hspec)
        except Exception as e:     # noqa: BLE001
            ctx.feat('constructor_raised:' + type(e).__name__)
            continue
        if len(ml.levels) != 1:
            continue
        b = np.array(bvals, dtype=float) * sc
        if t % 3 == 1:
            b = b.reshape(n, 1)
        fr = Frame(ml, b, None)
        x = np.asarray(ml.coarse_solver(ml.levels[0].A, fr.bb)).ravel()
        r = fr.rec(x)
        ratio = r / fr.normb_eff
        for mode in ('at', 'above', 'below'):
            tol = ratio if mode == 'at' else ratio * (1 + 2.0 ** -40) if mode == 'above' else ratio * (1 - 2.0 ** -40)
            if not 0 < tol < 1:
                continue
            opt = rand_options(rng)
            opt['tol'] = float(tol)
            if mode == 'at':
                opt['ret_info'] = True
            x0 = None if t % 2 else np.zeros(b.shape)
            evaluate(ctx, pend, hspec, A_user, ml, b, x0, opt, {'bk': 'tie', 'xk': 'none' if x0 is None else 'zeros', 'tk': 'tie-' + mode})
    compare_models(ctx, pend)


def build_hierarchy_explicit(hspec):
    import pyamg
    if hspec['matrix']['family'] != 'explicit_diag':
        return build_hierarchy(hspec)
    A = sp.csr_array(sp.diags_array(np.array(hspec['matrix']['diag'], dtype=float)).tocsr())
    A.eliminate_zeros()
    A = gen.int32csr(A)
    np.random.seed(hspec['npseed'])
    ml = getattr(pyamg, hspec['ctor'])(A, **hspec['kw'])
    return A, ml


def run(ctx):
    part_ties(ctx, ctx.scale(14, 420))
    part_main(ctx, ctx.scale(60, 2600), 2, 4)


def search(ctx):
    part_ties(ctx, 70)
    part_main(ctx, 120, 2, 4)


def replay(ctx, data):
    case = data['case']
    hspec = case['hier']
    A_user, ml = build_hierarchy_explicit(hspec)
    b = _dec_arr(case['b'])
    x0 = case['x0']
    x0 = None if x0 is None else x0['list'] if 'list' in x0 else _dec_arr(x0)
    opt = case['opt']
    print('replaying', hspec['ctor'], hspec['matrix'], hspec['kw'], 'levels', len(ml.levels), 'options', opt)
    fr = Frame(ml, b, x0)
    obs = do_run(A_user, ml, b, x0, opt)
    fails, info = judge(fr, ml, b, x0, opt, obs)
    print('returned', type(obs['out']).__name__, 'info', obs['out'][1] if isinstance(obs['out'], tuple) else None,
          'cycles performed', info.get('kc'), 'exception', obs['exc'])
    print('residuals list  ', obs['res'])
    print('recomputed norms', info.get('recs'))
    print('threshold tol*||b||', opt['tol'] * fr.normb_eff)
    for cl, m in fails:
        print('FAILS', cl, ':', m)
    if fails:
        ctx.violation('; '.join(m for _, m in fails), case, fkey=known_key(fr, b, x0, fails))
    else:
        print('the property holds on this input')
