"""C14 -- strength-of-connection matrices obey the common contract and their rules.

correspondence : (A) the kernels classical_strength_of_connection_abs/min, symmetric_strength_of_connection,
                 maximum_row_value, apply_(absolute_)distance_filter, min_blocks (rebuilt from the working tree)
                 vs the Lean definitions of Model/C14.lean (the ones Props/C14.lean is about), exact on dyadic /
                 Gaussian-integer data (ties at the threshold are exact);
                 (B) the public functions classical_strength_of_connection (CSR real/complex, BSR block on/off,
                 abs/min/fro) and symmetric_strength_of_connection (CSR real/complex, BSR) vs the Lean models of
                 the whole call (kernel + np.abs + scale_rows_by_largest_entry + eliminate_zeros + block
                 reductions + amalgamate): pattern exact, values to 4 ulp.
                 (D) distance_strength_of_connection (CSR/BSR, theta incl. inf, relative/absolute) and the
                 distance_measure_common tail of algebraic_distance / affinity_distance (distances recomputed from the
                 definition with the same relaxation vectors) vs the Lean models distStrengthRow / distCommonRow:
                 pattern exact, values to a few ulp; the last step (scale_rows_by_largest_entry) of every other measure
                 vs scaleRow on its observed argument.
                 (E) the whole of energy_based_strength_of_connection and of evolution_strength_of_connection (real
                 canonical CSR; evolution: one candidate vector, k in {2,4,8}, finite epsilon) vs the Lean models
                 energyFull / evolFull (extension E28): the measure / Atilde / strength values observed inside the call
                 and the returned matrix, to a conditioning-scaled tolerance; the spectral-radius estimate is recorded
                 from the real call.
                 (F) extension E40, models of Model/ExtC14XBlock.lean over a scalar type with a modulus: complex CSR data with
                 irrational moduli (kernels and public classical / symmetric), real and complex BSR data (classical block=True
                 with abs / min / fro and the 1e-16 drop; block=False from the BSR arrays through the model of A.tocsr(),
                 whose arrays are compared with SciPy's exactly, and amalgamate; symmetric with irrational block norms), and
                 the whole energy measure on complex CSR and on real / complex BSR input: pattern exact outside the
                 near-threshold entries named by the exact oracle, values to 1e-13 (energy: conditioning-scaled tolerance).
                 (G) extension E44, model of Model/ExtC14YEvol.lean over a scalar type: the whole of evolution_strength_of_connection
                 for NullDim 1..3 (kernel evolution_strength_helper, exact Moore-Penrose inverse of the local problems), k in 1..8
                 (k = 1, not a power of two, 2^m), epsilon finite or inf, proj_type l2 / D_A, symmetrize on / off, real / complex CSR
                 and BSR (same-PDE mask, block_flag, tobsr + min_blocks): Atilde handed to the kernel, the kernel on its observed
                 input, the strength values at the filter and the returned matrix, to conditioning-scaled tolerances.
search         : (C) every public measure judged by an independent exact (Fraction) oracle of the property:
                 contract (nodal shape, pattern, [0,1], row maximum 1, diagonal kept), the classical / symmetric
                 rule entry by entry, monotonicity over a theta grid, theta = 0.
"""
import hashlib
from fractions import Fraction as Fr

import numpy as np
import scipy.sparse as sp

import gen
from common import enc_ints, enc_rats, enc_crats, enc_rat, frac, dec_list

META = {
    'rule': 'matrices: seeded CSR (n = 1..9) and BSR (1..5 nodes, block size 1..3) with small-integer x power-of-two '
            'entries (complex: Gaussian integers with integer modulus), rows drawn from the modes normal / M-matrix / all-positive / '
            'mixed sign / diagonal-only / empty / missing diagonal / stored-zero diagonal / stored-zero off-diagonals, unsorted '
            'and (kernels only) duplicated entries; theta from {0,1/8,1/4,1/2,3/4,1} (exact ties are frequent) plus non-dyadic '
            'thetas in the search; every family also badly scaled: global factor 2^-66, 2^-56, 2^-27, 2^27, 2^66 (and, in the search, '
            '1e-20, 1e-17, 1e-8, 1e8, 1e20) and/or a factor 2^-80..2^80 per row (all values remain normal doubles); both norms (+fro), block on/off, float64/float32/complex128; parameter grids of the evolution, '
            'energy, distance, algebraic-distance and affinity measures; part F: complex CSR rows with general Gaussian-integer x power-of-two values '
            '(irrational moduli), complex BSR blocks multiplied entry-wise by Gaussian integers, thetas incl. 0.1, 0.3, 0.9, the _sym_matrix '
            'families (Hermitian, non-Hermitian, non-symmetric pattern) as complex CSR / real BSR / complex BSR for the energy measure; non-trivial = the matrix has an off-diagonal '
            'stored non-zero; distinct = distinct (operation, input, parameters)',
    'search_only': ['energy_based_strength_of_connection on real canonical CSR input is modelled as a whole (energyFull: Jacobi approximate inverse, '
                    'energy inner products, val > -0.01 rule, drop rule, + I, scaling; theorems energy_full_contract / energy_full_rule hold for '
                    'every square-root function, omega, k, theta) and evolution_strength_of_connection on real canonical CSR input with one candidate '
                    'vector (NullDim == 1, the default B), k in {2, 4, 8}, finite epsilon as well (evolFull: time stepping, incomplete_mat_mult_csr, '
                    'the NullDim == 1 strength rule, filter, symmetrisation, scaling; evolution_full_contract); both are compared with the real '
                    'functions stage by stage on every run (part E), the only input taken from the real call being the spectral-radius estimate. '
                    'Since extension E44 evolution_strength_of_connection is modelled as a whole for every NullDim (evolution_strength_helper: local '
                    'constrained least-squares problems with the exact Moore-Penrose inverse), every k >= 1 (k = 1, not a power of two, 2^m), epsilon = inf, '
                    'both proj_types, BSR input (same-PDE mask, block_flag, tobsr + min_blocks) and complex input (Model/ExtC14YEvol.lean: evolFullG / '
                    'evolFullBsr over a scalar type; theorems evolution_contract_all_candidates, evolution_contract_in_pattern, evolution_contract_bsr, '
                    'evolution_helper_values, evolution_model_total) and compared with the real function stage by stage in part G (the energy measure on '
                    'complex CSR and on real / complex BSR input since extension E40: energyFullC, energyFullBsr, energyFullBsrC, part F). '
                    'SEARCH ONLY remain: approximate_spectral_radius itself (its estimate is an input of the models); float32 input and instances the '
                    'part G comparison skips as ill-conditioned or near a threshold (singular-value cutoff of svd_solve / pinv_array, zhat zero filter, '
                    'weak ratio, right angles, sqrt(eps), epsilon ties, exact cancellations): there '
                    '"pattern contained in the input, diagonal kept" is checked on the outputs of the real code (spec oracle), '
                    'and for CSR input with finite power-of-two epsilon / dyadic theta the part of the function after the strength values is '
                    'modelled (evolution_tail_contract, energy_tail_contract) and compared with the real result on the values observed at '
                    'the drop-tolerance filter / at the inner classical call. Their "[0,1], row maximum 1" '
                    'clause is decided for every call by scaling_contract on the observed argument of the last step. '
                    'algebraic_distance / affinity_distance: everything after the distance function is modelled (distance_common_contract), '
                    'the relaxation vectors and the distance formula are inputs of the model; distance_strength_of_connection: modelled '
                    'completely for rational distances (distance_strength_contract)',
                    'float32 public calls: rule oracle only (near-threshold decisions are skipped and counted in near_threshold_skipped). '
                    'Complex BSR input, complex CSR input with irrational moduli, non-dyadic theta on these, and symmetric BSR with irrational '
                    'block norms are modelled since extension E40 (classicalBlock / classicalNoBlock / symmetricBsr / cclassical / csymmetric over a '
                    'scalar type with a modulus; theorems classical_block_rule, classical_block_contract, classical_noblock_rule, symmetric_bsr_rule, '
                    'complex_classical_contract, complex_symmetric_contract) and compared with the real functions in part F',
                    'the BSR container handling (canonical-format flags, index dtype) is scipy code, not modelled; the conversion BSR -> CSR used for '
                    'block=False and by the energy measure is modelled (Spmm.bsrToCsr, theorems bsr_tocsr_row / bsr_tocsr_entries / bsr_tocsr_meaning) '
                    'and its arrays are compared with A.tocsr() exactly in part F; the parts A / B models still start from the converted CSR arrays'],
    'partial': ['E59 (py_strength_*): theorems about the definition GENERATED from the Python part of classical_strength_of_connection (CSR vs BSR branch, block flag, norm selection, the 1e-16 clean-up and its target array, kernel call, assembly; numerical work abstracted as events) hold on the FINITE grid cGrid (csr / bsr / csc x block size 1, 2 x block flag x abs / min / fro / unknown norm), kernel evaluated; outside the grid the exact trace comparison with the real function on mock objects (part y) decides'],
    'trusted_extra': ['harness/py2lean3_aggstr.py on top of harness/py2lean2.py (Python-AST -> Lean translator, second mode, driver `aggstr`: comparisons / subscripts / abs / += of opaque arrays as events), lean/PyamgV/Model/ExtPy3AggstrRt.lean (+ ExtPy2Rt.lean, ExtPyRt.lean: CPython semantics on the PyVal universe and the event semantics of opaque objects) and harness/extpy3_aggstr.py (+ extpy2.py: mock objects implementing the same event semantics in Python): exercised on every run by the exact comparison (result, exception class, whole trace) of the generated definitions with the REAL functions executed against the mocks (op e59_py3_call)'],
    'assumptions': ['part G (extension E44, whole evolution measure for every NullDim / k / epsilon / format / scalar type): the spectral-radius estimate is '
                    'recorded from the real call (pass-through wrapper of approximate_spectral_radius; real and positive, else the instance goes to the '
                    'spec oracle only); observed through pass-through wrappers: the arguments and the result of amg_core.evolution_strength_helper, the '
                    'argument of amg_core.apply_distance_filter, the pattern handed to scale_rows in the NullDim == 1 shortcut. The model is exact '
                    '(Rat / Gaussian rationals, exact Moore-Penrose inverse; complex moduli to relative 2^-100), the code is binary64 with a singular-value '
                    'cutoff (svd_solve: 50 eps^(3/4) sigma_max; pinv_array for block_flag): they are compared where the exact rank of every local matrix '
                    '(computed with Fractions) equals the number of singular values above 1e-6 sigma_max and the remaining ones are below 1e-12 sigma_max '
                    '(else near_threshold_skipped: e.g. proj_type D_A on a matrix scaled by 2^-66, where the cutoff discards the D_A-weighted block). '
                    'Kernel on its observed input: 4e-13 * kappa_ij (kappa_ij = 1 + cond(LHS) (max|zhat| + rowmax) / |z_j| / err); Atilde: 4e-13 * rowmax; '
                    'strength values: 4e-13 * kappa_ij; returned matrix: 1e-12 * max kappa (instances with max kappa > 1e5 skipped). Skipped and counted '
                    'in near_threshold_skipped: decisions of the exact model within 1e-3..1e-9 relative of a threshold (|ratio|^2 <= 1e-8 resp. '
                    '|ratio| < 1e-4, angle test on a numerically right angle, err < sqrt(eps), real / imaginary parts of zhat within 1e-3..1e3 of '
                    'tol * max|zhat|, epsilon * min ties), entries of Atilde below 1e-5 of their row maximum, and entries that cancel exactly on one '
                    'side only (inside the pattern the code allows). Matrices: the _sym_matrix families as real / complex CSR (n <= 8) and BSR (<= 4 '
                    'nodes, block size 1..3), optional missing diagonal / stored zero / global 2^k scaling; B: polynomial, alternating and random '
                    'small-integer (complex: Gaussian-integer) candidates with NullDim 1..3, rank-deficient local problems included',
                    'part E (whole energy / evolution measures): the spectral-radius estimate is recorded from the real call through a pass-through '
                    'wrapper of pyamg.strength.approximate_spectral_radius (omega = 1.0/rho resp. c = 1.0/rho are handed to the model as exact '
                    'dyadic numbers); intermediate stages are observed through pass-through wrappers (inner classical call, '
                    'amg_core.incomplete_mat_mult_csr, amg_core.apply_distance_filter). The model is exact (Rat; square roots to relative 2^-80), '
                    'the code is binary64: stage values are compared to 4e-14 * kappa (energy; kappa = sum|terms| / <v,Av> of the worst denominator, '
                    'instances with kappa > 1e4 skipped) resp. 2e-13 * kappa_ij (evolution; kappa_ij = (1+|ratio|)(1 + rowmax/|x| + rowmax/|d|)), '
                    'the returned matrices to the propagated tolerance (observed errors stay below 3 % of it); instances in which the exact model is '
                    'within 1e-8 relative of a decision threshold (val > -0.01, theta * max, weak ratio 1e-4, sqrt(eps), ratio == 1, '
                    'epsilon * min) or in which an exact zero appears on one side only are skipped and counted in near_threshold_skipped; the '
                    'diagonal entry of the evolution strength values is not compared (it is overwritten by the filter and the unit diagonal); '
                    'explicitly stored zeros are allowed; matrices: the _sym_matrix families, n <= 9, optional missing diagonal / global 2^k scaling',
                    'evolution / energy tails: the values observed at amg_core.apply_distance_filter (evolution) and at the inner '
                    'classical_strength_of_connection call (energy) -- pass-through wrappers, no change of behaviour -- are real, finite, '
                    'non-negative (evolution), free of subnormals and stored in canonical CSR; for evolution the observed pattern lies '
                    'inside the pattern of A except for k = 1 (feature evolution_tail_pattern_outside_A = known finding); checked per instance',
                    'last step of the evolution / energy / distance / algebraic / affinity measures: the argument handed to '
                    'scale_rows_by_largest_entry (observed through a pass-through wrapper on pyamg.strength.scale_rows_by_largest_entry, '
                    'no change of behaviour) is real, finite, non-negative and free of subnormals -- checked on every instance '
                    '(features tail_hypothesis_checked / tail_hypothesis_failed)',
                    'exact-field model: theta*max and theta^2*|a_ii|*|a_jj| are compared in exact arithmetic; the generators '
                    'use dyadic data so that the binary64 kernels are exact too; the row scaling v*(1/max) is compared to 4 ulp, '
                    '"attains 1" is checked as |max - 1| <= 1e-12',
                    'no subnormal or overflowing values: generated magnitudes stay within 2^-150 .. 2^150 (float32: 2^-50 .. 2^50), so every '
                    'non-zero entry, product and square the kernels form is a normal double (classical_public_contract needs tiny <= |v|); '
                    'inputs with subnormal entries are NOT covered. The absolute 1e-16 drop of block-wise reduced values is no longer assumed '
                    'away: it is modelled (dropSmall), exercised by the scaled BSR inputs and reported as finding classical-bsr-drop-below-1e-16',
                    'decimal global factors (1e-20, ...) make the data non-dyadic: used in the search only, ties within 1e-9 relative are then skipped',
                    'explicitly stored zeros are not part of "the pattern" (of the input or of the output); duplicate entries: '
                    'kernels only (the entry-wise rule is not defined for them)',
                    'complex moduli are exact (Gaussian integers with integer modulus) in the correspondence parts A / B; those models reject other inputs. '
                    'Part F (extension E40) takes arbitrary complex data: the models are parametric in the square-root function (every theorem holds for '
                    'every admissible one, SqrtLike), the driver uses sqrtApprox 100 (relative error 2^-100, exact on squares); binary64 moduli carry '
                    'rounding errors, so decisions within 1e-9 relative of a threshold (named by the exact Fraction oracle) may differ between model '
                    'and code: such entries are not compared and counted in near_threshold_skipped; values are compared to 1e-13 (1e-8 in rows with a kept '
                    'near-threshold entry). Complex BSR norm="fro": the reduced values reach the abs kernel as complex numbers x + 0i and mynorm forms '
                    'sqrt(x*x) = x, exact as long as x*x is a normal double (true for the generated magnitudes)',
                    'part F energy measure (complex CSR, real / complex BSR): as part E (spectral radius recorded from the real call, measure observed at the '
                    'inner classical call, tolerance 4e-14 * kappa, near-threshold skips); in addition instances are skipped (model reply "undefined") when an '
                    'argument of a complex square root is a negative real number in exact arithmetic while the other one is not a positive real number (in '
                    'binary64 the sign of the rounding noise in the imaginary part selects the branch), and when an exact zero of the model meets a '
                    'value below 1e-9 of the code (rounding noise of the complex quotient z/z) or the value 0.01 (decision val > -0.01); for BSR input the '
                    'returned nodal matrix is compared as a set of entries (the code lists nodal columns in order of first appearance, the model sorted)',
                    'TypeError of algebraic_distance / affinity_distance on complex input and of norm="min" on complex input is an '
                    'explicit input rejection (counted as a feature), not a violation'],
}

F64, F32 = np.float64, np.float32
TINY = {'float64': Fr(float(np.finfo(F64).tiny)), 'float32': Fr(float(np.finfo(F32).tiny)),
        'complex128': Fr(float(np.finfo(F64).tiny)), 'complex64': Fr(float(np.finfo(F32).tiny))}
BIG64 = Fr(float(np.finfo(F64).max))
DROP = Fr(1e-16)
THETAS = [0.0, 0.125, 0.25, 0.5, 0.75, 1.0]
UNITS = [1, -1, 1j, -1j, 3 + 4j, -4 + 3j, 4 - 3j, 5 + 12j, 6 + 8j, 8 - 15j]
MAGS = [1, 1, 2, 2, 3, 4, 4, 6, 8]


# global factors ~1e-20, 1e-17, 1e-8, 1e+8, 1e+20 as powers of two (the exact models stay exact) and as decimals (search only)
SCALE_P2 = [2.0 ** -66, 2.0 ** -56, 2.0 ** -27, 2.0 ** 27, 2.0 ** 66]
SCALE_DEC = [1e-20, 1e-17, 1e-8, 1e8, 1e20]


def rescale(rng, A, exact=True, p_none=0.5):
    """badly scaled variants of a CSR/BSR matrix: a global factor and/or a power-of-two factor 2^-80..2^80 per (nodal) row; every
    value stays a normal double (|v| within 2^-150 .. 2^150).  exact=True uses powers of two only.  Returns (matrix, tag)."""
    r = rng.random()
    if r < p_none:
        return A, 'scale:none'
    single = A.dtype in (np.float32, np.complex64)
    B = A.copy()
    B.data = B.data.copy()
    tag = []
    if r < p_none + (1 - p_none) * 0.65:
        pool = [2.0 ** -27, 2.0 ** 27] if single else (SCALE_P2 if exact else SCALE_P2 + SCALE_DEC)
        g = pool[rng.integers(len(pool))]
        B.data = B.data * B.data.dtype.type(g)
        tag.append('global:%.0e' % g)
    if r >= p_none + (1 - p_none) * 0.4:
        nrow = len(B.indptr) - 1
        k = rng.integers(-20, 21, size=nrow) if single else rng.integers(-80, 81, size=nrow)
        f = np.repeat(2.0 ** k, np.diff(B.indptr))
        B.data = B.data * (f.reshape((-1,) + (1,) * (B.data.ndim - 1))).astype(B.data.dtype)
        tag.append('rows')
    return B, 'scale:' + '+'.join(tag)


def _lean(ctx, lines):
    """ctx.lean with retries: a concurrent `lake build` of another property can replace the driver's .olean files
    while the driver starts (infrastructure, exit 2) -- retry a few times before giving up"""
    import time
    from common import InfraError
    for attempt in range(4):
        try:
            return ctx.lean(lines, chunks=3 if len(lines) < 30000 else 8)
        except InfraError:
            if attempt == 3:
                raise
            time.sleep(3 + 4 * attempt)


def _key(*a):
    return hashlib.sha1(repr(a).encode()).hexdigest()


# ------------------------------------------------------------------------------------------------
# generators
# ------------------------------------------------------------------------------------------------

def _offval(rng, cplx, sign):
    m = float(MAGS[rng.integers(len(MAGS))]) * 2.0 ** int(rng.integers(-1, 2))
    if cplx:
        return m * UNITS[rng.integers(len(UNITS))]
    if sign == 'neg':
        return -m
    if sign == 'pos':
        return m
    return m if rng.random() < 0.5 else -m


def _diagval(rng, cplx):
    d = float(rng.choice([1, 2, 4, 8, 16, 0.5, 3, 6]))
    if cplx:
        return d * UNITS[rng.integers(len(UNITS))]
    return -d if rng.random() < 0.12 else d


ROW_MODES = ['normal'] * 8 + ['missing_diag'] * 2 + ['zero_diag', 'diag_only', 'diag_only', 'empty', 'zero_offd', 'offd_only']


def gen_rows(rng, n, cplx=False, sym_pattern=False, modes=None, ezero=0.05):
    """list of rows [(j, value)] (sorted by column, no duplicates) and the feature set"""
    feats = set()
    dens = float(rng.choice([0.25, 0.5, 0.8, 1.0]))
    mask = rng.random((n, n)) < dens
    if sym_pattern:
        mask = np.triu(mask, 1)
        mask = mask | mask.T
    msign = str(rng.choice(['neg', 'neg', 'mixed', 'pos', 'byrow']))
    rows = []
    for i in range(n):
        mode = (modes or ROW_MODES)[rng.integers(len(modes or ROW_MODES))]
        sign = msign if msign != 'byrow' else str(rng.choice(['neg', 'mixed', 'pos']))
        row = []
        for j in range(n):
            if j == i:
                if mode in ('normal', 'diag_only', 'zero_offd'):
                    row.append((j, _diagval(rng, cplx)))
                elif mode == 'zero_diag':
                    row.append((j, 0j if cplx else 0.0))
            elif mask[i, j] and mode not in ('diag_only', 'empty'):
                v = _offval(rng, cplx, sign)
                if mode == 'zero_offd' or rng.random() < ezero:
                    v = 0j if cplx else 0.0
                    feats.add('stored_zero_offdiag')
                row.append((j, v))
        feats.add('row:' + mode)
        if sign == 'pos' and any(j != i for j, _ in row):
            feats.add('positive_offdiag')
        rows.append(row)
    return rows, feats


def rows_to_csr(rows, dtype, rng=None, unsorted=False, dup=False):
    n = len(rows)
    ip, ix, dt = [0], [], []
    for i, row in enumerate(rows):
        row = list(row)
        if dup and rng is not None and row and rng.random() < 0.4:
            row.append(row[rng.integers(len(row))])
        if unsorted and rng is not None:
            row = [row[k] for k in rng.permutation(len(row))]
        ix += [j for j, _ in row]
        dt += [v for _, v in row]
        ip.append(len(ix))
    A = gen.csr_from_arrays(n, ip, ix, np.array(dt, dtype=dtype))
    if unsorted or dup:
        A.has_sorted_indices = False
    return A


def gen_bsr(rng, N, bs, cplx=False, sym_pattern=False):
    """BSR matrix with int32 indices: nodal pattern from gen_rows, small-integer blocks with zeros inside,
    occasionally a diagonal block whose scalar diagonal is zero, an all-zero stored block, a missing diagonal block"""
    rows, feats = gen_rows(rng, N, False, sym_pattern, modes=['normal'] * 8 + ['missing_diag', 'diag_only', 'empty'], ezero=0.0)
    ip, ix, blocks = [0], [], []
    for I, row in enumerate(rows):
        for J, _ in row:
            B = rng.integers(-4, 5, size=(bs, bs)).astype(float) * (rng.random((bs, bs)) < 0.7)
            if I == J:
                B = B * (rng.random((bs, bs)) < 0.5)
                d = rng.choice([1.0, 2.0, 4.0, 8.0], size=bs)
                B[np.arange(bs), np.arange(bs)] = d
                if rng.random() < 0.08:
                    B[np.arange(bs), np.arange(bs)] = 0.0
                    feats.add('diag_block_zero_scalar_diagonal')
            else:
                r = rng.random()
                if r < 0.3:
                    B = -abs(B)
                elif r < 0.4:
                    B = abs(B)
                elif r < 0.45:
                    B[:] = 0.0
                    feats.add('stored_zero_block')
                elif r < 0.6:          # Frobenius norm exact: a single non-zero or a 3-4-5 pattern
                    B[:] = 0.0
                    B.flat[rng.integers(bs * bs)] = float(rng.choice([-4, -2, -1, 1, 2, 3]))
            if cplx:
                B = B * np.array(UNITS)[rng.integers(len(UNITS), size=(bs, bs))]
            ix.append(J)
            blocks.append(B)
        ip.append(len(ix))
    data = np.array(blocks, dtype=complex if cplx else float).reshape(-1, bs, bs)
    A = sp.bsr_array((data, np.array(ix, dtype=np.int32), np.array(ip, dtype=np.int32)), shape=(N * bs, N * bs))
    A.indptr = A.indptr.astype(np.int32)
    A.indices = A.indices.astype(np.int32)
    return A, feats


# ------------------------------------------------------------------------------------------------
# encoding
# ------------------------------------------------------------------------------------------------

def _cplx(A):
    return np.iscomplexobj(A.data)


def hdr(A, data=None):
    d = A.data if data is None else data
    return f'{A.shape[0]} {enc_ints(A.indptr)} {enc_ints(A.indices)} {(enc_crats if np.iscomplexobj(d) else enc_rats)(d)}'


def _srat(v):
    """implementation output -> protocol token; non-finite values (possible only when the code is broken) never match a model reply"""
    if np.iscomplexobj(v):
        return _srat(v.real) + '|' + _srat(v.imag)
    return enc_rat(v) if np.isfinite(v) else repr(float(v))


def _srats(xs):
    xs = list(xs)
    return ','.join(_srat(x) for x in xs) if xs else '-'


def enc_out(Sp, Sj, Sx):
    nnz = max(0, min(int(Sp[-1]), len(Sj)))
    return f'{enc_ints(Sp)};{enc_ints(Sj[:nnz])};{_srats(Sx[:nnz])}'


def enc_csr(S):
    return f'{enc_ints(S.indptr)};{enc_ints(S.indices)};{_srats(S.data)}'


def case_of(A, api, **params):
    """JSON-able description of an input (enough to rebuild it)"""
    c = {'api': api, 'fmt': A.format, 'shape': list(A.shape), 'dtype': str(A.dtype),
         'indptr': A.indptr.tolist(), 'indices': A.indices.tolist(), 'params': params}
    d = np.asarray(A.data)
    if A.format == 'bsr':
        c['blocksize'] = list(A.blocksize)
    c['data'] = [[float(z.real), float(z.imag)] for z in d.ravel()] if np.iscomplexobj(d) else [float(v) for v in d.ravel()]
    return c


def build(case):
    dt = np.dtype(case['dtype'])
    raw = case['data']
    d = np.array([complex(a, b) for a, b in raw], dtype=dt) if dt.kind == 'c' else np.array(raw, dtype=dt)
    ip = np.array(case['indptr'], dtype=np.int32)
    ix = np.array(case['indices'], dtype=np.int32)
    if case['fmt'] == 'bsr':
        R, C = case['blocksize']
        A = sp.bsr_array((d.reshape(-1, R, C), ix, ip), shape=tuple(case['shape']))
    else:
        A = sp.csr_array((d, ix, ip), shape=tuple(case['shape']))
    A.indptr = A.indptr.astype(np.int32)
    A.indices = A.indices.astype(np.int32)
    return A


# ------------------------------------------------------------------------------------------------
# part A: raw kernels, exact
# ------------------------------------------------------------------------------------------------

def part_a(ctx, count):
    from pyamg import amg_core
    rng = ctx.np_rng
    items = []          # (line, impl_out, opname, A, theta, nontrivial)
    for t in range(count):
        n = int(rng.integers(1, 10))
        kind = ('float64', 'float64', 'float64', 'complex128', 'float32')[t % 5]
        cplx = kind.startswith('complex')
        rows, feats = gen_rows(rng, n, cplx)
        A = rows_to_csr(rows, np.dtype(kind), rng, unsorted=(t % 3 == 0), dup=(t % 7 == 0))
        A, stag = rescale(rng, A, exact=True)
        ctx.feat(stag.split(':')[0] + ':' + ('none' if stag.endswith('none') else 'yes') + ':kernels')
        th = float(THETAS[rng.integers(len(THETAS))])
        tiny = TINY[kind]
        nontriv = any(j != i and v != 0 for i, r in enumerate(rows) for j, v in r)
        for f in feats:
            ctx.feat(f)
        ctx.feat('dtype:' + kind)
        Ap, Aj, Ax = A.indptr, A.indices, A.data
        thv = np.dtype(kind).type(0).real.dtype.type(th)
        # classical abs
        Sp, Sj, Sx = np.full_like(Ap, -7), np.full_like(Aj, -7), np.zeros_like(Ax)
        amg_core.classical_strength_of_connection_abs(n, thv, Ap, Aj, Ax, Sp, Sj, Sx)
        items.append((f'c14_{"c" if cplx else ""}abs {enc_rat(th)} {enc_rat(tiny)} {hdr(A)}', enc_out(Sp, Sj, Sx), 'classical_abs', A, th, nontriv))
        # classical min (real only)
        if not cplx:
            Sp, Sj, Sx = np.full_like(Ap, -7), np.full_like(Aj, -7), np.zeros_like(Ax)
            amg_core.classical_strength_of_connection_min(n, thv, Ap, Aj, Ax, Sp, Sj, Sx)
            items.append((f'c14_min {enc_rat(th)} {hdr(A)}', enc_out(Sp, Sj, Sx), 'classical_min', A, th, nontriv))
        # symmetric (theta is any non-negative number here)
        ths = float(rng.choice(THETAS + [2.0, 4.0]))
        thsv = thv.dtype.type(ths)
        Sp, Sj, Sx = np.full_like(Ap, -7), np.full_like(Aj, -7), np.zeros_like(Ax)
        amg_core.symmetric_strength_of_connection(n, thsv, Ap, Aj, Ax, Sp, Sj, Sx)
        items.append((f'c14_{"c" if cplx else ""}sym {enc_rat(ths)} {hdr(A)}', enc_out(Sp, Sj, Sx), 'symmetric', A, ths, nontriv))
        # maximum_row_value
        x = np.zeros(n, dtype=A.dtype)
        amg_core.maximum_row_value(n, x, Ap, Aj, Ax)
        items.append((f'c14_{"c" if cplx else ""}rowmax {enc_rat(tiny)} {hdr(A)}', _srats(x.real), 'maximum_row_value', A, None, nontriv))
        # distance filters / min_blocks on positive "distances"
        if kind == 'float64' and t % 4 == 0:
            D = A.copy()
            D.data = np.abs(D.data) + (rng.random(D.nnz) < 0.1) * 0.0
            eps = float(rng.choice([1.0, 1.5, 2.0, 4.0]))
            d1 = D.data.copy()
            amg_core.apply_distance_filter(n, eps, D.indptr, D.indices, d1)
            items.append((f'c14_dfilt {enc_rat(BIG64)} {enc_rat(eps)} {hdr(D)}', f'{enc_ints(D.indptr)};{enc_ints(D.indices)};{_srats(d1)}',
                          'apply_distance_filter', D, eps, nontriv))
            d2 = D.data.copy()
            amg_core.apply_absolute_distance_filter(n, eps, D.indptr, D.indices, d2)
            items.append((f'c14_adfilt {enc_rat(eps)} {hdr(D)}', f'{enc_ints(D.indptr)};{enc_ints(D.indices)};{_srats(d2)}',
                          'apply_absolute_distance_filter', D, eps, nontriv))
            k = int(rng.integers(1, 5))
            nb = D.nnz // k
            if nb:
                src = np.ascontiguousarray(D.data[:nb * k])
                out = np.zeros(nb)
                amg_core.min_blocks(nb, k, src, out)
                items.append((f'c14_minblocks {enc_rat(BIG64)} {k} {enc_rats(src)}', _srats(out), 'min_blocks', D, None, nontriv))
    return items


def part_a_finish(ctx, items, outs):
    for (line, impl, op, A, th, nontriv), o in zip(items, outs):
        ctx.case(key=_key(line), nontrivial=nontriv, sample={'request': line[:160], 'model': o[:80], 'impl': impl[:80]}
                 if ctx.evaluations % 997 == 0 else None)
        ctx.feat('kernel:' + op)
        if o == 'inexact':
            ctx.feat('model_rejects_irrational_modulus')
            continue
        if o != impl:
            ctx.corr('kernel ' + op, {'line': line[:3000]}, o, impl)
            if op in ('classical_abs', 'classical_min', 'symmetric'):
                judge_kernel(ctx, op, A, th, impl)
                # the same matrix through the public functions, judged by the property oracle
                judge_family(ctx, _canon(A), 'classical' if op != 'symmetric' else 'symmetric',
                             norm='min' if op == 'classical_min' else 'abs', block=True,
                             thetas=THETAS + ([2.0, 4.0] if op == 'symmetric' else []))
            elif op == 'maximum_row_value':
                judge_family(ctx, _canon(A), 'classical', norm='abs', block=True, thetas=THETAS)
                judge_family(ctx, _canon(A), 'symmetric', norm='abs', block=True, thetas=THETAS)


def _canon(A):
    """same matrix with sorted rows and without duplicates (first occurrence wins), stored zeros kept"""
    n = A.shape[0]
    ip, ix, dt = [0], [], []
    for i in range(n):
        seen = {}
        for jj in range(A.indptr[i], A.indptr[i + 1]):
            seen.setdefault(int(A.indices[jj]), A.data[jj])
        for j in sorted(seen):
            ix.append(j)
            dt.append(seen[j])
        ip.append(len(ix))
    return gen.csr_from_arrays(n, ip, ix, np.array(dt, dtype=A.dtype))


# ------------------------------------------------------------------------------------------------
# exact oracle of the rules (independent of the Lean model: dense definitions over Fractions)
# ------------------------------------------------------------------------------------------------

def _fr(v):
    return (frac(v.real), frac(v.imag)) if isinstance(v, (complex, np.complexfloating)) else frac(v)


def _nsq(v):
    """squared modulus of an exact scalar"""
    return v[0] * v[0] + v[1] * v[1] if isinstance(v, tuple) else v * v


def _iszero(v):
    return _nsq(v) == 0


def exact_rows(A):
    """rows as dict j -> exact value (duplicates summed), stored zeros included"""
    out = []
    for i in range(A.shape[0]):
        r = {}
        for jj in range(A.indptr[i], A.indptr[i + 1]):
            j = int(A.indices[jj])
            v = _fr(A.data[jj])
            if j in r:
                v = (r[j][0] + v[0], r[j][1] + v[1]) if isinstance(v, tuple) else r[j] + v
            r[j] = v
        out.append(r)
    return out


def _short(th):
    """theta is a short dyadic: products with small dyadic data are exact in binary64"""
    f = Fr(th)
    return f.denominator <= 1024 and abs(f.numerator) <= 1024


def _data_short(A):
    """every stored value has at most 20 significant bits (real and imaginary part): with a short dyadic theta all products the
    kernels form are exact in binary64 (also under power-of-two scalings); false e.g. after a decimal scaling such as 1e-20"""
    d = np.asarray(A.data).ravel()
    parts = np.concatenate([d.real, d.imag]) if np.iscomplexobj(d) else d.astype(float)
    if not np.isfinite(parts).all():
        return False
    m, _ = np.frexp(parts)
    return bool((np.ldexp(m, 20) == np.round(np.ldexp(m, 20))).all())


class Near(Exception):
    pass


def _ge(lhs, rhs, exact):
    """lhs >= rhs with a near-threshold guard when the floating-point evaluation is not exact"""
    if not exact and rhs != 0 and abs(lhs - rhs) <= abs(rhs) * Fr(1, 10 ** 9):
        raise Near()
    if not exact and rhs == 0 and lhs == 0:
        return True
    return lhs >= rhs


def classical_expected(rows, theta, norm, literal, data_exact=True):
    """per row: (set of columns that must be present, set of columns that may be either way).
    norm 'abs': |a_ij| >= theta * max_{k != i} |a_ik| (compared on squares); 'min': -a_ij >= theta * max_{k != i} (-a_ik);
    literal=True takes the maximum over the stored off-diagonal entries only (it can be negative for 'min'),
    literal=False floors it at zero as the kernel does."""
    th = Fr(theta)
    exact = _short(theta) and data_exact
    exp, free = [], []
    for i, r in enumerate(rows):
        keep, fr_ = set(), set()
        off = [(j, v) for j, v in r.items() if j != i]
        if i in r and not _iszero(r[i]):
            keep.add(i)
        if norm == 'min':
            m = max([-v for _, v in off], default=Fr(0))
            if not literal:
                m = max(m, Fr(0))
            for j, v in off:
                if v == 0:
                    continue
                try:
                    if _ge(-v, th * m, exact):
                        keep.add(j)
                except Near:
                    fr_.add(j)
        else:
            m2 = max([_nsq(v) for _, v in off], default=Fr(0))
            for j, v in off:
                if _iszero(v):
                    continue
                try:
                    if _ge(_nsq(v), th * th * m2, exact):
                        keep.add(j)
                except Near:
                    fr_.add(j)
        exp.append(keep)
        free.append(fr_)
    return exp, free


def symmetric_expected(rows, theta, exact_hint=True):
    """|a_ij|^2 >= theta^2 |a_ii| |a_jj|, compared as |a_ij|^4 >= theta^4 |a_ii|^2 |a_jj|^2"""
    th = Fr(theta)
    exact = _short(theta) and exact_hint
    n = len(rows)
    d2 = [_nsq(rows[i][i]) if i in rows[i] else Fr(0) for i in range(n)]
    exp, free = [], []
    for i, r in enumerate(rows):
        keep, fr_ = set(), set()
        for j, v in r.items():
            if _iszero(v):
                continue
            if j == i:
                keep.add(j)
                continue
            try:
                if _ge(_nsq(v) ** 2, th ** 4 * d2[i] * (d2[j] if j < n else 0), exact):
                    keep.add(j)
            except Near:
                fr_.add(j)
        exp.append(keep)
        free.append(fr_)
    return exp, free


# ------------------------------------------------------------------------------------------------
# the common contract, judged on the output of the real code
# ------------------------------------------------------------------------------------------------

def nodal_patterns(A):
    """(stored nodal pattern, nodal pattern of non-zeros, nodal diagonal 'has a non-zero scalar diagonal entry') as dense bools"""
    if A.format == 'bsr':
        bs = A.blocksize[0]
        N = A.shape[0] // bs
        P = np.zeros((N, N), bool)
        Z = np.zeros((N, N), bool)
        Dg = np.zeros(N, bool)
        for I in range(N):
            for jj in range(A.indptr[I], A.indptr[I + 1]):
                J = int(A.indices[jj])
                P[I, J] = True
                if (A.data[jj] != 0).any():
                    Z[I, J] = True
                if I == J and (np.diag(A.data[jj]) != 0).any():
                    Dg[I] = True
        return P, Z, Dg
    N = A.shape[0]
    P = np.zeros((N, N), bool)
    Z = np.zeros((N, N), bool)
    for i in range(N):
        for jj in range(A.indptr[i], A.indptr[i + 1]):
            P[i, A.indices[jj]] = True
            if A.data[jj] != 0:
                Z[i, A.indices[jj]] = True
    return P, Z, Z.diagonal().copy()


def contract(A, S, diag_rows=None):
    """list of (code, message) for the clauses of the common contract that fail; codes:
    type, shape, nonfinite, added-diag, extra, range, rowmax, diag-dropped"""
    P, Z, Dg = nodal_patterns(A)
    N = P.shape[0]
    if not sp.issparse(S):
        return [('type', f'the result is a {type(S).__name__}, not a sparse matrix')], None
    if S.shape != (N, N):
        return [('shape', f'the result has shape {S.shape}, the nodal size is {N}')], None
    if np.iscomplexobj(S.data):
        return [('type', 'the result has complex entries')], None
    D = np.asarray(sp.csr_array(S).toarray(), dtype=float)
    if not np.isfinite(D).all():
        return [('nonfinite', 'the result has inf/nan entries')], D
    out = []
    extra = (D != 0) & ~P
    if extra.any():
        ij = np.argwhere(extra)
        offd = [(int(i), int(j)) for i, j in ij if i != j]
        if offd:
            out.append(('extra', f'entries outside the pattern of the input at {offd[:4]}'))
        else:
            out.append(('added-diag', f'a diagonal entry is added where the input stores none (rows {[int(i) for i, _ in ij][:6]})'))
    if (D < 0).any() or (D > 1 + 1e-12).any():
        k = np.argwhere((D < 0) | (D > 1 + 1e-12))[0]
        out.append(('range', f'entry ({int(k[0])},{int(k[1])}) = {D[k[0], k[1]]!r} is outside [0,1]'))
    for i in range(N):
        if (D[i] != 0).any() and abs(D[i].max() - 1.0) > 1e-12:
            out.append(('rowmax', f'row {i} is not empty but its largest entry is {D[i].max()!r}, not 1'))
            break
    need = Dg if diag_rows is None else diag_rows
    for i in range(N):
        if need[i] and D[i, i] == 0:
            out.append(('diag-dropped', f'the input has a non-zero diagonal entry in row {i}, the result has none'))
            break
    return out, D


# ------------------------------------------------------------------------------------------------
# classical / symmetric: public functions judged by the rule oracle
# ------------------------------------------------------------------------------------------------

def block_reduce(A, norm, drop=True):
    """nodal CSR of the block-wise reduced values (strength.py:193-212), exact on dyadic data; drop=False leaves out the
    absolute `data[np.abs(data) < 1e-16] = 0` step (finding classical-bsr-drop-below-1e-16)"""
    d = np.asarray(A.data)
    if norm == 'abs':
        data = np.max(np.max(np.abs(d), axis=1), axis=1)
    elif norm == 'min':
        data = np.min(np.min(d, axis=1), axis=1)
    else:
        data = np.sum(np.sum((np.conjugate(d) * d).real, axis=1), axis=1)
    if drop:
        data = np.where(np.abs(data) < 1e-16, 0.0, data)
    N = A.shape[0] // A.blocksize[0]
    return gen.csr_from_arrays(N, A.indptr, A.indices, np.asarray(data, dtype=float))


def expected_classical(A, theta, norm, block, literal, drop=True):
    """expected nodal non-zero pattern (list of sets) and the undecided entries"""
    dex = _data_short(A)
    if A.format == 'bsr' and block:
        R = block_reduce(A, norm, drop=drop)
        return classical_expected(exact_rows(R), theta, 'min' if norm == 'min' else 'abs', literal, dex)
    if A.format == 'bsr':
        bs = A.blocksize[0]
        C = gen.int32csr(A.tocsr())
        e1, f1 = classical_expected(exact_rows(C), theta, norm, literal, dex)
        N = A.shape[0] // bs
        exp = [set() for _ in range(N)]
        free = [set() for _ in range(N)]
        for i in range(A.shape[0]):
            exp[i // bs] |= {j // bs for j in e1[i]}
            free[i // bs] |= {j // bs for j in f1[i]}
        for I in range(N):
            free[I] -= exp[I]
        return exp, free
    return classical_expected(exact_rows(A), theta, norm, literal, dex)


def expected_symmetric(A, theta):
    if A.format == 'bsr':
        if theta == 0:
            N = A.shape[0] // A.blocksize[0]
            return [set(int(j) for j in A.indices[A.indptr[I]:A.indptr[I + 1]]) for I in range(N)], [set() for _ in range(N)], True
        d = np.asarray(A.data)
        fro2 = np.sum(np.sum((np.conjugate(d) * d).real, axis=1), axis=1)
        N = A.shape[0] // A.blocksize[0]
        # rule on Frobenius norms f = sqrt(fro2): f_ij^2 >= theta^2 f_ii f_jj  <=>  fro2_ij^2 >= theta^4 fro2_ii fro2_jj
        th = Fr(theta)
        sq = all(_is_square(frac(v)) for v in fro2)
        exact = _short(theta) and sq and _data_short(A)
        f2 = {}
        for I in range(N):
            for jj in range(A.indptr[I], A.indptr[I + 1]):
                f2[(I, int(A.indices[jj]))] = f2.get((I, int(A.indices[jj])), Fr(0)) + frac(fro2[jj])
        exp, free = [], []
        for I in range(N):
            keep, fr_ = set(), set()
            for (a, J), v in f2.items():
                if a != I or v == 0:
                    continue
                if J == I:
                    keep.add(J)
                    continue
                try:
                    if _ge(v * v, th ** 4 * f2.get((I, I), Fr(0)) * f2.get((J, J), Fr(0)), exact):
                        keep.add(J)
                except Near:
                    fr_.add(J)
            exp.append(keep)
            free.append(fr_)
        return exp, free, False
    e, f = symmetric_expected(exact_rows(A), theta, exact_hint=_data_short(A))
    return e, f, False


def _is_square(q):
    import math
    if q < 0:
        return False
    a, b = math.isqrt(q.numerator), math.isqrt(q.denominator)
    return a * a == q.numerator and b * b == q.denominator


def call_measure(api, A, theta=None, norm='abs', block=True, **kw):
    from pyamg import strength as ST
    if api == 'classical':
        return ST.classical_strength_of_connection(A, theta=theta, block=block, norm=norm)
    if api == 'symmetric':
        return ST.symmetric_strength_of_connection(A, theta=theta)
    raise ValueError(api)


def _hA(A):
    return hashlib.sha1(np.ascontiguousarray(A.data).tobytes() + A.indices.tobytes() + A.indptr.tobytes()).hexdigest()


def judge_family(ctx, A, api, norm='abs', block=True, thetas=THETAS, tag=''):
    try:
        return _judge_family(ctx, A, api, norm, block, thetas, tag)
    except Exception as ex:      # never reached on the unchanged tree: an output so malformed that the oracle itself fails
        from common import InfraError
        if isinstance(ex, InfraError):
            raise
        ctx.violation(f'{api}_strength_of_connection: the result cannot be judged ({type(ex).__name__}: {ex})',
                      case_of(A, api, norm=norm, block=block, theta=sorted(thetas)[0]))
        return []


def _judge_family(ctx, A, api, norm='abs', block=True, thetas=THETAS, tag=''):
    """classical / symmetric public function on one matrix over a theta grid: contract, rule, monotone, theta = 0.
    Returns the list of (theta, dense result) for the correspondence part."""
    cplx = _cplx(A)
    has_offd = bool(((lambda P: P & ~np.eye(P.shape[0], dtype=bool))(nodal_patterns(A)[1])).any())
    results = []
    prev = None
    hA = _hA(A)
    for th in sorted(thetas):
        params = {'theta': th, 'norm': norm, 'block': block}
        case = case_of(A, api, **params)
        ctx.case(key=_key(api, hA, th, norm, block, tag), nontrivial=has_offd,
                 sample={'api': api, 'fmt': A.format, 'n': A.shape[0], **params} if ctx.evaluations % 1499 == 0 else None)
        ctx.feat(f'api:{api}:{A.format}:{norm if api == "classical" else "-"}:{"block" if block else "noblock"}:{"c" if cplx else "r"}')

        def viol(msg, fkey=None, **extra):
            ctx.violation(f'{api}_strength_of_connection({A.format}{" complex" if cplx else ""}, theta={th}'
                          + (f', norm={norm!r}, block={block}' if api == 'classical' else '') + f'): {msg}', {**case, **extra}, fkey=fkey)
        try:
            S = call_measure(api, A, theta=th, norm=norm, block=block)
        except TypeError as ex:
            if cplx and api == 'classical' and norm == 'min':
                ctx.feat('rejects:complex-min-norm')      # no complex instantiation of the signed kernel: explicit rejection
                return results
            viol(f'raised {type(ex).__name__}: {ex}')
            return results
        except Exception as ex:
            viol(f'raised {type(ex).__name__}: {ex}')
            return results
        # rule: expected pattern.  exp = the property read literally; variants that explain the recorded findings:
        #   v_floor: signed norm with the maximum floored at 0 (classical-min-positive-offdiag)
        #   v_drop : additionally block-wise reduced values below 1e-16 zeroed (classical-bsr-drop-below-1e-16)
        bsr_block = api == 'classical' and A.format == 'bsr' and block
        if api == 'classical':
            exp, free = expected_classical(A, th, norm, block, literal=True, drop=False)
            v_floor, f1 = expected_classical(A, th, norm, block, literal=False, drop=False) if norm == 'min' else (exp, free)
            v_drop, f2 = expected_classical(A, th, norm, block, literal=False, drop=True) if bsr_block else (v_floor, f1)
            free = [a | b | c for a, b, c in zip(free, f1, f2)]
        else:
            exp, free, _ones = expected_symmetric(A, th)
            v_floor = v_drop = exp
        for fr_ in free:
            ctx.near_skipped += len(fr_)

        def explains(V, i):
            return not (V[i] - got[i] - free[i]) and not (got[i] - V[i] - free[i])

        def classify(i):
            if api != 'classical':
                return None
            if norm == 'min' and explains(v_floor, i):
                return 'classical-min-positive-offdiag'
            if bsr_block and explains(v_drop, i):
                return 'classical-bsr-drop-below-1e-16'
            return None
        fails, D = contract(A, S)
        got = [set(int(j) for j in np.nonzero(D[i])[0]) for i in range(D.shape[0])] if D is not None else []
        for code, msg in fails:
            fk = None
            if code == 'diag-dropped' and bsr_block and D is not None:
                Rn, Rd = block_reduce(A, norm, drop=False), block_reduce(A, norm, drop=True)
                bad = [i for i in range(Rn.shape[0]) if D[i, i] == 0 and nodal_patterns(A)[2][i]]
                if bad and norm == 'min' and all(Rn[i, i] == 0 for i in bad):
                    # finding: the block-wise 'min' reduction of a diagonal block whose smallest entry is 0 gives 0
                    fk = 'classical-bsr-min-zero-block-minimum'
                elif bad and all(Rd[i, i] == 0 for i in bad):        # reduced diagonal value non-zero but below 1e-16 (or 0 for 'min')
                    fk = 'classical-bsr-drop-below-1e-16'
            viol(msg, fkey=fk)
        if D is None:
            return results
        results.append((th, D))
        N = D.shape[0]
        for i in range(N):
            miss = exp[i] - got[i] - free[i]
            more = got[i] - exp[i] - free[i]
            if not miss and not more:
                continue
            fk = classify(i)
            if (fk is None and bsr_block and norm == 'min' and i in (v_drop[i] - got[i]) and len(v_drop[i] - got[i]) == 1
                    and not (got[i] - v_drop[i] - free[i]) and block_reduce(A, 'min')[i, i] == 0):
                fk = 'classical-bsr-min-zero-block-minimum'
            what = (f'row {i}: entries {sorted(miss)} satisfy the rule but are missing' if miss else
                    f'row {i}: entries {sorted(more)} do not satisfy the rule but are present')
            viol(what, fkey=fk, row=i, expected=sorted(exp[i]), got=sorted(got[i]))
            break
        # theta = 0 keeps the whole (non-zero) pattern
        if th == 0:
            _, Z, _ = nodal_patterns(A)
            if bsr_block:
                Z = block_reduce(A, norm, drop=False).toarray() != 0
            for i in range(N):
                lost = set(int(j) for j in np.nonzero(Z[i])[0]) - got[i]
                if lost:
                    viol(f'theta = 0 does not keep the whole pattern: row {i} loses {sorted(lost)}', fkey=classify(i), row=i)
                    break
        # monotone in theta
        if prev is not None:
            pth, pgot, pfree = prev
            for i in range(N):
                grown = got[i] - pgot[i] - free[i] - pfree[i]
                if grown:
                    viol(f'not monotone in theta: row {i} has entries {sorted(grown)} at theta={th} that are absent at theta={pth}', row=i, theta_small=pth)
                    break
        prev = (th, got, free)
    return results


def judge_kernel(ctx, op, A, th, impl):
    """raw kernel output (protocol string) against the rule: non-zero entries kept = rule, storage order preserved"""
    try:
        sp_, sj_, sx_ = impl.split(';')
        Sp = [int(v) for v in sp_.split(',')]
        Sj = [] if sj_ == '-' else [int(v) for v in sj_.split(',')]
    except Exception:
        return
    Ac = _canon(A)
    if Ac.nnz != A.nnz:
        return      # duplicates: the entry-wise rule is not defined by the property
    rows = exact_rows(Ac)
    if op == 'symmetric':
        exp, free = symmetric_expected(rows, th)
    else:
        exp, free = classical_expected(rows, th, 'min' if op == 'classical_min' else 'abs', literal=False)
    n = A.shape[0]
    for i in range(n):
        if not (0 <= Sp[i] <= Sp[i + 1] <= len(Sj)):
            ctx.violation(f'kernel {op}: row pointer of the result is not monotone / out of range', case_of(A, 'kernel:' + op, theta=th))
            return
        got = set(Sj[Sp[i]:Sp[i + 1]])
        nz = {j for j, v in rows[i].items() if not _iszero(v)}
        miss = (exp[i] - got - free[i])
        more = ((got & nz) - exp[i] - free[i]) | (got - set(rows[i]))
        if miss or more:
            ctx.violation(f'kernel {op}(theta={th}): row {i} keeps {sorted(got)}, the rule gives {sorted(exp[i])}',
                          case_of(A, 'kernel:' + op, theta=th))
            return


# ------------------------------------------------------------------------------------------------
# part B: public classical / symmetric vs the Lean model of the whole call, and the oracle
# ------------------------------------------------------------------------------------------------

def _cmp_pub(model, S, tol=8e-16):
    """model reply 'sp;sj;sx' (exact rationals) vs the CSR result: pattern exact, values to a few ulp"""
    try:
        msp, msj, msx = model.split(';')
    except ValueError:
        return False
    S = sp.csr_array(S)
    if msp != enc_ints(S.indptr) or msj != enc_ints(S.indices):
        return False
    vals = [] if msx == '-' else [Fr(t) for t in msx.split(',')]
    if len(vals) != len(S.data):
        return False
    for m, v in zip(vals, S.data):
        if not np.isfinite(v) or abs(float(m) - float(v)) > tol * max(1.0, abs(float(m))):
            return False
    return True


def part_b(ctx, count):
    rng = ctx.np_rng
    items = []
    for t in range(count):
        fam = ('csr', 'csr', 'csr', 'ccsr', 'bsr', 'bsr')[t % 6]
        thetas = sorted(set([0.0] + [float(x) for x in rng.choice(THETAS, size=3)]))
        if fam in ('csr', 'ccsr'):
            n = int(rng.integers(1, 10))
            cplx = fam == 'ccsr'
            rows, feats = gen_rows(rng, n, cplx)
            A = rows_to_csr(rows, complex if cplx else float, rng, unsorted=(t % 4 == 0))
            A, stag = rescale(rng, A, exact=True)
            ctx.feat(stag)
            if not A.has_sorted_indices and t % 8 == 0:
                A = A.copy()
            for f in feats:
                ctx.feat(f)
            tiny = TINY['float64']
            for norm in (('abs',) if cplx else ('abs', 'min')):
                judge_family(ctx, _canon(A), 'classical', norm=norm, block=(t % 3 != 0), thetas=thetas)
                for th in thetas:
                    S = _try(lambda: call_measure('classical', A, theta=th, norm=norm))
                    line = (f'c14_pub_cclassical {enc_rat(th)} {enc_rat(tiny)} {hdr(A)}' if cplx else
                            f'c14_pub_classical {norm} {enc_rat(th)} {enc_rat(tiny)} {hdr(A)}')
                    items.append((line, S, 'classical', A, {'norm': norm, 'block': True}, th))
            sthetas = thetas + [float(rng.choice([2.0, 4.0]))]
            judge_family(ctx, _canon(A), 'symmetric', thetas=sthetas)
            for th in sthetas:
                S = _try(lambda: call_measure('symmetric', A, theta=th))
                line = f'c14_pub_{"c" if cplx else ""}sym {enc_rat(th)} {enc_rat(tiny)} {hdr(A)}'
                items.append((line, S, 'symmetric', A, {}, th))
        else:
            N = int(rng.integers(1, 6))
            bs = int(rng.integers(1, 4))
            A, feats = gen_bsr(rng, N, bs)
            A, stag = rescale(rng, A, exact=True)
            ctx.feat(stag)
            for f in feats:
                ctx.feat('bsr:' + f)
            tiny = TINY['float64']
            flat = enc_rats(np.asarray(A.data).ravel())
            for norm in ('abs', 'min', 'fro'):
                judge_family(ctx, A, 'classical', norm=norm, block=True, thetas=thetas)
                for th in thetas:
                    S = _try(lambda: call_measure('classical', A, theta=th, norm=norm, block=True))
                    line = (f'c14_pub_classical_bsr {norm} {enc_rat(th)} {enc_rat(tiny)} {enc_rat(DROP)} {N} {enc_ints(A.indptr)} '
                            f'{enc_ints(A.indices)} {bs} {flat}')
                    items.append((line, S, 'classical', A, {'norm': norm, 'block': True}, th))
            C = gen.int32csr(A.tocsr())
            for norm in ('abs', 'min'):
                judge_family(ctx, A, 'classical', norm=norm, block=False, thetas=thetas)
                for th in thetas:
                    S = _try(lambda: call_measure('classical', A, theta=th, norm=norm, block=False))
                    line = f'c14_pub_classical_amalg {norm} {enc_rat(th)} {enc_rat(tiny)} {bs} {hdr(C)}'
                    items.append((line, S, 'classical', A, {'norm': norm, 'block': False}, th))
            sthetas = thetas + [float(rng.choice([2.0, 4.0]))]
            judge_family(ctx, A, 'symmetric', thetas=sthetas)
            for th in sthetas:
                S = _try(lambda: call_measure('symmetric', A, theta=th))
                line = f'c14_pub_sym_bsr {enc_rat(th)} {enc_rat(tiny)} {N} {enc_ints(A.indptr)} {enc_ints(A.indices)} {bs} {flat}'
                items.append((line, S, 'symmetric', A, {}, th))
    return items


def part_b_finish(ctx, items, outs):
    for (line, S, api, A, kw, th), o in zip(items, outs):
        ctx.case(key=_key(line), nontrivial=A.nnz > A.shape[0] // (A.blocksize[0] if A.format == 'bsr' else 1),
                 sample={'request': line[:160], 'model': o[:80]} if ctx.evaluations % 1499 == 0 else None)
        ctx.feat('pub-model:' + line.split(' ')[0])
        if o == 'inexact':
            ctx.feat('model_rejects_irrational_modulus')
            continue
        if isinstance(S, Exception):
            if isinstance(S, TypeError) and _cplx(A) and kw.get('norm') == 'min':
                continue
            ctx.corr('public ' + api, case_of(A, api, theta=th, **kw), o, f'raised {type(S).__name__}: {S}')
            continue
        if not _cmp_pub(o, S):
            ctx.corr('public ' + api, case_of(A, api, theta=th, **kw), o, enc_csr(sp.csr_array(S)))
            # the oracle has judged this (matrix, theta) above through judge_family; judge the whole default grid too
            judge_family(ctx, A if A.format == 'bsr' else _canon(A), api, norm=kw.get('norm', 'abs'), block=kw.get('block', True),
                         thetas=THETAS, tag='after-corr')


def _try(f):
    try:
        return f()
    except Exception as ex:     # judged by judge_family
        return ex


# ------------------------------------------------------------------------------------------------
# part C: every measure, wider inputs (float32, non-dyadic theta, complex BSR, symmetric matrices), contract oracle
# ------------------------------------------------------------------------------------------------

def _sym_matrix(rng, n, cplx, kind):
    """test matrices for the relaxation-based measures: 'mmat' (weighted graph Laplacian + shift), 'mixed' (mixed sign),
    'nonsym' (nonsymmetric values on a symmetric pattern), 'nspat' (nonsymmetric pattern), optional missing diagonals"""
    mask = np.triu(rng.random((n, n)) < float(rng.choice([0.3, 0.6, 1.0])), 1)
    W = mask * rng.choice([1.0, 2.0, 3.0, 4.0, 0.5], size=(n, n))
    if cplx:
        W = W * np.array([1, 1j, -1j, (3 + 4j) / 5])[rng.integers(4, size=(n, n))]
    W = W + W.conj().T
    if kind == 'mmat':
        M = np.diag(np.abs(W).sum(1) + rng.choice([0.0, 1.0], size=n)) - W
        M[np.arange(n), np.arange(n)] += (np.abs(M).sum(1) == 0)
    else:
        S = np.where(rng.random((n, n)) < 0.3, -1.0, 1.0)
        S = np.triu(S, 1) + np.triu(S, 1).T
        M = -W * S + np.diag(rng.choice([2.0, 4.0, 8.0, 16.0], size=n))
    if kind == 'nonsym':
        M = M * np.where(np.eye(n, dtype=bool), 1.0, rng.choice([1.0, 2.0, 0.5], size=(n, n)))
    if kind == 'nspat':
        M = M * (np.eye(n, dtype=bool) | (rng.random((n, n)) < 0.7))
    return M


def other_case(rng, t):
    """(A, api, params, feats) for the evolution / energy / distance / algebraic / affinity measures"""
    api = ('evolution', 'evolution', 'energy', 'distance', 'algebraic', 'affinity')[t % 6]
    fmt = 'bsr' if (t % 5 == 0 and api in ('evolution', 'energy', 'distance')) else 'csr'
    cplx = (t % 7 == 3) and api in ('evolution', 'energy', 'distance')
    kind = str(rng.choice(['mmat', 'mmat', 'mixed', 'nonsym', 'nspat']))
    feats = {'matrix:' + kind}
    if fmt == 'bsr':
        bs = int(rng.integers(1, 4))
        N = int(rng.integers(1, 5))
        n = N * bs
    else:
        bs = 1
        n = N = int(rng.integers(1, 9 if api != 'energy' else 7))
    M = _sym_matrix(rng, n, cplx, kind)
    if rng.random() < 0.15 and n > 1:
        k = int(rng.integers(n))
        M[k, k] = 0
        feats.add('missing_diag')
    if fmt == 'bsr':
        A = sp.bsr_array(M, blocksize=(bs, bs))
        A.indptr = A.indptr.astype(np.int32)
        A.indices = A.indices.astype(np.int32)
    else:
        A = gen.int32csr(sp.csr_array(M))
    A, stag = rescale(rng, A, exact=False)
    feats.add(stag)
    p = {'npseed': int(rng.integers(2 ** 31))}
    if api == 'evolution':
        p.update(epsilon=float(rng.choice([1.0, 2.0, 4.0, 10.0, np.inf])), k=int(rng.choice([1, 2, 2, 3, 4, 5, 6, 8])),
                 proj_type=str(rng.choice(['l2', 'D_A'])), symmetrize_measure=bool(rng.integers(2)),
                 block_flag=bool(fmt == 'bsr' and rng.integers(2)), B=str(rng.choice(['none', 'ones', 'vec', 'veczero', 'two', 'three'])))
    elif api == 'energy':
        p.update(theta=float(rng.choice([0.0, 0.1, 0.25, 0.5, 1.0])), k=int(rng.integers(0, 4)))
    elif api == 'distance':
        dim = int(rng.integers(1, 4))
        p.update(theta=float(rng.choice([1.0, 1.5, 2.0, 4.0, np.inf])), relative_drop=bool(rng.integers(2)),
                 V=rng.integers(0, 4, size=(N, dim)).astype(float).tolist())
    elif api == 'algebraic':
        p.update(alpha=float(rng.choice([0.25, 0.5, 1.0])), R=int(rng.integers(1, 7)), k=int(rng.integers(1, 25)),
                 epsilon=float(rng.choice([1.0, 2.0, 4.0])), p=float(rng.choice([1.0, 1.5, 2.0, 3.0, 4.0, np.inf])))
    else:
        p.update(alpha=float(rng.choice([0.25, 0.5, 1.0])), R=int(rng.integers(1, 7)), k=int(rng.integers(1, 25)),
                 epsilon=float(rng.choice([1.0, 2.0, 4.0])))
    return A, api, p, feats


def call_other(api, A, p):
    from pyamg import strength as ST
    np.random.seed(p['npseed'])
    n = A.shape[0]
    if api == 'evolution':
        B = _g_bmat(p, A.dtype) if isinstance(p['B'], list) else {'none': None, 'ones': np.ones((n, 1), dtype=A.dtype), 'vec': (1.0 + (np.arange(n) % 3)).reshape(-1, 1).astype(A.dtype),
             'veczero': (np.arange(n) % 3).reshape(-1, 1).astype(A.dtype),
             'wide': (10.0 ** ((np.arange(n) * 3) % 5 - 2)).reshape(-1, 1).astype(A.dtype),
             'two': np.column_stack([np.ones(n), np.arange(n) - (n - 1) / 2.0]).astype(A.dtype),
             'three': np.column_stack([np.ones(n), np.arange(n) % 2, (np.arange(n) % 3 == 0)]).astype(A.dtype)}[p['B']]
        return ST.evolution_strength_of_connection(A, B, epsilon=p['epsilon'], k=p['k'], proj_type=p['proj_type'],
                                                   block_flag=p['block_flag'], symmetrize_measure=p['symmetrize_measure'])
    if api == 'energy':
        return ST.energy_based_strength_of_connection(A, theta=p['theta'], k=p['k'])
    if api == 'distance':
        return ST.distance_strength_of_connection(A, np.array(p['V'], dtype=float), theta=p['theta'], relative_drop=p['relative_drop'])
    if api == 'algebraic':
        return ST.algebraic_distance(A, alpha=p['alpha'], R=p['R'], k=p['k'], epsilon=p['epsilon'], p=p['p'])
    if api == 'affinity':
        return ST.affinity_distance(A, alpha=p['alpha'], R=p['R'], k=p['k'], epsilon=p['epsilon'])
    raise ValueError(api)


def judge_other(ctx, A, api, p):
    try:
        return _judge_other(ctx, A, api, p)
    except Exception as ex:
        from common import InfraError
        if isinstance(ex, InfraError):
            raise
        ctx.violation(f'{api}: the result cannot be judged ({type(ex).__name__}: {ex})', case_of(A, api, **p))


def _judge_other(ctx, A, api, p):
    case = case_of(A, api, **p)
    cplx = _cplx(A)
    P, Z, Dg = nodal_patterns(A)
    offd = bool((Z & ~np.eye(Z.shape[0], dtype=bool)).any())
    ctx.case(key=_key(api, _hA(A), sorted((k, str(v)) for k, v in p.items())), nontrivial=offd,
             sample={'api': api, 'fmt': A.format, 'n': A.shape[0], **{k: v for k, v in p.items() if k != 'V'}} if ctx.evaluations % 499 == 0 else None)
    ctx.feat(f'api:{api}:{A.format}:{"c" if cplx else "r"}')
    name = {'evolution': 'evolution_strength_of_connection', 'energy': 'energy_based_strength_of_connection',
            'distance': 'distance_strength_of_connection', 'algebraic': 'algebraic_distance', 'affinity': 'affinity_distance'}[api]
    pp = {k: v for k, v in p.items() if k not in ('V', 'npseed')}

    def viol(msg, fkey=None):
        ctx.violation(f'{name}({A.format}{" complex" if cplx else ""} n={A.shape[0]}, {pp}): {msg}', case, fkey=fkey)
    from pyamg import strength as ST
    captured = []
    orig = ST.scale_rows_by_largest_entry

    def spy(M):      # observe the argument of the last step (scale_rows_by_largest_entry); behaviour unchanged
        captured.append(M.copy())
        return orig(M)
    ST.scale_rows_by_largest_entry = spy
    inner = []
    orig_cl = ST.classical_strength_of_connection

    def spy_cl(M, theta=0.1, **kw):      # the energy measure handed to the classical drop rule inside energy_based_...
        inner.append((M.copy(), theta))
        return orig_cl(M, theta=theta, **kw)
    if api == 'energy':
        ST.classical_strength_of_connection = spy_cl
    filt = []
    orig_f = ST.amg_core.apply_distance_filter

    def spy_f(n_, eps_, ip_, ix_, dx_):     # the strength values handed to the drop-tolerance filter inside evolution_...
        filt.append((int(n_), float(eps_), np.array(ip_), np.array(ix_), np.array(dx_)))
        return orig_f(n_, eps_, ip_, ix_, dx_)
    if api == 'evolution':
        ST.amg_core.apply_distance_filter = spy_f
    try:
        S = call_other(api, A, p)
    except Exception as ex:
        viol(f'raised {type(ex).__name__}: {ex}')
        return
    finally:
        ST.scale_rows_by_largest_entry = orig
        ST.classical_strength_of_connection = orig_cl
        ST.amg_core.apply_distance_filter = orig_f
    if (api == 'evolution' and len(filt) == 1 and TAIL_QUEUE is not None and A.format == 'csr' and sp.issparse(S)
            and p['epsilon'] in (1.0, 2.0, 4.0)):
        n0, eps0, ip0, ix0, dx0 = filt[0]
        T0 = sp.csr_array((dx0, ix0, ip0), shape=(n0, n0))
        # hypotheses of evolution_tail_contract on this instance: real, finite, non-negative values on a canonical pattern
        if ((not np.iscomplexobj(dx0)) and np.isfinite(dx0).all() and (dx0 >= 0).all() and T0.has_canonical_format
                and not ((dx0 > 0) & (dx0 < float(TINY['float64']))).any()):
            Ss = sp.csr_array(S).copy()
            Ss.sort_indices()
            TAIL_QUEUE.append((f'c14_evol_tail {enc_rat(BIG64)} {enc_rat(TINY["float64"])} {enc_rat(eps0)} {int(p["symmetrize_measure"])} '
                               f'{hdr(T0, dx0.astype(float))}', Ss, A, 'evolution-tail', p))
            ctx.feat('evolution_tail_hypothesis_checked')
            # "pattern contained in the input" needs the filtered pattern to lie inside the pattern of A (it does not for k = 1)
            ctx.feat('evolution_tail_pattern_inside_A' if not ((T0.toarray() != 0) & ~P).any() else 'evolution_tail_pattern_outside_A')
        else:
            ctx.feat('evolution_tail_hypothesis_failed')
    if (api == 'energy' and inner and TAIL_QUEUE is not None and A.format == 'csr' and sp.issparse(S) and _short(p['theta'])):
        M0, th0 = inner[-1]
        M0 = sp.csr_array(M0)
        d0 = np.asarray(M0.data)
        if np.iscomplexobj(d0) and (d0.imag == 0).all():
            d0 = d0.real.copy()          # abs(val) stored in a complex array
        # hypotheses of energy_tail_contract on this instance: the measure is real, finite, free of subnormals, lives on the
        # (canonical) pattern of A
        if ((not np.iscomplexobj(d0)) and np.isfinite(d0).all() and M0.has_canonical_format and A.has_canonical_format
                and np.array_equal(M0.indptr, A.indptr) and np.array_equal(M0.indices, A.indices)
                and not ((np.abs(d0) > 0) & (np.abs(d0) < float(TINY['float64']))).any()):
            Ss = sp.csr_array(S).copy()
            Ss.sort_indices()
            TAIL_QUEUE.append((f'c14_energy_tail {enc_rat(th0)} {enc_rat(TINY["float64"])} {hdr(M0, d0.astype(float))}', Ss, A, 'energy-tail', p))
            ctx.feat('energy_tail_hypothesis_checked')
        else:
            ctx.feat('energy_tail_hypothesis_failed')
    if captured and sp.issparse(S) and TAIL_QUEUE is not None:
        T = sp.csr_array(captured[-1])
        d = np.asarray(T.data)
        # hypothesis of scaling_contract / tail_contract, checked on this instance: real, finite, non-negative, no subnormals
        if (not np.iscomplexobj(d)) and np.isfinite(d).all() and (d >= 0).all() and not ((d > 0) & (d < float(TINY['float64']))).any():
            TAIL_QUEUE.append((f'c14_scale {enc_rat(TINY["float64"])} {hdr(T, d.astype(float))}', S, A, api, p))
            ctx.feat('tail_hypothesis_checked:' + api)
        else:
            ctx.feat('tail_hypothesis_failed:' + api)
    fails, D = contract(A, S, diag_rows=P.diagonal() & Dg)
    if fails and fails[0][0] == 'nonfinite' and api == 'affinity':
        # finding: a test vector row that relaxes to exactly zero (isolated node, alpha = 1) gives 0/0 in the affinity formula
        np.random.seed(p['npseed'])
        from pyamg import strength as ST
        x = ST.relaxation_vectors(A, p['R'], p['k'], p['alpha'])
        if (np.abs(x).sum(axis=1) == 0).any():
            viol(fails[0][1], fkey='affinity-zero-test-vector')
            return
    Pt = P | P.T
    for code, msg in fails:
        fk = None
        if code == 'added-diag':
            fk = 'soc-added-diagonal'            # DESIGN section 7 #14: `+ I` where the input stores no diagonal entry
        elif code == 'extra' and api == 'evolution' and D is not None:
            extra = (D != 0) & ~P & ~np.eye(P.shape[0], dtype=bool)
            if (extra & ~Pt).any():
                fk = None
            elif p['symmetrize_measure']:
                fk = 'evolution-symmetrize-nonsymmetric-pattern'   # 0.5 (S + S^T) on a structurally nonsymmetric input
            elif p['k'] == 1 and (A.format == 'csr' or A.blocksize[0] == 1):      # numPDEs == 1
                fk = 'evolution-k1-transposed-pattern'             # k = 1: the pattern of A^T is used, no mask is applied
        viol(msg, fkey=fk)


TAIL_QUEUE = None


def flush_tail(ctx):
    """last step of every measure (scale_rows_by_largest_entry) vs the Lean definition scaleRow, on the observed argument"""
    global TAIL_QUEUE
    q, TAIL_QUEUE = TAIL_QUEUE or [], None
    if not q:
        return
    outs = _lean(ctx, [it[0] for it in q])
    for (line, S, A, api, p), o in zip(q, outs):
        ctx.case(key=_key(line), nontrivial=True, sample=None)
        tail = api.endswith('-tail')
        ctx.feat('tail-model:' + (api if tail else 'scale:' + api))
        if not _cmp_pub(o, S, tol=3e-15 if tail else 8e-16):
            ctx.corr((api.replace('-', ' ') + ' model') if tail else ('last step of ' + api), case_of(A, api.replace('-tail', ''), **p), o,
                     enc_csr(sp.csr_array(S)))


def part_c(ctx, n_rule, n_other):
    global TAIL_QUEUE
    rng = ctx.np_rng
    # classical / symmetric on wider inputs
    plan = [0] * 2 + [1] * 5 + [2] * 2 + [3] * 2 + [4] * 3 + [5] * 2       # complex BSR is the thinnest region elsewhere
    for t in range(n_rule):
        if ctx.time_left() < (45 if ctx.quick else 300):
            ctx.feat('time_guard_stop:rule')
            break
        sel = plan[t % len(plan)]
        if sel == 0:            # float32 CSR
            n = int(rng.integers(1, 9))
            rows, feats = gen_rows(rng, n, False)
            A = rows_to_csr(rows, np.float32)
        elif sel == 1:          # complex BSR
            A, feats = gen_bsr(rng, int(rng.integers(1, 5)), int(rng.choice([1, 2, 2, 3])), cplx=True)
        elif sel == 2:          # bigger CSR, non-dyadic thetas
            n = int(rng.integers(5, 14))
            rows, feats = gen_rows(rng, n, t % 4 == 0)
            A = rows_to_csr(rows, complex if t % 4 == 0 else float)
        elif sel == 3:          # structured: Laplacian-like rows with exact ties everywhere
            n = int(rng.integers(2, 10))
            M = _sym_matrix(rng, n, False, str(rng.choice(['mmat', 'mixed', 'nspat'])))
            A = gen.int32csr(sp.csr_array(M))
            feats = {'structured'}
        elif sel == 4:
            A, feats = gen_bsr(rng, int(rng.integers(1, 6)), int(rng.integers(1, 4)))
        else:
            n = int(rng.integers(1, 7))
            rows, feats = gen_rows(rng, n, False, modes=['normal', 'diag_only', 'empty', 'zero_diag', 'missing_diag', 'zero_offd', 'offd_only'])
            A = rows_to_csr(rows, float)
        A, stag = rescale(rng, A, exact=False)
        ctx.feat(stag)
        thetas = THETAS if sel != 2 else sorted(set([0.0, 0.1, 0.3, 1.0 / 3.0, 0.7, 0.9, 1.0] + [float(rng.random())]))
        cplx = _cplx(A)
        for norm in (('abs', 'fro') if (cplx and A.format == 'bsr') else ('abs',) if cplx else ('abs', 'min', 'fro') if (A.format == 'bsr' or sel in (3, 5)) else ('abs', 'min')):
            judge_family(ctx, A, 'classical', norm=norm, block=True, thetas=thetas, tag='C')
            if A.format == 'bsr' and norm != 'fro' and not cplx:
                judge_family(ctx, A, 'classical', norm=norm, block=False, thetas=thetas, tag='C')
        judge_family(ctx, A, 'symmetric', thetas=thetas + ([2.0, 5.0] if sel in (3, 5) else []), tag='C')
    # the other measures
    for t in range(n_other):
        if ctx.time_left() < (40 if ctx.quick else 200):
            ctx.feat('time_guard_stop:other')
            break
        A, api, p, feats = other_case(rng, t)
        for f in feats:
            ctx.feat(f)
        if TAIL_QUEUE is None:
            TAIL_QUEUE = []
        judge_other(ctx, A, api, p)
    flush_tail(ctx)


# ------------------------------------------------------------------------------------------------
# part D: distance_strength_of_connection and the distance_measure_common tail of algebraic_distance /
# affinity_distance vs their Lean models (pattern exact, values to a few ulp)
# ------------------------------------------------------------------------------------------------

def _measure_d(api, A, p):
    """the distances func(x) of algebraic_distance / affinity_distance on the non-zero pattern of A, recomputed from
    the definition with the same relaxation vectors (same numpy operations, hence the same floats)"""
    from pyamg import strength as ST
    np.random.seed(p['npseed'])
    x = ST.relaxation_vectors(A, p['R'], p['k'], p['alpha'])
    rows, cols = A.nonzero()
    if api == 'algebraic':
        if p['p'] != np.inf:
            avg = np.sum(np.abs(x[rows] - x[cols]) ** p['p'], axis=1) / p['R']
            d = avg ** (1.0 / p['p'])
        else:
            d = np.abs(x[rows] - x[cols]).max(axis=1)
    else:
        d = 1 - np.sum(x[rows] * x[cols], axis=1) ** 2 / (np.sum(x[rows] ** 2, axis=1) * np.sum(x[cols] ** 2, axis=1))
    return rows, cols, d


def part_d(ctx, count):
    rng = ctx.np_rng
    items = []
    tiny = TINY['float64']
    for t in range(count):
        kind = str(rng.choice(['mmat', 'mixed', 'nonsym', 'nspat']))
        if t % 2 == 0:
            # distance_strength_of_connection, CSR or BSR, coordinates with (mostly) rational distances
            fmt = 'bsr' if t % 6 == 0 else 'csr'
            bs = int(rng.integers(1, 4)) if fmt == 'bsr' else 1
            N = int(rng.integers(1, 8))
            M = _sym_matrix(rng, N * bs, False, kind)
            if rng.random() < 0.2 and N > 1:
                k = int(rng.integers(N * bs))
                M[k, k] = 0
            if fmt == 'bsr':
                A = sp.bsr_array(M, blocksize=(bs, bs))
                A.indptr, A.indices = A.indptr.astype(np.int32), A.indices.astype(np.int32)
            else:
                A = gen.int32csr(sp.csr_array(M))
            dim = int(rng.choice([1, 1, 2, 3]))
            V = rng.integers(0, 4, size=(N, dim)).astype(float) * (np.array([3.0, 4.0, 12.0])[:dim] if rng.random() < 0.5 else 1.0)
            theta = float(rng.choice([1.0, 1.5, 2.0, 4.0, np.inf]))
            p = {'npseed': 0, 'theta': theta, 'relative_drop': bool(rng.integers(2)), 'V': V.tolist()}
            vs = ';'.join(enc_rats(r) for r in V)
            # the model reads the nodal pattern with sorted rows (the measure does not depend on the storage order; the
            # real function is called on A as generated, possibly with unsorted BSR rows)
            P = sp.csr_array((np.ones(len(A.indices)), A.indices.copy(), A.indptr.copy()), shape=(N, N))
            P.sort_indices()
            line = (f'c14_distance {enc_rat(BIG64)} {enc_rat(tiny)} {enc_rat(Fr(1e-6))} {"inf" if theta == np.inf else enc_rat(theta)} '
                    f'{int(p["relative_drop"])} {N} {enc_ints(P.indptr)} {enc_ints(P.indices)} {vs}')
            items.append((line, A, 'distance', p))
        else:
            api = 'algebraic' if t % 4 == 1 else 'affinity'
            n = int(rng.integers(1, 9))
            M = _sym_matrix(rng, n, False, kind)
            if rng.random() < 0.15 and n > 1:
                k = int(rng.integers(n))
                M[k, k] = 0
            A = gen.int32csr(sp.csr_array(M))
            A, stag = rescale(rng, A, exact=False)
            ctx.feat(stag)
            p = {'npseed': int(rng.integers(2 ** 31)), 'alpha': float(rng.choice([0.25, 0.5, 1.0])), 'R': int(rng.integers(1, 7)),
                 'k': int(rng.integers(1, 25)), 'epsilon': float(rng.choice([1.0, 2.0, 4.0]))}
            if api == 'algebraic':
                p['p'] = float(rng.choice([1.0, 1.5, 2.0, 3.0, 4.0, np.inf]))
            try:
                rows, cols, d = _measure_d(api, A, p)
            except Exception:
                d = np.array([np.nan])
            if not np.isfinite(d).all():
                ctx.feat('tail_model_skipped:nonfinite_distance')     # judged by the contract oracle (finding affinity-zero-test-vector)
                judge_other(ctx, A, api, p)
                continue
            C0 = gen.int32csr(sp.csr_array((d, (rows, cols)), shape=A.shape))
            line = f'c14_dist_common {enc_rat(BIG64)} {enc_rat(tiny)} {enc_rat(p["epsilon"])} {hdr(C0)}'
            items.append((line, A, api, p))
    return items


def part_d_finish(ctx, items, outs):
    for (line, A, api, p), o in zip(items, outs):
        has_offd = A.nnz > A.shape[0] // (A.blocksize[0] if A.format == 'bsr' else 1)
        ctx.case(key=_key(line), nontrivial=has_offd, sample={'request': line[:160], 'model': o[:80]} if ctx.evaluations % 499 == 0 else None)
        ctx.feat('tail-model:' + api)
        if o == 'inexact':
            ctx.feat('model_rejects_irrational_distance')
            judge_other(ctx, A, api, p)
            continue
        S = _try(lambda: call_other(api, A, p))
        if not isinstance(S, Exception) and sp.issparse(S):
            S = sp.csr_array(S).copy()
            S.sort_indices()            # `C + I` of scipy returns the rows of a non-canonical operand in no particular order
        if isinstance(S, Exception) or not _cmp_pub(o, S, tol=3e-15):
            ctx.corr('public ' + api, case_of(A, api, **p), o,
                     f'raised {type(S).__name__}: {S}' if isinstance(S, Exception) else enc_csr(sp.csr_array(S)))
            judge_other(ctx, A, api, p)


# ------------------------------------------------------------------------------------------------
# part E (extension E28): the WHOLE of energy_based_strength_of_connection and of evolution_strength_of_connection
# (real canonical CSR input; evolution: NullDim == 1, k a power of two >= 2, finite epsilon) vs the Lean models
# energyFull / evolFull.  Only the spectral-radius estimate is an input of the models: it is recorded from the real call
# through a pass-through wrapper.  Stages observed inside the call (energy measure at the inner classical call; Atilde after
# incomplete_mat_mult_csr; strength values at apply_distance_filter) are compared as well.
# ------------------------------------------------------------------------------------------------

NEG001 = Fr(-0.01)
WK = Fr(1e-4)
SQE = Fr(float(np.sqrt(np.finfo(float).eps)))


def _call_spied(api, A, p):
    """the real function with pass-through wrappers (no change of behaviour) recording the spectral-radius estimate and the
    intermediate stages"""
    from pyamg import strength as ST
    rec = {'rho': [], 'inner': [], 'filt': [], 'inc': []}
    o_rho, o_cl = ST.approximate_spectral_radius, ST.classical_strength_of_connection
    o_f, o_i = ST.amg_core.apply_distance_filter, ST.amg_core.incomplete_mat_mult_csr

    def s_rho(M, *a, **kw):
        r = o_rho(M, *a, **kw)
        rec['rho'].append(r)
        return r

    def s_cl(M, theta=0.1, **kw):
        rec['inner'].append((M.copy(), theta))
        return o_cl(M, theta=theta, **kw)

    def s_f(n_, eps_, ip_, ix_, dx_):
        rec['filt'].append((np.array(ip_), np.array(ix_), np.array(dx_)))
        return o_f(n_, eps_, ip_, ix_, dx_)

    def s_i(*a):
        r = o_i(*a)
        rec['inc'].append((np.array(a[6]), np.array(a[7]), np.array(a[8])))
        return r
    ST.approximate_spectral_radius = s_rho
    if api == 'energy':
        ST.classical_strength_of_connection = s_cl
    ST.amg_core.apply_distance_filter, ST.amg_core.incomplete_mat_mult_csr = s_f, s_i
    try:
        S = call_other(api, A.copy(), p)
    finally:
        ST.approximate_spectral_radius, ST.classical_strength_of_connection = o_rho, o_cl
        ST.amg_core.apply_distance_filter, ST.amg_core.incomplete_mat_mult_csr = o_f, o_i
    return S, rec


def _dec_rows(tok):
    """'sp;sj;sx' -> {(i, j): Fraction}"""
    a, b, c = tok.split(';')
    ip = [int(t) for t in a.split(',')]
    ix = [] if b == '-' else [int(t) for t in b.split(',')]
    vx = [] if c == '-' else [Fr(t) for t in c.split(',')]
    return {(i, ix[jj]): vx[jj] for i in range(len(ip) - 1) for jj in range(ip[i], ip[i + 1])}


def _arr_dict(ip, ix, dx, drop_zero=False):
    return {(i, int(ix[jj])): float(dx[jj]) for i in range(len(ip) - 1) for jj in range(ip[i], ip[i + 1])
            if not (drop_zero and dx[jj] == 0)}


def _bvec(kind, n):
    """the single candidate vectors of call_other as float arrays"""
    return {'none': np.ones(n), 'ones': np.ones(n), 'vec': 1.0 + (np.arange(n) % 3), 'veczero': (np.arange(n) % 3).astype(float),
            'wide': 10.0 ** ((np.arange(n) * 3) % 5 - 2)}[kind]


def full_case(rng, t):
    api = 'energy' if t % 2 == 0 else 'evolution'
    kind = str(rng.choice(['mmat', 'mmat', 'mmat', 'mixed', 'nonsym', 'nspat']))
    n = int(rng.integers(1, 8 if api == 'energy' else 10))
    M = _sym_matrix(rng, n, False, kind)
    feats = {'full:' + api, 'full:matrix:' + kind}
    if rng.random() < 0.12 and n > 1:
        k = int(rng.integers(n))
        M[k, k] = 0
        feats.add('full:missing_diag')
    A = gen.int32csr(sp.csr_array(M))
    if rng.random() < 0.12 and A.nnz > n:
        A.data[int(rng.integers(A.nnz))] = 0.0          # an explicitly stored zero
        feats.add('full:stored_zero')
    if rng.random() < 0.25:
        A.data = A.data * SCALE_P2[int(rng.integers(len(SCALE_P2)))]
        feats.add('full:global_scale')
    p = {'npseed': int(rng.integers(2 ** 31))}
    if api == 'energy':
        p.update(theta=float(rng.choice([0.0, 0.1, 0.25, 0.5, 1.0])), k=int(rng.integers(0, 4)))
    else:
        p.update(epsilon=float(rng.choice([4.0, 4.0, 2.0, 10.0, 1.0])), k=int(rng.choice([2, 2, 2, 4, 8])),
                 proj_type=str(rng.choice(['l2', 'D_A'])), symmetrize_measure=bool(rng.random() < 0.7), block_flag=False,
                 B=str(rng.choice(['none', 'none', 'ones', 'vec', 'veczero', 'wide', 'wide'])))
    return A, api, p, feats


def part_e(ctx, count):
    rng = ctx.np_rng
    items = []
    tiny = TINY['float64']
    for t in range(count):
        A, api, p, feats = full_case(rng, t)
        for f in feats:
            ctx.feat(f)
        try:
            S, rec = _call_spied(api, A, p)
        except Exception:
            judge_other(ctx, A, api, p)        # the oracle reports the exception
            continue
        if not sp.issparse(S) or len(rec['rho']) != 1 or not np.isfinite(rec['rho'][0]) or np.iscomplexobj(rec['rho'][0]) \
                or not rec['rho'][0] > 0:
            ctx.feat('full:skipped:no_spectral_radius')
            judge_other(ctx, A, api, p)
            continue
        c = 1.0 / float(rec['rho'][0])
        if api == 'energy':
            line = (f'ext_c14_energy {enc_rat(c)} {enc_rat(NEG001)} {enc_rat(tiny)} {enc_rat(p["theta"])} {p["k"]} {hdr(A)}')
        else:
            n = A.shape[0]
            b = _bvec(p['B'], n)
            m = {2: 0, 4: 1, 8: 2}[p['k']]
            line = (f'ext_c14_evol {enc_rat(BIG64)} {enc_rat(tiny)} {enc_rat(p["epsilon"])} {enc_rat(WK)} {enc_rat(SQE)} {enc_rat(WK)} '
                    f'{enc_rat(c)} {m} {int(p["symmetrize_measure"])} {enc_rats(b)} {hdr(A)}')
        items.append((line, A, api, p, S, rec))
    return items


def _cmp_dict(model, impl, tol, ignore_diag=False):
    """-> (ok, worst); model {(i,j): Fraction}, impl {(i,j): float}; tol: float or function key -> float"""
    km = {k for k in model if not (ignore_diag and k[0] == k[1])}
    ki = {k for k in impl if not (ignore_diag and k[0] == k[1])}
    if km != ki:
        return False, float('inf')
    worst = 0.0
    for k in km:
        m, v = float(model[k]), impl[k]
        tl = tol(k) if callable(tol) else tol
        if not np.isfinite(v):
            return False, float('inf')
        e = abs(m - v) / max(1.0, abs(m))
        worst = max(worst, e / tl)
    return worst <= 1.0, worst


def _energy_finish(ctx, line, A, p, S, rec, o):
    case = case_of(A, 'energy', **p)
    n = A.shape[0]
    if o == 'undefined':
        ctx.feat('full:energy:model_rejects_zero_denominator')
        return True
    try:
        t_meas, t_res, t_den, t_aden = o.split('|')
        meas, res = _dec_rows(t_meas), _dec_rows(t_res)
        den = [float(Fr(t)) for t in dec_list(t_den)]
        aden = [float(Fr(t)) for t in dec_list(t_aden)]
    except Exception:
        ctx.corr('energy full model (malformed reply)', case, o, enc_csr(sp.csr_array(S)))
        return False
    # conditioning of the denominators <v, A v> (cancellation in the floating-point inner products)
    kap = 1.0
    for i in range(n):
        if A.indptr[i + 1] > A.indptr[i]:
            if den[i] <= 0:
                continue            # NaN row in the code (sqrt of a negative number, 0/0), zero row in the model
            kap = max(kap, aden[i] / den[i])
    if kap > 1e4 or any(aden[i] > 0 and abs(den[i]) < 1e-4 * aden[i] for i in range(n)):
        ctx.feat('full:energy:skipped:ill_conditioned_denominator')
        ctx.near_skipped += 1
        return True
    if not rec['inner']:
        ctx.corr('energy full model (inner classical call not observed)', case, o, '')
        return False
    M0 = sp.csr_array(rec['inner'][-1][0])
    obs = _arr_dict(M0.indptr, M0.indices, np.asarray(M0.data).real)
    tol_m = 4e-14 * kap
    ok, worst = _cmp_dict(meas, obs, tol_m)
    # the decision `val > -0.01`: |val| = 0.01 on one side, 0 on the other
    if not ok and set(meas) == set(obs) and all(abs(float(meas[k]) - obs[k]) <= tol_m * max(1.0, abs(float(meas[k])))
                                                  or (min(float(meas[k]), obs[k]) == 0 and abs(max(float(meas[k]), obs[k]) - 0.01) < 1e-9)
                                                  for k in meas):
        ctx.near_skipped += 1
        ctx.feat('full:energy:near_threshold:val>-0.01')
        return True
    if not ok:
        ctx.corr('energy measure (model enMeasure vs the argument of the inner classical call)', case, t_meas, enc_csr(M0))
        return False
    ctx.rel_err(worst * tol_m)
    # near-threshold decisions of the drop rule  m_ij >= theta * max_offdiag
    th = p['theta']
    rowmax = {}
    for i in range(n):
        offd = [float(v) for (r, j), v in meas.items() if r == i and j != i]
        mo = max(offd + [float(TINY['float64'])])
        rowmax[i] = max([float(v) for (r, j), v in meas.items() if r == i] + [float(TINY['float64'])])
        if any(v != 0 and abs(v - th * mo) <= 1e-9 * mo for v in offd) and th > 0:
            # an exact tie with the maximum itself is decided identically by both sides only if the entry IS the maximum
            if not (th == 1.0 and sum(1 for v in offd if abs(v - mo) <= 1e-9 * mo) == 1):
                ctx.near_skipped += 1
                ctx.feat('full:energy:near_threshold:theta')
                return True
    Sd = sp.csr_array(S)
    impl = _arr_dict(Sd.indptr, Sd.indices, Sd.data)
    small = min([rowmax[i] for i in range(n) if rowmax[i] > float(TINY['float64'])] or [1.0])
    tol_r = 4 * tol_m / min(1.0, small) + 1e-14
    if tol_r > 1e-7:
        ctx.feat('full:energy:skipped:tiny_measure_row')
        ctx.near_skipped += 1
        return True
    ok, worst = _cmp_dict(res, impl, tol_r)
    if not ok:
        ctx.corr('energy_based_strength_of_connection (model energyFull vs the returned matrix)', case, t_res, enc_csr(Sd))
        return False
    ctx.rel_err(worst * tol_r)
    ctx.feat('full:energy:compared')
    return True


def _evol_finish(ctx, line, A, p, S, rec, o):
    case = case_of(A, 'evolution', **p)
    n = A.shape[0]
    try:
        t_P, t_meas, t_res = o.split('|')
        P, meas, res = _dec_rows(t_P), _dec_rows(t_meas), _dec_rows(t_res)
    except Exception:
        ctx.corr('evolution full model (malformed reply)', case, o, enc_csr(sp.csr_array(S)))
        return False
    if len(rec['inc']) != 1 or len(rec['filt']) != 1:
        ctx.corr('evolution full model (incomplete_mat_mult_csr / apply_distance_filter not observed exactly once)', case, o, '')
        return False
    ip, ix, dx = rec['inc'][0]
    Po_all = _arr_dict(ip, ix, dx)
    Pf = {k: float(v) for k, v in P.items()}
    scale = {i: max([abs(v) for (r, j), v in Pf.items() if r == i] + [abs(v) for (r, j), v in Po_all.items() if r == i] + [1e-300])
             for i in range(n)}
    tolP = 2e-13
    near = False
    for k in set(Pf) | set(Po_all):
        m, v = Pf.get(k, 0.0), Po_all.get(k, 0.0)
        if abs(m - v) > tolP * max(1.0, scale[k[0]]):
            ctx.corr('Atilde after incomplete_mat_mult_csr (model evAtilde)', case, t_P, enc_out(ip, ix, dx))
            return False
        if (m == 0) != (v == 0):
            near = True             # an exact zero on one side only: eliminate_zeros differs
    # conditioning / near-threshold decisions of the NullDim == 1 shortcut, from the model's Atilde
    b = _bvec(p['B'], n)
    b = np.where(b == 0, 1.0, b)
    kap = {}
    wk, sqe = float(WK), float(SQE)
    for (i, j), x in Pf.items():
        d = Pf.get((i, i), 0.0)
        sc = scale[i]
        if d == 0:
            kap[(i, j)] = 1.0
            continue
        if abs(d) < 1e-5 * sc or abs(x) < 1e-5 * sc:
            near = True
            continue
        z = d / b[i] * b[j]
        ratio = z / x
        kap[(i, j)] = (1 + abs(ratio)) * (1 + sc / abs(x) + sc / abs(d))
        v = abs(1 - ratio)
        if abs(abs(ratio) - wk) <= 1e-8 * wk:
            near = True
        if i != j and v < 1e-11:
            near = True                       # ratio == 1 up to rounding: 0 (weak) or 1e-4 (near perfect)
        if abs(v - sqe) <= 1e-6 * sqe:
            near = True
    if near:
        ctx.near_skipped += 1
        ctx.feat('full:evolution:near_threshold:strength')
        return True
    fp, fx, fd = rec['filt'][0]
    obs = _arr_dict(fp, fx, np.asarray(fd).real)
    ok, worst = _cmp_dict(meas, obs, lambda k: 2e-13 * kap.get(k, 1.0), ignore_diag=True)
    if not ok:
        ctx.corr('evolution strength values at apply_distance_filter (model evMeasure)', case, t_meas, enc_out(fp, fx, fd))
        return False
    # near ties of the drop-tolerance filter  v >= epsilon * min_offdiag
    eps = p['epsilon']
    for i in range(n):
        offd = [float(v) for (r, j), v in meas.items() if r == i and j != i]
        if offd and eps != 1.0:
            thr = eps * min(offd)
            if any(abs(v - thr) <= 1e-8 * thr for v in offd):
                ctx.near_skipped += 1
                ctx.feat('full:evolution:near_threshold:epsilon')
                return True
    kmax = max(list(kap.values()) + [1.0])
    tol_r = 1e-12 * kmax
    if tol_r > 1e-7:
        ctx.feat('full:evolution:skipped:ill_conditioned')
        ctx.near_skipped += 1
        return True
    Sd = sp.csr_array(S).copy()
    Sd.sort_indices()
    impl = _arr_dict(Sd.indptr, Sd.indices, Sd.data)
    ok, worst = _cmp_dict(res, impl, tol_r)
    if not ok:
        ctx.corr('evolution_strength_of_connection (model evolFull vs the returned matrix)', case, t_res, enc_csr(Sd))
        return False
    ctx.rel_err(worst * tol_r)
    ctx.feat('full:evolution:compared')
    return True


def part_e_finish(ctx, items, outs):
    for (line, A, api, p, S, rec), o in zip(items, outs):
        offd = A.nnz > A.shape[0]
        ctx.case(key=_key(line), nontrivial=bool(offd),
                 sample={'api': 'full:' + api, 'n': A.shape[0], **{k: v for k, v in p.items()}} if ctx.evaluations % 499 == 0 else None)
        ok = (_energy_finish if api == 'energy' else _evol_finish)(ctx, line, A, p, S, rec, o)
        if not ok:
            judge_other(ctx, A, api, p)         # independent oracle of the property on the same input


def run_part_e(ctx, count):
    items = part_e(ctx, count)
    outs = _lean(ctx, [it[0] for it in items])
    part_e_finish(ctx, items, outs)


# ------------------------------------------------------------------------------------------------
# part F (extension E40): BSR input and complex input vs the Lean models of Model/ExtC14XBlock.lean (ops ext_c14x_*):
#   (F1) complex CSR data with general (irrational) moduli: the kernels and the public classical / symmetric functions;
#   (F2) real and complex BSR data: classical block=True (abs / min / fro + the 1e-16 drop), block=False starting from the BSR
#        arrays (model of A.tocsr(), compared with SciPy's arrays exactly, then the scalar measure and amalgamate), symmetric
#        with irrational block norms;
#   (F3) the whole energy measure on complex CSR, real BSR and complex BSR input.
# The models use a square root of relative accuracy 2^-100 (exact on squares); patterns are compared outside the
# near-threshold entries named by the exact oracle (relative 1e-9 on the compared quantities), values to 1e-13.
# ------------------------------------------------------------------------------------------------

GAUSS_P = [0.25, 0.5, 1.0, 2.0]

import sys as _sys
if hasattr(_sys, 'set_int_max_str_digits'):
    _sys.set_int_max_str_digits(0)      # the exact complex energy model prints rationals with more than 4300 digits


def _bsrhdr(A):
    d = np.asarray(A.data).ravel()
    return (f'{A.shape[0]} {A.blocksize[0]} {enc_ints(A.indptr)} {enc_ints(A.indices)} '
            f'{(enc_crats if np.iscomplexobj(d) else enc_rats)(d)}')


def _gauss(rng):
    """a Gaussian integer times a power of two: the modulus is irrational in general"""
    while True:
        a, b = int(rng.integers(-6, 7)), int(rng.integers(-6, 7))
        if a or b:
            return complex(a, b) * float(GAUSS_P[rng.integers(len(GAUSS_P))])


def gen_crows(rng, n):
    rows, feats = gen_rows(rng, n, True)
    rows = [[(j, v if (v == 0 or rng.random() < 0.25) else _gauss(rng)) for j, v in r] for r in rows]
    return rows, set(feats) | {'irrational_moduli'}


def _f_expected_classical(A, th, norm, block):
    """what the code is expected to return (maximum floored at zero, 1e-16 drop applied) and the undecided entries; complex
    moduli are never exact in binary64, so complex data always get the near-threshold guard"""
    dex = _data_short(A) and not _cplx(A)
    kn = 'min' if norm == 'min' else 'abs'
    if A.format == 'bsr' and block:
        return classical_expected(exact_rows(block_reduce(A, norm, drop=True)), th, kn, False, dex)
    if A.format == 'bsr':
        bs = A.blocksize[0]
        e1, f1 = classical_expected(exact_rows(gen.int32csr(A.tocsr())), th, kn, False, dex)
        N = A.shape[0] // bs
        exp, free = [set() for _ in range(N)], [set() for _ in range(N)]
        for i in range(A.shape[0]):
            exp[i // bs] |= {j // bs for j in e1[i]}
            free[i // bs] |= {j // bs for j in f1[i]}
        if bs == 1:
            return e1, f1
        return exp, free
    return classical_expected(exact_rows(A), th, kn, False, dex)


def _cmp_free(model, S, free, tol=1e-13):
    """model reply 'sp;sj;sx' vs the returned matrix: 'ok' | 'near' (they differ on near-threshold entries only) | 'bad'"""
    try:
        M = _dec_rows(model)
        nrow = len(model.split(';')[0].split(',')) - 1
    except Exception:
        return 'bad'
    Sd = sp.csr_array(S)
    if Sd.shape[0] != nrow or np.iscomplexobj(Sd.data) or not np.isfinite(Sd.data).all():
        return 'bad'
    impl = _arr_dict(Sd.indptr, Sd.indices, Sd.data)
    if len(impl) != Sd.nnz:
        return 'bad'            # duplicates in the result
    verdict = 'ok'
    for i in range(nrow):
        km = {j for (r, j) in M if r == i}
        ki = {j for (r, j) in impl if r == i}
        if km != ki:
            if (km ^ ki) - free[i]:
                return 'bad'
            verdict = 'near'
            continue
        if free[i] & km:
            # a near-threshold entry that both sides keep can still be the row maximum on one side only when theta = 1
            tl = 1e-8
        else:
            tl = tol
        for j in km:
            if abs(float(M[(i, j)]) - impl[(i, j)]) > tl * max(1.0, abs(float(M[(i, j)]))):
                return 'bad'
    return verdict


def _cmp_kernel_free(model, impl, free):
    """raw kernel outputs (protocol strings with the complex values copied): rows must agree as sequences of (column, value)
    after removing near-threshold columns"""
    if model == impl:
        return 'ok'
    try:
        a = [t.split(';') for t in (model, impl)]
        rows = []
        for sp_, sj_, sx_ in a:
            Sp = [int(v) for v in sp_.split(',')]
            Sj = [] if sj_ == '-' else [int(v) for v in sj_.split(',')]
            Sx = [] if sx_ == '-' else sx_.split(',')
            if len(Sj) != len(Sx) or Sp[-1] != len(Sj):
                return 'bad'
            rows.append([[(Sj[k], Sx[k]) for k in range(Sp[i], Sp[i + 1])] for i in range(len(Sp) - 1)])
    except Exception:
        return 'bad'
    if len(rows[0]) != len(rows[1]):
        return 'bad'
    for i, (rm, ri) in enumerate(zip(*rows)):
        if [e for e in rm if e[0] not in free[i]] != [e for e in ri if e[0] not in free[i]]:
            return 'bad'
    return 'near'


def part_f(ctx, count):
    from pyamg import amg_core
    rng = ctx.np_rng
    tiny = TINY['float64']
    items = []
    for t in range(count):
        thetas = sorted(set([0.0] + [float(x) for x in rng.choice(THETAS + [0.1, 0.3, 0.9], size=3)]))
        if t % 3 == 0:
            # (F1) complex CSR with irrational moduli
            n = int(rng.integers(1, 9))
            rows, feats = gen_crows(rng, n)
            A = rows_to_csr(rows, complex, rng, unsorted=(t % 2 == 0))
            A, stag = rescale(rng, A, exact=True)
            ctx.feat('F:' + stag)
            Ak = A
            if t % 9 == 0 and A.nnz:            # duplicated entries: kernels only
                k_ = int(rng.integers(A.nnz))
                i_ = int(np.searchsorted(A.indptr, k_, side='right') - 1)
                ip = A.indptr.copy()
                ip[i_ + 1:] += 1
                Ak = gen.csr_from_arrays(n, ip, np.insert(A.indices, k_, A.indices[k_]), np.insert(A.data, k_, A.data[k_]))
                Ak.has_sorted_indices = False
                ctx.feat('F:kernel:duplicate_entry')
            for f in feats:
                ctx.feat('F:' + f)
            Ac = _canon(A)
            nodup = Ak is A
            rws = exact_rows(Ac)
            for th in thetas + [float(rng.choice([2.0, 4.0]))]:
                Ap, Aj, Ax = Ak.indptr, Ak.indices, Ak.data
                if th <= 1:
                    Sp, Sj, Sx = np.full_like(Ap, -7), np.full_like(Aj, -7), np.zeros_like(Ax)
                    amg_core.classical_strength_of_connection_abs(n, np.float64(th), Ap, Aj, Ax, Sp, Sj, Sx)
                    frc = classical_expected(rws, th, 'abs', False, False)[1]
                    fr_ = frc if nodup else None
                    items.append((f'ext_c14x_kcabs {enc_rat(th)} {enc_rat(tiny)} {hdr(Ak)}', ('kernel', enc_out(Sp, Sj, Sx), fr_), 'classical', Ak,
                                  {'norm': 'abs', 'block': True}, th))
                    S = _try(lambda: call_measure('classical', A, theta=th, norm='abs'))
                    items.append((f'ext_c14x_cclassical {enc_rat(th)} {enc_rat(tiny)} {hdr(A)}', ('pub', S, frc), 'classical', A,
                                  {'norm': 'abs', 'block': True}, th))
                Sp, Sj, Sx = np.full_like(Ap, -7), np.full_like(Aj, -7), np.zeros_like(Ax)
                amg_core.symmetric_strength_of_connection(n, np.float64(th), Ap, Aj, Ax, Sp, Sj, Sx)
                frs = symmetric_expected(rws, th, exact_hint=False)[1]
                items.append((f'ext_c14x_kcsym {enc_rat(th)} {hdr(Ak)}', ('kernel', enc_out(Sp, Sj, Sx), frs if nodup else None), 'symmetric', Ak, {}, th))
                S = _try(lambda: call_measure('symmetric', A, theta=th))
                items.append((f'ext_c14x_csym {enc_rat(th)} {enc_rat(tiny)} {hdr(A)}', ('pub', S, frs), 'symmetric', A, {}, th))
        else:
            # (F2) BSR, real and complex
            cplx = t % 3 == 2
            N = int(rng.integers(1, 6))
            bs = int(rng.integers(1, 4))
            A, feats = gen_bsr(rng, N, bs, cplx=cplx)
            if cplx and rng.random() < 0.6:
                A.data = A.data * np.array([1, 1, 1 + 1j, 2 - 1j, 1 + 2j, 3 + 1j])[rng.integers(6, size=A.data.shape)]
                feats = set(feats) | {'irrational_moduli'}
            A, stag = rescale(rng, A, exact=True)
            ctx.feat('F:' + stag)
            for f in feats:
                ctx.feat('F:bsr:' + f)
            kind = 'c' if cplx else 'r'
            h = _bsrhdr(A)
            C = A.tocsr()
            items.append((f'ext_c14x_tocsr {kind} {h}', ('tocsr', enc_out(C.indptr, C.indices, C.data), None), 'tocsr', A, {}, None))
            for norm in ('abs', 'min', 'fro'):
                for block in (True, False):
                    for th in thetas:
                        S = _try(lambda: call_measure('classical', A, theta=th, norm=norm, block=block))
                        fr_ = None if isinstance(S, Exception) else _f_expected_classical(A, th, norm, block)[1]
                        items.append((f'ext_c14x_bsr_classical {kind} {norm} {int(block)} {enc_rat(th)} {enc_rat(tiny)} {enc_rat(DROP)} {h}',
                                      ('pub', S, fr_), 'classical', A, {'norm': norm, 'block': block}, th))
            for th in thetas + [float(rng.choice([2.0, 4.0]))]:
                S = _try(lambda: call_measure('symmetric', A, theta=th))
                fr_ = None if isinstance(S, Exception) else expected_symmetric(A, th)[1]
                items.append((f'ext_c14x_bsr_sym {kind} {enc_rat(th)} {enc_rat(tiny)} {h}', ('pub', S, fr_), 'symmetric', A, {}, th))
    return items


def part_f_finish(ctx, items, outs):
    for (line, (what, S, free), api, A, kw, th), o in zip(items, outs):
        nod = A.blocksize[0] if A.format == 'bsr' else 1
        ctx.case(key=_key(line), nontrivial=A.nnz > A.shape[0] // nod,
                 sample={'request': line[:160], 'model': o[:80]} if ctx.evaluations % 1499 == 0 else None)
        ctx.feat('F-model:' + ' '.join(line.split(' ')[:2 if A.format == 'bsr' else 1]))
        case = {'line': line[:3000]} if what != 'pub' else case_of(A, api, theta=th, **kw)
        if what == 'tocsr':
            if o != S:
                ctx.corr('A.tocsr() of a BSR matrix (model Spmm.bsrToCsr)', case, o, S)
            continue
        if what == 'kernel':
            if free is None:        # duplicated entries: only the exact comparison is defined
                if o != S:
                    ctx.feat('F:kernel:duplicates_differ_skipped')
                    ctx.near_skipped += 1
                continue
            v = _cmp_kernel_free(o, S, free)
            if v == 'near':
                ctx.near_skipped += 1
                ctx.feat('F:near_threshold:kernel')
            elif v == 'bad':
                ctx.corr('kernel ' + api + ' (complex, parametric modulus)', case, o, S)
                judge_kernel(ctx, 'symmetric' if api == 'symmetric' else 'classical_abs', A, th, S)
                judge_family(ctx, _canon(A), api, thetas=[th], tag='after-corr-F')
            continue
        if isinstance(S, Exception):
            if o == 'reject' and isinstance(S, (TypeError, ValueError)):
                ctx.feat('F:rejects:' + type(S).__name__)
                continue
            ctx.corr('public ' + api, case, o, f'raised {type(S).__name__}: {S}')
            judge_family(ctx, A if A.format == 'bsr' else _canon(A), api, norm=kw.get('norm', 'abs'), block=kw.get('block', True),
                         thetas=[th], tag='after-corr-F')
            continue
        if free is None:
            free = [set() for _ in range(sp.csr_array(S).shape[0])]
        v = 'bad' if o == 'reject' else _cmp_free(o, S, free)
        if v == 'near':
            ctx.near_skipped += 1
            ctx.feat('F:near_threshold:public')
        elif v == 'bad':
            ctx.corr('public ' + api + ' (E40 model)', case, o, enc_csr(sp.csr_array(S)))
            judge_family(ctx, A if A.format == 'bsr' else _canon(A), api, norm=kw.get('norm', 'abs'), block=kw.get('block', True),
                         thetas=THETAS, tag='after-corr-F')


def energy_x_case(rng, t):
    """(A, params, feats) for the energy measure on complex CSR (t % 3 == 0), real BSR, complex BSR input"""
    sel = t % 3
    cplx = sel != 1
    kind = str(rng.choice(['mmat', 'mmat', 'mixed', 'nonsym', 'nspat']))
    feats = {'Fx:energy:' + ('ccsr', 'bsr', 'cbsr')[sel], 'Fx:matrix:' + kind}
    if sel == 0:
        n = int(rng.integers(1, 7))
        M = _sym_matrix(rng, n, True, kind)
        if rng.random() < 0.3:
            M = M * np.array([1, 1 + 1j, 2 - 1j, 1 + 0.5j])[rng.integers(4, size=M.shape)]     # non-Hermitian, irrational moduli
            feats.add('Fx:non_hermitian')
        if rng.random() < 0.12 and n > 1:
            M[int(rng.integers(n)), int(rng.integers(n))] = 0
        A = gen.int32csr(sp.csr_array(M))
    else:
        bs = int(rng.integers(1, 4))
        N = int(rng.integers(1, max(2, 7 // bs + 1)))
        M = _sym_matrix(rng, N * bs, cplx, kind)
        A = sp.bsr_array(sp.csr_array(M), blocksize=(bs, bs))
        A.indptr = A.indptr.astype(np.int32)
        A.indices = A.indices.astype(np.int32)
    if rng.random() < 0.2:
        A.data = A.data * SCALE_P2[int(rng.integers(len(SCALE_P2)))]
        feats.add('Fx:global_scale')
    p = {'npseed': int(rng.integers(2 ** 31)), 'theta': float(rng.choice([0.0, 0.1, 0.25, 0.5, 1.0])), 'k': int(rng.integers(0, 4))}
    return A, p, feats


def part_fx(ctx, count):
    rng = ctx.np_rng
    items = []
    tiny = TINY['float64']
    for t in range(count):
        A, p, feats = energy_x_case(rng, t)
        for f in feats:
            ctx.feat(f)
        try:
            S, rec = _call_spied('energy', A, p)
        except Exception:
            judge_other(ctx, A, 'energy', p)
            continue
        if not sp.issparse(S) or len(rec['rho']) != 1 or not np.isfinite(rec['rho'][0]) or np.iscomplexobj(rec['rho'][0]) \
                or not rec['rho'][0] > 0:
            ctx.feat('Fx:skipped:no_spectral_radius')
            judge_other(ctx, A, 'energy', p)
            continue
        c = 1.0 / float(rec['rho'][0])
        pre = f'{enc_rat(c)} {enc_rat(NEG001)} {enc_rat(tiny)} {enc_rat(p["theta"])} {p["k"]}'
        if A.format == 'bsr':
            line = f'ext_c14x_bsr_energy {"c" if _cplx(A) else "r"} {pre} {_bsrhdr(A)}'
        else:
            line = f'ext_c14x_cenergy {pre} {hdr(A)}'
        items.append((line, A, p, S, rec))
    return items


def _energy_x_finish(ctx, line, A, p, S, rec, o):
    """the analogue of _energy_finish for the E40 models; returns False when the correspondence is broken"""
    case = case_of(A, 'energy', **p)
    n = A.shape[0]
    tag = 'Fx:energy:' + line.split(' ')[0][9:]
    if o == 'undefined':
        ctx.feat(tag + ':model_rejects_zero_denominator_or_branch_cut')
        return True
    try:
        t_meas, t_res, t_den, t_aden = o.split('|')
        meas, res = _dec_rows(t_meas), _dec_rows(t_res)
        den = [float(Fr(t)) for t in dec_list(t_den)]
        aden = [float(Fr(t)) for t in dec_list(t_aden)]
    except Exception:
        ctx.corr('energy model E40 (malformed reply)', case, o, enc_csr(sp.csr_array(S)))
        return False
    if not rec['inner']:
        ctx.corr('energy model E40 (inner classical call not observed)', case, o, '')
        return False
    M0 = sp.csr_array(rec['inner'][-1][0])
    rowlen = np.diff(M0.indptr)
    kap = 1.0
    for i in range(n):
        if rowlen[i] > 0 and den[i] > 0:
            kap = max(kap, aden[i] / den[i])
    if kap > 1e4 or any(aden[i] > 0 and abs(den[i]) < 1e-4 * aden[i] for i in range(n)):
        ctx.feat(tag + ':skipped:ill_conditioned_denominator')
        ctx.near_skipped += 1
        return True
    d0 = np.asarray(M0.data)
    if np.iscomplexobj(d0) and d0.size and np.abs(d0.imag).max() != 0:
        ctx.corr('energy measure E40: the observed measure has an imaginary part', case, t_meas, enc_csr(M0))
        return False
    obs = _arr_dict(M0.indptr, M0.indices, d0.real)
    tol_m = 4e-14 * kap
    if set(meas) != set(obs):
        ctx.corr('energy measure E40 (pattern of the argument of the inner classical call)', case, t_meas, enc_csr(M0))
        return False
    soft = False
    for k_ in meas:
        m, v = float(meas[k_]), obs[k_]
        if not np.isfinite(v):
            ctx.corr('energy measure E40 (non-finite observed value)', case, t_meas, enc_csr(M0))
            return False
        if abs(m - v) <= tol_m * max(1.0, abs(m)) and (m == 0) == (v == 0):
            continue
        # an exact zero on one side only: rounding noise of the complex quotient (|val| ~ 1e-16) or the decision val > -0.01
        if min(m, v) == 0 and (max(m, v) < 1e-9 or abs(max(m, v) - 0.01) < 1e-9):
            soft = True
            continue
        ctx.corr('energy measure E40 (model vs the argument of the inner classical call)', case, t_meas, enc_csr(M0))
        return False
    if soft:
        ctx.near_skipped += 1
        ctx.feat(tag + ':near_threshold:zero_on_one_side')
        return True
    th = p['theta']
    rowmax = {}
    for i in range(n):
        offd = [float(v) for (r, j), v in meas.items() if r == i and j != i]
        mo = max(offd + [float(TINY['float64'])])
        rowmax[i] = max([float(v) for (r, j), v in meas.items() if r == i] + [float(TINY['float64'])])
        if any(v != 0 and abs(v - th * mo) <= 1e-9 * mo for v in offd) and th > 0:
            if not (th == 1.0 and sum(1 for v in offd if abs(v - mo) <= 1e-9 * mo) == 1):
                ctx.near_skipped += 1
                ctx.feat(tag + ':near_threshold:theta')
                return True
    small = min([rowmax[i] for i in range(n) if rowmax[i] > float(TINY['float64'])] or [1.0])
    tol_r = 4 * tol_m / min(1.0, small) + 1e-14
    if tol_r > 1e-7:
        ctx.feat(tag + ':skipped:tiny_measure_row')
        ctx.near_skipped += 1
        return True
    Sd = sp.csr_array(S)
    impl = _arr_dict(Sd.indptr, Sd.indices, Sd.data)
    if len(impl) != Sd.nnz or np.iscomplexobj(Sd.data):
        ctx.corr('energy_based_strength_of_connection E40 (duplicate or complex entries in the result)', case, t_res, enc_csr(Sd))
        return False
    ok, worst = _cmp_dict(res, impl, tol_r)
    if not ok:
        ctx.corr('energy_based_strength_of_connection (E40 model vs the returned matrix)', case, t_res, enc_csr(Sd))
        return False
    ctx.rel_err(worst * tol_r)
    ctx.feat(tag + ':compared')
    return True


def run_part_f(ctx, count, count_x):
    items = part_f(ctx, count)
    itx = part_fx(ctx, count_x)
    outs = _lean(ctx, [it[0] for it in items] + [it[0] for it in itx])
    part_f_finish(ctx, items, outs[:len(items)])
    for (line, A, p, S, rec), o in zip(itx, outs[len(items):]):
        ctx.case(key=_key(line), nontrivial=bool(A.nnz > A.shape[0] // (A.blocksize[0] if A.format == 'bsr' else 1)),
                 sample={'api': 'E40:energy', 'fmt': A.format, 'n': A.shape[0], **p} if ctx.evaluations % 499 == 0 else None)
        if not _energy_x_finish(ctx, line, A, p, S, rec, o):
            judge_other(ctx, A, 'energy', p)


# ------------------------------------------------------------------------------------------------
# part G (extension E44): the WHOLE of evolution_strength_of_connection beyond part E, vs the Lean model of
# Model/ExtC14YEvol.lean (ops ext_c14y_*): several candidate vectors (NullDim > 1: the kernel evolution_strength_helper with its
# local pseudo-inverse solves, modelled with the exact Moore-Penrose inverse), every k (k = 1, k not a power of two, k = 2^m),
# epsilon = inf, proj_type l2 / D_A, BSR input (mask restricted to the same PDE, block_flag, tobsr + min_blocks) and complex input.
# Only the spectral-radius estimate is recorded from the real call.  Stages compared: Atilde handed to the helper; the helper on
# its OBSERVED input (kernel vs model, no accumulated error); the strength values at apply_distance_filter; the returned matrix.
# Decisions that are within rounding of a threshold in the exact model (weak ratio, angle, near-perfect connection, the zhat
# zero filter, the singular-value cutoff of svd_solve / pinv_array, ties of the drop tolerance) are counted as near_skipped.
# ------------------------------------------------------------------------------------------------

WK8 = Fr(1e-8)
TOLZ = Fr(1e6 * float(np.finfo(float).eps))


def _g_bmat(p, dtype):
    raw = p['B']
    if np.dtype(dtype).kind == 'c':
        return np.array([[complex(a, b) for a, b in row] for row in raw], dtype=dtype)
    return np.array(raw, dtype=dtype)


def g_case(rng, t):
    cplx = (t % 3 == 2)
    fmt = 'bsr' if t % 4 == 1 else 'csr'
    kind = str(rng.choice(['mmat', 'mmat', 'mixed', 'nonsym', 'nspat']))
    if fmt == 'bsr':
        bs = int(rng.choice([1, 2, 2, 3]))
        N = int(rng.integers(1, 5))
        n = N * bs
    else:
        bs, n = 1, int(rng.integers(1, 9))
    M = _sym_matrix(rng, n, cplx, kind)
    feats = {'G:matrix:' + kind, f'G:{fmt}:{"c" if cplx else "r"}'}
    if rng.random() < 0.12 and n > 1:
        q = int(rng.integers(n))
        M[q, q] = 0
        feats.add('G:missing_diag')
    if fmt == 'bsr':
        A = sp.bsr_array(M, blocksize=(bs, bs))
        A.indptr = A.indptr.astype(np.int32)
        A.indices = A.indices.astype(np.int32)
        A.sort_indices()
    else:
        A = gen.int32csr(sp.csr_array(M))
        if rng.random() < 0.1 and A.nnz > n:
            A.data[int(rng.integers(A.nnz))] = 0.0          # an explicitly stored zero
            feats.add('G:stored_zero')
    if rng.random() < 0.2:
        A.data = A.data * SCALE_P2[int(rng.integers(len(SCALE_P2)))]
        feats.add('G:global_scale')
    K = int(rng.choice([1, 2, 2, 2, 3, 3]))
    x = np.arange(n) - (n - 1) // 2
    bk = str(rng.choice(['poly', 'rand', 'rand', 'alt']))
    if bk == 'poly':
        Br = np.column_stack([np.ones(n), x, x * x])[:, :K].astype(float)
    elif bk == 'alt':
        Br = np.column_stack([np.ones(n), np.arange(n) % 2, (np.arange(n) % 3 == 0)])[:, :K].astype(float)
    else:
        Br = rng.integers(-2, 4, size=(n, K)).astype(float)
    if K == 1 and rng.random() < 0.5:
        Br = np.where(Br == 0, 0.0 if rng.random() < 0.3 else 1.0, Br)
    if cplx:
        Bi = rng.integers(-1, 2, size=(n, K)).astype(float) * (rng.random() < 0.8)
        Braw = [[[float(a), float(b)] for a, b in zip(r, s)] for r, s in zip(Br, Bi)]
    else:
        Braw = Br.tolist()
    feats.add(f'G:NullDim:{K}')
    k = int(rng.choice([1, 1, 2, 3, 3, 4, 5, 6, 7, 8]))
    feats.add('G:k:' + ('1' if k == 1 else 'pow2' if k & (k - 1) == 0 else 'other'))
    p = {'npseed': int(rng.integers(2 ** 31)), 'epsilon': float(rng.choice([1.0, 2.0, 4.0, 10.0, np.inf, np.inf])), 'k': k,
         'proj_type': str(rng.choice(['l2', 'D_A'])), 'symmetrize_measure': bool(rng.integers(2)),
         'block_flag': bool(fmt == 'bsr' and rng.integers(2)), 'B': Braw}
    if p['epsilon'] == np.inf:
        feats.add('G:epsilon_inf')
    return A, p, feats, K


def _call_spied_g(A, p):
    """the real function with pass-through wrappers recording the spectral-radius estimate, the arguments / result of
    evolution_strength_helper and the argument of apply_distance_filter"""
    from pyamg import strength as ST
    rec = {'rho': [], 'helper': [], 'filt': [], 'pat1': []}
    o_rho, o_f, o_h = ST.approximate_spectral_radius, ST.amg_core.apply_distance_filter, ST.amg_core.evolution_strength_helper
    o_sr = ST.scale_rows

    def s_sr(M, v, *a, **kw):
        # the NullDim == 1 shortcut calls scale_rows(Atilde, DAtildeDivB) with Atilde.data set to 1.0: its pattern is observed
        if sp.issparse(M) and M.format == 'csr' and M.nnz == len(M.data) and (np.asarray(M.data) == 1.0).all():
            rec['pat1'].append((np.array(M.indptr), np.array(M.indices)))
        return o_sr(M, v, *a, **kw)

    def s_rho(M, *a, **kw):
        r = o_rho(M, *a, **kw)
        rec['rho'].append(r)
        return r

    def s_f(n_, eps_, ip_, ix_, dx_):
        rec['filt'].append((np.array(ip_), np.array(ix_), np.array(dx_)))
        return o_f(n_, eps_, ip_, ix_, dx_)

    def s_h(Sx, Sp, Sj, nrows, x, y, b, bdbc, nd, tol):
        h = {'in': np.array(Sx), 'p': np.array(Sp), 'j': np.array(Sj), 'x': np.array(x), 'y': np.array(y), 'b': np.array(b),
             'nd': int(nd), 'tol': float(tol)}
        rec['helper'].append(h)
        r = o_h(Sx, Sp, Sj, nrows, x, y, b, bdbc, nd, tol)
        h['out'] = np.array(Sx)
        return r
    ST.approximate_spectral_radius = s_rho
    ST.scale_rows = s_sr
    ST.amg_core.apply_distance_filter, ST.amg_core.evolution_strength_helper = s_f, s_h
    try:
        S = call_other('evolution', A.copy(), p)
    finally:
        ST.approximate_spectral_radius = o_rho
        ST.scale_rows = o_sr
        ST.amg_core.apply_distance_filter, ST.amg_core.evolution_strength_helper = o_f, o_h
    return S, rec


def _g_enc(xs, cplx):
    return (enc_crats if cplx else enc_rats)(list(np.asarray(xs).ravel()))


def part_g(ctx, count):
    rng = ctx.np_rng
    items = []
    tiny = TINY['float64']
    for t in range(count):
        A, p, feats, K = g_case(rng, t)
        for f in feats:
            ctx.feat(f)
        cplx = _cplx(A)
        try:
            S, rec = _call_spied_g(A, p)
        except Exception:
            judge_other(ctx, A, 'evolution', p)        # the oracle reports the exception
            continue
        rho = rec['rho'][0] if len(rec['rho']) == 1 else None
        if (not sp.issparse(S) or rho is None or not np.isfinite(rho) or (np.iscomplexobj(rho) and np.imag(rho) != 0)
                or not np.real(rho) > 0):
            ctx.feat('G:skipped:no_spectral_radius')
            judge_other(ctx, A, 'evolution', p)
            continue
        c = 1.0 / float(np.real(rho))
        n = A.shape[0]
        bs = A.blocksize[0] if A.format == 'bsr' else 1
        B = _g_bmat(p, A.dtype)
        eps = 'inf' if p['epsilon'] == np.inf else enc_rat(p['epsilon'])
        kd = 'c' if cplx else 'r'
        line = (f'ext_c14y_evol {kd} {A.format} {enc_rat(BIG64)} {enc_rat(tiny)} {eps} {enc_rat(WK)} {enc_rat(WK8)} {enc_rat(SQE)} '
                f'{enc_rat(WK)} {enc_rat(TOLZ)} {enc_rat(c)} {p["k"]} {int(p["symmetrize_measure"])} {int(p["proj_type"] == "D_A")} '
                f'{int(p["block_flag"])} {K} {_g_enc(B, cplx)} {n} {bs} {enc_ints(A.indptr)} {enc_ints(A.indices)} {_g_enc(A.data, cplx)}')
        hline = None
        dA = np.asarray(A.diagonal()) if p['proj_type'] == 'D_A' else np.ones(n, dtype=A.dtype)
        if K > 1 and len(rec['helper']) == 1:
            h = rec['helper'][0]
            hline = (f'ext_c14y_helper {kd} {enc_rat(WK8)} {enc_rat(SQE)} {enc_rat(WK)} {enc_rat(TOLZ)} {K} {_g_enc(dA, cplx)} '
                     f'{_g_enc(B, cplx)} {n} {enc_ints(h["p"])} {enc_ints(h["j"])} {_g_enc(h["in"].astype(A.dtype), cplx)}')
        items.append((line, hline, A, p, S, rec, K, B, dA))
    return items


def _dec_rows_g(tok, cplx=False):
    """'sp;sj;sx' -> {(i, j): value}; complex values come as re|im"""
    a, b, c = tok.split(';')
    ip = [int(t) for t in a.split(',')]
    ix = [] if b == '-' else [int(t) for t in b.split(',')]
    if c == '-':
        vx = []
    elif cplx:
        vx = [complex(float(Fr(t.split('|')[0])), float(Fr(t.split('|')[1]))) for t in c.split(',')]
    else:
        vx = [Fr(t) for t in c.split(',')]
    return {(i, ix[jj]): vx[jj] for i in range(len(ip) - 1) for jj in range(ip[i], ip[i + 1])}


def _cfr(v):
    v = complex(v)
    return (Fr(v.real), Fr(v.imag))


def _cmulf(a, b):
    return (a[0] * b[0] - a[1] * b[1], a[0] * b[1] + a[1] * b[0])


def _g_lhs_exact(B, dA, K, i, cols):
    """the (K+1)x(K+1) matrix of the local problem of evolution_strength_helper, exactly (pairs of Fractions)"""
    Bx = [[_cfr(v) for v in r_] for r_ in B]
    dx = [_cfr(v) for v in dA]
    cj = lambda a: (a[0], -a[1])
    L = [[(Fr(0), Fr(0)) for _ in range(K + 1)] for _ in range(K + 1)]
    for m in range(K):
        for q in range(m, K):
            s = (Fr(0), Fr(0))
            for j in cols:
                t_ = _cmulf(cj(Bx[j][m]), _cmulf(dx[j], Bx[j][q]))
                s = (s[0] + 2 * t_[0], s[1] + 2 * t_[1])
            L[m][q] = s
            if q > m:
                L[q][m] = cj(s)
        L[K][m] = Bx[i][m]
        L[m][K] = _cmulf(dx[i], cj(Bx[i][m]))
    return L


def _g_rank(Lx):
    """exact rank of a matrix of Gaussian rationals (through its real 2x2-block embedding)"""
    m = len(Lx)
    M = [[Fr(0)] * (2 * m) for _ in range(2 * m)]
    for a in range(m):
        for b in range(m):
            re, im = Lx[a][b]
            M[a][b], M[a][m + b], M[m + a][b], M[m + a][m + b] = re, -im, im, re
    rk = 0
    for c in range(2 * m):
        piv = next((r_ for r_ in range(rk, 2 * m) if M[r_][c] != 0), None)
        if piv is None:
            continue
        M[rk], M[piv] = M[piv], M[rk]
        for r_ in range(rk + 1, 2 * m):
            if M[r_][c] != 0:
                f = M[r_][c] / M[rk][c]
                M[r_] = [x - f * y for x, y in zip(M[r_], M[rk])]
        rk += 1
    return rk // 2


def _g_analyse(Pf, n, B, dA, K):
    """float re-computation of the strength decisions from rows of Atilde {(i, j): value}: -> (near, kap) with `near` = some
    decision of the exact model is within rounding of its threshold, kap[(i, j)] = amplification of relative errors"""
    wk, sqe, tolz = float(WK), float(SQE), float(TOLZ)
    rows = {i: sorted((j, complex(v)) for (r, j), v in Pf.items() if r == i) for i in range(n)}
    kap = {}
    near = False
    for i in range(n):
        row = rows[i]
        if not row:
            continue
        sc = max(abs(v) for _, v in row)
        if any(abs(v) < 1e-5 * sc for _, v in row):
            near = True                     # an entry of Atilde that is tiny in its row: eliminate_zeros / ratios are unreliable
            continue
        if K == 1:
            b = np.where(B[:, 0] == 0, 1.0, B[:, 0])
            d = dict(row).get(i, 0.0)
            for j, x in row:
                if d == 0:
                    kap[(i, j)] = 1.0
                    continue
                z = d / b[i] * b[j]
                ratio = z / x
                ang = z.real * x.real + z.imag * x.imag
                if abs(abs(ratio) - wk) <= 1e-6 * wk:
                    near = True
                if abs(ratio) >= wk and abs(ang) <= 1e-9 * abs(z) * abs(x):
                    near = True                   # the angle test `angle < 0` on a (numerically) right angle
                v = abs(1 - ratio)
                if i != j and v < 1e-11 and abs(ratio) >= wk and ang >= 0:
                    near = True                   # ratio == 1 up to rounding: 0 (eliminated) or 1e-4 (near perfect)
                if abs(v - sqe) <= 1e-4 * sqe:
                    near = True
                kap[(i, j)] = (1 + abs(ratio)) * (1 + sc / abs(x) + sc / abs(d)) / max(v, sqe) if v >= sqe else 1.0
            continue
        if len(row) <= K:
            for j, _ in row:
                kap[(i, j)] = 1.0
            continue
        cols = [j for j, _ in row]
        z = np.array([v for _, v in row])
        Bi = B[cols, :].astype(complex)
        dAi = np.asarray(dA, dtype=complex)
        Lx = _g_lhs_exact(B, dA, K, i, cols)
        L = np.array([[complex(float(a), float(b)) for a, b in r_] for r_ in Lx])
        R = np.zeros(K + 1, dtype=complex)
        R[:K] = 2.0 * ((dAi[cols, None] * np.conj(Bi)).T @ z)
        R[K] = dict(row).get(i, 1.0)
        sv = np.linalg.svd(L, compute_uv=False)
        if not np.isfinite(sv).all() or sv[0] == 0:
            near = True
            continue
        # svd_solve drops singular values below 50 eps^(3/4) sigma_max ~ 1e-10 sigma_max; the model uses the exact pseudo-inverse:
        # they agree when the singular values above 1e-6 sigma_max are exactly rank(LHS) many and the others are rounding noise
        if int((sv > 1e-6 * sv[0]).sum()) != _g_rank(Lx) or ((sv <= 1e-6 * sv[0]) & (sv > 1e-12 * sv[0])).any():
            near = True
            continue
        condL = sv[0] / sv[sv >= 1e-6 * sv[0]].min()
        xs = np.linalg.pinv(L, rcond=1e-9) @ R
        zh = Bi @ xs[:K]
        mz = np.abs(zh).max()
        tl = tolz * mz
        zh2 = []
        for v in zh:
            re, im = v.real, v.imag
            for part in (re, im):
                if 1e-3 * tl < abs(part) < 1e3 * tl:
                    near = True
            zh2.append(complex(0.0 if abs(re) < tl else re, 0.0 if abs(im) < tl else im))
        for (j, x), v in zip(row, zh2):
            if j == i:
                kap[(i, j)] = 1.0
                continue
            ratio = v / x
            nr = abs(ratio) ** 2
            if abs(nr - 1e-8) <= 1e-3 * 1e-8:
                near = True
            if nr <= 1e-8:
                kap[(i, j)] = 1.0
                continue
            dp = v.real * x.real + v.imag * x.imag
            if abs(dp) <= 1e-8 * abs(v) * abs(x):
                near = True
            if dp < 0:
                kap[(i, j)] = 1.0
                continue
            err = abs(1 - ratio)
            if abs(err - sqe) <= 1e-3 * sqe:
                near = True
            # a value that is exactly 0 in the model (z in the span of B_i) is ~1e-16 in floats: both below sqrt(eps) -> 1e-4
            kap[(i, j)] = 1.0 if err < sqe else 1.0 + condL * (mz + sc) / abs(x) / err
    return near, kap


def _g_finish(ctx, item, o, oh):
    line, hline, A, p, S, rec, K, B, dA = item
    case = case_of(A, 'evolution', **p)
    cplx = _cplx(A)
    n = A.shape[0]
    bs = A.blocksize[0] if A.format == 'bsr' else 1
    if o == 'reject':
        ctx.corr('E44 evolution model rejects the input (exact pseudo-inverse failed)', case, o, enc_csr(sp.csr_array(S)))
        return False
    try:
        t_P, t_meas, t_res = o.split('#')
        P, meas, res = _dec_rows_g(t_P, cplx), _dec_rows_g(t_meas), _dec_rows_g(t_res)
    except Exception:
        ctx.corr('E44 evolution model (malformed reply)', case, o, enc_csr(sp.csr_array(S)))
        return False
    Pf = {k2: complex(v) for k2, v in P.items()}
    if p['block_flag']:
        # Dinv = pinv_array of the diagonal blocks (cutoff relative to sigma_max): the model uses the exact pseudo-inverse; they
        # agree when the clearly non-zero singular values are exactly rank-many and the others are rounding noise
        Ad = A.toarray()
        for I in range(n // bs):
            blk = Ad[I * bs:(I + 1) * bs, I * bs:(I + 1) * bs]
            sv = np.linalg.svd(blk, compute_uv=False)
            if sv[0] > 0 and (int((sv > 1e-6 * sv[0]).sum()) != _g_rank([[_cfr(v) for v in r_] for r_ in blk])
                              or ((sv <= 1e-6 * sv[0]) & (sv > 1e-12 * sv[0])).any()):
                ctx.near_skipped += 1
                ctx.feat('G:near_threshold:block_pinv')
                return True
    # --- the kernel on its observed input (K > 1)
    if K > 1:
        if len(rec['helper']) != 1 or hline is None:
            ctx.corr('E44: evolution_strength_helper not called exactly once for NullDim > 1', case, o, '')
            return False
        h = rec['helper'][0]
        # the arrays handed to the kernel are the ones the model is parametrised with
        y_exp = np.ravel((dA[:, None] * np.conj(B)).T)
        bdb = []
        for a in range(K):
            for b_ in range(a, K):
                bdb.append(2.0 * (np.conj(B[:, a]) * (dA * B[:, b_])))
        b_exp = np.ravel(np.column_stack(bdb))
        if not (np.array_equal(np.ravel(h['x']), np.ravel(B)) and np.array_equal(h['y'], y_exp) and np.array_equal(h['b'], b_exp)
                and h['nd'] == K and h['tol'] == float(TOLZ)):
            ctx.corr('E44: the arguments B / DB / BDB / NullDim / tol of evolution_strength_helper are not the ones of the model',
                     case, '', '')
            return False
        hin = _arr_dict_g(h['p'], h['j'], h['in'])
        hout = {k2: float(np.real(v)) for k2, v in _arr_dict_g(h['p'], h['j'], h['out']).items() if v != 0}
        if any(np.imag(v) != 0 for v in _arr_dict_g(h['p'], h['j'], h['out']).values()):
            ctx.corr('E44: evolution_strength_helper returned a strength value with an imaginary part', case, '', enc_out(h['p'], h['j'], h['out']))
            return False
        nearh, kaph = _g_analyse(hin, n, B, dA, K)
        if nearh:
            ctx.near_skipped += 1
            ctx.feat('G:near_threshold:helper_observed_input')
        else:
            try:
                mh = _dec_rows_g(oh)
            except Exception:
                ctx.corr('E44 helper model (malformed reply / reject)', case, oh, enc_out(h['p'], h['j'], h['out']))
                return False
            ok, worst = _cmp_dict(mh, hout, lambda k2: min(1e-6, 4e-13 * kaph.get(k2, 1.0)))
            if not ok:
                ctx.corr('evolution_strength_helper on its observed input (model helperRow)', case, oh, enc_out(h['p'], h['j'], h['out']))
                return False
            ctx.feat('G:helper:compared')
        # --- Atilde handed to the helper vs the model's Atilde
        scale = {i: max([abs(v) for (r, j), v in Pf.items() if r == i] + [abs(v) for (r, j), v in hin.items() if r == i] + [1e-300])
                 for i in range(n)}
        for k2 in set(Pf) | set(hin):
            m_, v_ = Pf.get(k2, 0.0), hin.get(k2, 0.0)
            if abs(m_ - v_) > 4e-13 * max(1.0, scale[k2[0]]):
                ctx.corr('Atilde handed to evolution_strength_helper (model atildeOf)', case, t_P, enc_out(h['p'], h['j'], h['in']))
                return False
            if (m_ == 0) != (v_ == 0):
                ctx.near_skipped += 1
                ctx.feat('G:near_threshold:atilde_zero')
                return True
    if K == 1:
        # the pattern of Atilde in the shortcut (observed at scale_rows): an entry that cancels exactly in the model and is rounding
        # noise in floating point (or the other way round) makes eliminate_zeros differ
        if not rec['pat1']:
            ctx.corr('E44: the NullDim == 1 shortcut did not hand Atilde (data 1.0) to scale_rows', case, o, '')
            return False
        ip1, ix1 = rec['pat1'][-1]
        pat_obs = {(i, int(ix1[jj])) for i in range(len(ip1) - 1) for jj in range(ip1[i], ip1[i + 1])}
        if pat_obs != set(Pf):
            Ad = A.toarray() != 0
            msk = (p['k'] != 1) or bs > 1
            if all(((Ad[i, j] and (bs <= 1 or i % bs == j % bs)) if msk else (i == j or Ad[j, i])) for i, j in pat_obs ^ set(Pf)):
                ctx.near_skipped += 1          # inside the pattern the code allows: a numerically zero entry
                ctx.feat('G:near_threshold:atilde_zero')
                return True
            ctx.corr('pattern of Atilde in the NullDim == 1 shortcut (model atildeOf)', case, t_P, enc_out(ip1, ix1, np.ones(len(ix1))))
            return False
    near, kap = _g_analyse(Pf, n, B, dA, K)
    if near:
        ctx.near_skipped += 1
        ctx.feat('G:near_threshold:strength')
        return True
    kmax = max(list(kap.values()) + [1.0])
    if 1e-12 * kmax > 1e-7:
        ctx.feat('G:skipped:ill_conditioned')
        ctx.near_skipped += 1
        return True
    # --- strength values at the drop-tolerance filter
    if p['epsilon'] != np.inf:
        if len(rec['filt']) != 1:
            ctx.corr('E44: apply_distance_filter not called exactly once for finite epsilon', case, o, '')
            return False
        fp, fx, fd = rec['filt'][0]
        obs = _arr_dict(fp, fx, np.asarray(fd).real)
        ok, worst = _cmp_dict(meas, obs, lambda k2: min(1e-6, 4e-13 * kap.get(k2, 1.0)), ignore_diag=True)
        if not ok:
            ctx.corr('evolution strength values at apply_distance_filter (model evMeasureG)', case, t_meas, enc_out(fp, fx, fd))
            return False
        eps = p['epsilon']
        for i in range(n):
            offd = [float(v) for (r, j), v in meas.items() if r == i and j != i]
            if offd and eps != 1.0:
                thr = eps * min(offd)
                if any(abs(v - thr) <= 1e-6 * thr for v in offd):
                    ctx.near_skipped += 1
                    ctx.feat('G:near_threshold:epsilon')
                    return True
    elif len(rec['filt']) != 0:
        ctx.corr('E44: apply_distance_filter called although epsilon = inf', case, o, '')
        return False
    # --- the returned matrix
    Sd = sp.csr_array(S).copy()
    Sd.sum_duplicates()
    Sd.sort_indices()
    impl = _arr_dict(Sd.indptr, Sd.indices, Sd.data)
    tol_r = 1e-12 * kmax
    ok, worst = _cmp_dict(res, impl, tol_r)
    if not ok:
        ctx.corr('evolution_strength_of_connection (E44 model evolFullG / evolFullBsr vs the returned matrix)', case, t_res, enc_csr(Sd))
        return False
    ctx.rel_err(worst * tol_r)
    ctx.feat('G:compared')
    ctx.feat(f'G:compared:{A.format}:{"c" if cplx else "r"}:K{K}:k{"1" if p["k"] == 1 else "pow2" if p["k"] & (p["k"] - 1) == 0 else "other"}')
    return True


def _arr_dict_g(ip, ix, dx):
    return {(i, int(ix[jj])): complex(dx[jj]) for i in range(len(ip) - 1) for jj in range(ip[i], ip[i + 1])}


def run_part_g(ctx, count):
    items = part_g(ctx, count)
    lines = [it[0] for it in items]
    hl = [it[1] for it in items if it[1] is not None]
    outs = _lean(ctx, lines + hl)
    houts = iter(outs[len(lines):])
    for it, o in zip(items, outs[:len(lines)]):
        oh = next(houts) if it[1] is not None else None
        A, p = it[2], it[3]
        N = A.shape[0] // (A.blocksize[0] if A.format == 'bsr' else 1)
        ctx.case(key=_key(it[0]), nontrivial=bool(A.nnz > N),
                 sample={'api': 'E44:evolution', 'fmt': A.format, 'n': A.shape[0], **{k2: v for k2, v in p.items() if k2 != 'B'}}
                 if ctx.evaluations % 499 == 0 else None)
        if not _g_finish(ctx, it, o, oh):
            judge_other(ctx, A, 'evolution', p)         # independent oracle of the property on the same input


def corr_parts(ctx, na, nb, nd=0):
    """parts A, B and D share one batch through the Lean driver"""
    ia = part_a(ctx, na)
    ib = part_b(ctx, nb)
    id_ = part_d(ctx, nd)
    outs = _lean(ctx, [it[0] for it in ia] + [it[0] for it in ib] + [it[0] for it in id_])
    part_a_finish(ctx, ia, outs[:len(ia)])
    part_b_finish(ctx, ib, outs[len(ia):len(ia) + len(ib)])
    part_d_finish(ctx, id_, outs[len(ia) + len(ib):])


def fixed_corpus(ctx):
    """deterministic inputs of the listed findings the random parts do not reach on every quick run, judged by judge_other
    like any other case (no ctx.rng / ctx.np_rng use, no Lean lines: TAIL_QUEUE is None here; the legacy np.random state
    that call_other seeds is put back afterwards)"""
    assert TAIL_QUEUE is None
    state = np.random.get_state()
    try:
        # evolution-k1-transposed-pattern: k = 1, no symmetrisation, structurally nonsymmetric pattern ((3,0),(2,1) have no
        # transposed partner), as CSR and as BSR with 1x1 blocks
        M = np.array([[4.0, -1, 0, 0], [-1, 4, -1, 0], [0, 0, 4, -1], [-1, 0, -1, 4]])
        for fmt, eps, proj, B in (('csr', 4.0, 'l2', 'ones'), ('csr', np.inf, 'D_A', 'none'), ('bsr', 4.0, 'D_A', 'ones')):
            if fmt == 'bsr':
                A = sp.bsr_array(M, blocksize=(1, 1))
                A.indptr = A.indptr.astype(np.int32)
                A.indices = A.indices.astype(np.int32)
            else:
                A = gen.int32csr(sp.csr_array(M))
            ctx.feat('fixed_corpus:evolution-k1')
            judge_other(ctx, A, 'evolution', {'npseed': 1, 'epsilon': eps, 'k': 1, 'proj_type': proj, 'symmetrize_measure': False,
                                              'block_flag': False, 'B': B})
        # affinity-zero-test-vector: row 0 stores only its diagonal entry, so with alpha = 1.0 one Jacobi sweep on A x = 0
        # makes x[0] exactly 0; row 1 references column 0 -> 0/0 in the affinity formula
        A = gen.int32csr(sp.csr_array(np.array([[2.0, 0, 0], [-1, 4, -1], [0, -1, 4]])))
        for R, k in ((1, 1), (3, 5)):
            ctx.feat('fixed_corpus:affinity-zero-row')
            judge_other(ctx, A, 'affinity', {'npseed': 7, 'alpha': 1.0, 'R': R, 'k': k, 'epsilon': 2.0})
    finally:
        np.random.set_state(state)


def run(ctx):
    fixed_corpus(ctx)
    corr_parts(ctx, ctx.scale(900, 40000), ctx.scale(130, 6500), ctx.scale(300, 13000))
    run_part_e(ctx, ctx.scale(240, 8000))
    run_part_f(ctx, ctx.scale(45, 2400), ctx.scale(90, 3000))
    run_part_g(ctx, ctx.scale(160, 9000))
    part_c(ctx, ctx.scale(240, 13000), ctx.scale(360, 19000))
    part_y(ctx)


def part_y(ctx):
    """extension E59: the Python part of classical_strength_of_connection as GENERATED from the working tree
    (harness/py2lean3_aggstr.py, Generated/PyLogic3_aggstr.lean) vs the real function executed against mock objects
    (harness/extpy3_aggstr.py): result, exception class and the whole trace compared exactly (last: the random streams of
    the parts above are unchanged)"""
    import extpy3_aggstr
    extpy3_aggstr.part_strength(ctx, ctx.scale(120, 5000))


def search(ctx):
    part_c(ctx, 900, 600)
    run_part_e(ctx, 600)
    run_part_f(ctx, 150, 300)
    run_part_g(ctx, 700)


def replay(ctx, data):
    case = data['case']
    api = case.get('api', '')
    print('replaying', api, case.get('params'), 'shape', case.get('shape'), case.get('fmt'))
    A = build(case)
    p = case.get('params', {})
    if api in ('classical', 'symmetric'):
        judge_family(ctx, A, api, norm=p.get('norm', 'abs'), block=p.get('block', True),
                     thetas=sorted(set(THETAS + [p.get('theta', 0.0)])))
    elif api.startswith('kernel:'):
        judge_family(ctx, _canon(A), 'classical' if 'classical' in api else 'symmetric',
                     norm='min' if api.endswith('min') else 'abs', thetas=sorted(set(THETAS + [p.get('theta', 0.0)])))
    else:
        judge_other(ctx, A, api, p)
    print('matrix:\n', A.toarray())
    for v in ctx.violations[:6]:
        print('  ', v['what'][:300])
