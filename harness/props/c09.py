"""C09 -- relaxation sweeps compute exactly their defining splitting update.

correspondence : raw kernels of relaxation.h (rebuilt from the working tree) and the public drivers
                 of relaxation.py vs the Lean models (Model/KRelax.lean) on Rat / Gaussian rationals,
                 bit-exact (dyadic inputs make every float operation exact).
search         : every public method vs an independent dense NumPy formula of its splitting; CSR vs
                 BSR storage of the same matrix; exact solution is a fixed point; A, b not modified.
isolation      : every call into the real code runs in a forked worker (see `_isolated`): a crash or hang of a routine
                 is a reported violation on the concrete case, never the end of the check.
"""
import hashlib

import numpy as np
import scipy.sparse as sp

import gen
from common import enc_ints, enc_rats, enc_crats, enc_rat, enc_crat, dec_list, dec_rat, dec_crat, frac

META = {
    'rule': 'cases = random dyadic CSR systems (n=1..8; unsorted/duplicated/missing-diagonal patterns, empty rows), '
            'every kernel x admissible sweep (forward/backward/strided/indexed) x omega x real/complex, plus the public '
            'drivers x sweep x iterations x omega x CSR/BSR; part D: block_jacobi / block_gauss_seidel (block size 1-3, CSR or '
            'BSR input, unsorted/duplicated entries, given exact / arbitrary / default Dinv, missing diagonal blocks), polynomial '
            '(zero and non-zero x, 1-4 coefficients), jacobi_ne / gauss_seidel_ne / gauss_seidel_nr (default and given Dinv, CSR and '
            'CSC input), schwarz (given subdomains with arbitrary or inverse blocks, default parameters) and the raw block / Schwarz '
            'kernels on strided sweeps, each against its Lean model (Model/ExtC09Block.lean); a case is non-trivial when n >= 2 '
            'and the matrix has an off-diagonal entry; distinct = distinct (operation, input) lines. Complex data: stored diagonals, '
            'given Dinv entries and the Jacobi damping parameter are scaled by Gaussian units, so purely imaginary, purely real and mixed '
            'values occur side by side (exact in binary64) for every kernel incl. the indexed ones; the BSR point kernels (bsr_gauss_seidel, '
            'bsr_jacobi, bsr_jacobi_indexed: missing diagonal blocks, zero diagonal entries inside stored blocks, unsorted block columns, '
            'strided sweeps) are compared with the POINT models on the explicit row list; the public point drivers take CSR or BSR storage '
            '(block indices for the indexed / coarse-fine routines). Part E: call histories of 2-4 public calls on ONE matrix object (CSR, '
            'BSR of a block size dividing n, CSC): schwarz with default and given subdomains mixed, decompositions of equal shapes (other '
            'indices / other pointers / the same again) and of other total / pointer length, the same decomposition with other given, inverse '
            'or internally computed sub-blocks; block_jacobi / '
            'block_gauss_seidel / cf_ / fc_block_jacobi with and without Dinv and with another block size; jacobi_ne / gauss_seidel_ne / '
            'gauss_seidel_nr with and without Dinv; polynomial with other coefficients of the same length; each call judged against the Lean '
            'model and the dense formula for ITS arguments (cf_ / fc_block_jacobi included: model pubCFBlockJacobi). Part F (extension E33): '
            'cf_block_jacobi / fc_block_jacobi (CSR or BSR input, block size 1-3, C/F lists that partition the block rows, sorted or not, or '
            'arbitrary lists with repetitions / overlap / gaps / empty, f_iterations and c_iterations 0-2, exact / arbitrary / default Dinv), the '
            'raw block_jacobi_indexed kernel on arbitrary index lists, and the public block_jacobi / block_gauss_seidel / gauss_seidel_nr on CSR '
            'input against the models that INCLUDE the storage conversion (Model/ExtC09XIndexed.lean: blockJacobiIndexed, pyCFBlockJacobi, '
            'pubBlockJacobi, pubBlockGaussSeidel, pubCFBlockJacobi, pubGaussSeidelNR). Part G: multiplicative Schwarz over user decompositions '
            'with FEWER (incl. none), AS MANY and MORE (up to 2n+2) subdomains than unknowns, empty and full subdomains, x forward / backward / '
            'symmetric x iterations 1-3 x internally computed / given inverse / given arbitrary sub-blocks x real / complex, called through '
            'relaxation.schwarz, through smoothing.setup_schwarz (user decomposition) and smoothing.setup_strength_based_schwarz (decomposition = '
            'pattern of lvl.C) on a hierarchy level, and the raw kernel on forward / backward / strided subdomain ranges; every case is judged by '
            'the dense formula in the documented subdomain order AND compared with the Lean model. ISOLATION: every call into the real code '
            '(parts A-G, replays) runs in a forked worker process; a call during which the worker dies (signal, abort after a C++ exception) or '
            'that does not return within 60 s is re-run alone in a fresh worker and reported as a violation on that concrete case (the routine '
            'did not compute its defining update); an exception raised by a public call or a kernel shim on a valid input likewise',
    'search_only': ['single-precision complex (complex64) jacobi / gauss_seidel, CSR and BSR: dense formula, tolerance 2e-4',
                    'default inverse blocks (Dinv=None, inv_subblock=None: pyamg inverts with its SVD kernel / LAPACK gelss): the '
                    'model is fed the exact rational inverses computed by the harness and compared within 1e-9, not bit-exactly',
                    'single precision: tolerance comparison only'],
    'partial': [],
    'assumptions': ['floating-point rounding is outside the model: kernels are compared on dyadic inputs where binary64 '
                    'arithmetic is exact (bit-exact agreement is counted as feature bit_exact / ext:bit_exact; otherwise 1e-9); '
                    'inverse blocks are INPUTS of the block / Schwarz models; the theorems assume they are exact inverses '
                    '(LeftInv / RightInv / SubRightInv), which the generator establishes exactly for the dyadic-invertible families',
                    'the SciPy conversions A.tobsr / A.tocsc are modelled (Csr.toBsr, Csr.toCsc), compared array by array with SciPy, and '
                    'their meaning is proved (tobsr_block_entry, tobsr_row_times_vector, tocsc_column_list, tocsc_matvec): the public_*_layers '
                    'theorems state the block / NR updates in the CSR rows and dense entries of the INPUT matrix; CsrLeftInv / CsrRightInv '
                    '(Dinv inverts the dense diagonal blocks of the CSR input) are hypotheses like LeftInv / RightInv',
                    'block_jacobi_indexed with a block index outside the matrix reads outside its arrays (no defined behaviour): the model '
                    'rejects such index lists and the generator does not produce them'],
}


def _h(a):
    return hashlib.sha1(np.ascontiguousarray(a).tobytes()).hexdigest()


def _eq_exact(model_vals, impl):
    """model_vals: list of Fraction (or (re,im)); impl: ndarray -> (exact?, close?)"""
    impl = np.asarray(impl)
    if len(model_vals) != impl.size:
        return False, False
    exact, close = True, True
    for m, v in zip(model_vals, impl.ravel()):
        if isinstance(m, tuple):
            ok = frac(v.real) == m[0] and frac(v.imag) == m[1]
            d = abs(complex(float(m[0]), float(m[1])) - complex(v))
            mag = abs(complex(float(m[0]), float(m[1])))
        else:
            if not np.isfinite(v):
                return False, False
            ok = frac(v) == m
            d = abs(float(m) - float(v))
            mag = abs(float(m))
        exact &= ok
        close &= d <= 1e-9 * (1 + mag)
    return exact, close


def _hdr(A, cplx):
    return f'{A.shape[0]} {enc_ints(A.indptr)} {enc_ints(A.indices)} {(enc_crats if cplx else enc_rats)(A.data)}'


# ------------------------------------------------------------------------------------------------
# isolation: every call into the real code (raw kernels, public drivers) runs in a forked worker.  The parent generates
# the cases (all random choices) and keeps, per case, a thunk `run(prog)` that performs the real call(s) and returns what
# was observed; the worker inherits the thunks through fork(), executes them one after the other and streams the results
# back.  A case during which the worker dies (signal: segfault, abort after a C++ exception) or does not answer is
# re-run alone in a fresh worker and reported as a VIOLATION on that concrete case -- the routine did not compute its
# defining update -- and a new worker continues with the next case.
# ------------------------------------------------------------------------------------------------

_ISO_STATS = {'workers': 0, 'calls': 0, 'crashed': 0, 'slow_retry': 0}
_ISO_LIMIT_S = 60.0        # no answer from the worker within this time = the call does not return (tiny systems: ms)


def _rng_state(rng):
    """JSON-able snapshot of the generator (taken before a case is generated: the case can be regenerated from it)"""
    import json
    return json.dumps(rng.bit_generator.state)


def _rng_from(state):
    import json
    g = np.random.default_rng(0)
    g.bit_generator.state = json.loads(state)
    return g


def _iso_worker(thunks, first, last, conn):
    import os
    code = 0
    try:
        for k in range(first, last):
            try:
                val = ('ok', thunks[k](lambda payload, _k=k: conn.send(('prog', _k, payload))))
            except Exception as ex:      # noqa: BLE001  (an exception of the real code is an observation, not a crash)
                val = ('raised', f'{type(ex).__name__}: {ex}')
            conn.send(('done', k, val))
        conn.close()
    except BaseException:                # noqa: BLE001
        code = 3
    finally:
        os._exit(code)


def _iso_run(thunks, first, last, res, limit):
    """one worker for thunks[first:last]; fills res[k]; returns (index the worker stopped at | None, how, payloads)"""
    import multiprocessing as mp
    mpc = mp.get_context('fork')
    pr, pw = mpc.Pipe(duplex=False)
    proc = mpc.Process(target=_iso_worker, args=(thunks, first, last, pw), daemon=True)
    proc.start()
    pw.close()
    k, prog, how = first, [], None
    while k < last:
        if not pr.poll(limit):
            proc.kill()
            how = f'did not return within {limit:.0f} s'
            break
        try:
            rec = pr.recv()
        except (EOFError, OSError):
            break
        if rec[0] == 'prog':
            prog.append(rec[2])
        else:
            res[rec[1]] = rec[2]
            k, prog = rec[1] + 1, []
    proc.join(30)
    pr.close()
    if k >= last:
        return None, None, []
    if how is None:
        ec = proc.exitcode
        if ec is not None and ec < 0:
            import signal
            try:
                how = f'the interpreter died with signal {-ec} ({signal.Signals(-ec).name})'
            except ValueError:
                how = f'the interpreter died with signal {-ec}'
        else:
            how = f'the worker process ended with exit status {ec}'
    return k, how, prog


def _isolated(thunks):
    """results of thunks[k](prog), each computed in a forked worker: ('ok', value) | ('raised', 'Exc: text') |
    ('crashed', how, payloads sent through prog before the end)"""
    import os
    if os.environ.get('VERIF_C09_INPROC'):       # debugging aid: no isolation
        out = []
        for th in thunks:
            try:
                out.append(('ok', th(lambda payload: None)))
            except Exception as ex:      # noqa: BLE001
                out.append(('raised', f'{type(ex).__name__}: {ex}'))
        return out
    res = [None] * len(thunks)
    first, slow = 0, 0
    _ISO_STATS['calls'] += len(thunks)
    while first < len(thunks):
        limit = _ISO_LIMIT_S if slow == 0 else 20.0
        _ISO_STATS['workers'] += 1
        k, how, prog = _iso_run(thunks, first, len(thunks), res, limit)
        if k is None:
            break
        if k > first:
            # not the first call of this worker: again, alone, in a fresh process (what is reported must reproduce by itself)
            k1, how1, prog1 = _iso_run(thunks, k, k + 1, res, min(limit, 30.0))
            if k1 is None:
                how = None if how.startswith('did not') else \
                    how + ' -- only after the preceding calls of the same worker process; alone the call returns'
                if how is None:      # slow machine, not a hang
                    _ISO_STATS['slow_retry'] += 1
                    print(f'NOTE: an isolated call answered only when re-run alone (no answer within {limit:.0f} s in the batch worker)')
                    first = k + 1
                    continue
            else:
                how, prog = how1, prog1
        if 'did not return' in how:
            slow += 1
        res[k] = ('crashed', how, prog)
        _ISO_STATS['crashed'] += 1
        first = k + 1
    return res


def _iso1(fn):
    """one call in a forked worker"""
    return _isolated([lambda prog: fn()])[0]


def _failed_text(r):
    """how a real call ended that did not return a result"""
    return 'raised ' + r[1] if r[0] == 'raised' else f'{r[1]} (crash / hang inside the routine on this input)'


# ------------------------------------------------------------------------------------------------
# part A: raw kernels
# ------------------------------------------------------------------------------------------------

KERNELS = ['gs', 'sor', 'jac', 'jaci', 'gsi', 'gsne', 'gsnr', 'jacne']

# Gaussian units / half-units: multiplying or dividing a dyadic number by one of them is exact in binary64
# (|s|^2 is 1 or 2), so the bit-exact comparison with the Lean models extends to diagonals with an exactly zero
# real part, an exactly zero imaginary part, or both parts non-zero
_CUNITS = [1, 1j, -1j, 1j, 1 + 1j, -1 + 1j, 1 - 1j, -1]


def _cdiag(rng, A, feats=None, p=0.75):
    """scale the stored diagonal entries of the complex CSR matrix A in place, row by row, by a random Gaussian unit
    (purely imaginary, mixed or real diagonals side by side in one matrix)"""
    n = A.shape[0]
    s = np.array([_CUNITS[int(k)] if rng.random() < p else 1 for k in rng.integers(0, len(_CUNITS), size=n)], dtype=complex)
    for i in range(n):
        for k in range(A.indptr[i], A.indptr[i + 1]):
            if A.indices[k] == i:
                A.data[k] = A.data[k] * s[i]
                if feats is not None and A.data[k] != 0:
                    feats.add('diag:imaginary' if A.data[k].real == 0 else ('diag:real' if A.data[k].imag == 0 else 'diag:mixed'))
    return A


def _cscalar(rng, v):
    """a complex variant of the dyadic scalar v: v, v*i, v*(1+i)/2 ... (exact)"""
    return complex(v) * complex(rng.choice([1, 1, 1j, -1j, 0.5 + 0.5j]))


def raw_case(rng, kind, cplx, t):
    from pyamg import amg_core
    n = int(rng.integers(1, 9))
    A, feats = gen.rand_dyadic_csr(rng, n, complex_=cplx, unsorted=(t % 3 == 0), duplicates=(t % 5 == 0))
    if cplx:
        _cdiag(rng, A, feats)
    dt = complex if cplx else float
    b = gen.rand_vec(rng, n, cplx)
    x = gen.rand_vec(rng, n, cplx)
    (s0, s1, s2), swk = gen.admissible_sweep(rng, n)
    om = float(rng.choice([1.0, 0.5, 1.5, 0.25]))
    if cplx and kind in ('jac', 'jaci', 'jacne') and rng.random() < 0.4:
        om = _cscalar(rng, om)          # the Jacobi kernels take the damping parameter in the matrix type
        feats.add('omega:complex')
    ev = enc_crats if cplx else enc_rats
    pre = 'c' if cplx else ''
    hdr = _hdr(A, cplx)
    case = {'kernel': kind, 'complex': cplx, 'n': n, 'indptr': A.indptr.tolist(), 'indices': A.indices.tolist(),
            'data': A.data.tolist(), 'b': b.tolist(), 'x': x.tolist(), 'sweep': [s0, s1, s2], 'omega': om}
    Ap, Aj, Ax = A.indptr, A.indices, A.data
    xx = x.astype(dt).copy()
    bb = b.astype(dt)
    outf = lambda: xx       # (the kernel calls are deferred: `run` executes them in the isolated worker)
    if kind == 'gs':
        call = lambda: amg_core.gauss_seidel(Ap, Aj, Ax, xx, bb, s0, s1, s2)
        line = f'{pre}gs {hdr} {ev(b)} {ev(x)} {s0} {s1} {s2}'
    elif kind == 'sor':
        call = lambda: amg_core.sor_gauss_seidel(Ap, Aj, Ax, xx, bb, s0, s1, s2, om)
        line = f'{pre}sor {enc_rat(om)} {hdr} {ev(b)} {ev(x)} {s0} {s1} {s2}'
    elif kind == 'jac':
        temp = np.zeros(n, dtype=dt)
        call = lambda: amg_core.jacobi(Ap, Aj, Ax, xx, bb, temp, s0, s1, s2, np.array([om], dtype=dt))
        line = (f'c09_c_jac {enc_crat(om)} {hdr} {ev(b)} {ev(x)} {s0} {s1} {s2}' if cplx else
                f'jac {enc_rat(om)} {hdr} {ev(b)} {ev(x)} {s0} {s1} {s2}')
    elif kind == 'jaci':
        idx = rng.integers(0, n, size=rng.integers(0, n + 2)).astype(np.int32)
        case['idx'] = idx.tolist()
        call = lambda: amg_core.jacobi_indexed(Ap, Aj, Ax, xx, bb, idx, np.array([om], dtype=dt))
        line = (f'c09_c_jaci {enc_crat(om)} {hdr} {ev(b)} {ev(x)} {enc_ints(idx)}' if cplx else
                f'jaci {enc_rat(om)} {hdr} {ev(b)} {ev(x)} {enc_ints(idx)}')
    elif kind == 'gsi':
        idx = rng.integers(0, n, size=rng.integers(1, n + 2)).astype(np.int32)
        m = len(idx)
        a0, a1, a2 = (0, m, 1) if t % 2 else (m - 1, -1, -1)
        case['idx'] = idx.tolist()
        case['sweep'] = [a0, a1, a2]
        call = lambda: amg_core.gauss_seidel_indexed(Ap, Aj, Ax, xx, bb, idx, a0, a1, a2)
        line = f'{"c09_c_gsi" if cplx else "gsi"} {hdr} {ev(b)} {ev(x)} {enc_ints(idx)} {a0} {a1} {a2}'
    elif kind == 'gsne':
        dinv = rng.choice([1, 0.5, 0.25, 2], size=n).astype(dt)
        if cplx and rng.random() < 0.5:     # the kernel takes Dinv in the matrix type: purely imaginary / mixed entries
            dinv = dinv * rng.choice([1, 1j, -1j, 1 + 1j], size=n)
        case['dinv'] = dinv.tolist()
        omv = om
        call = lambda: amg_core.gauss_seidel_ne(Ap, Aj, Ax, xx, bb, s0, s1, s2, dinv, omv)
        line = f'{pre}gsne {(enc_crat if cplx else enc_rat)(om)} {hdr} {ev(b)} {ev(x)} {ev(dinv)} {s0} {s1} {s2}'
    elif kind == 'gsnr':
        dinv = rng.choice([1, 0.5, 0.25, 2], size=n).astype(dt)
        if cplx and rng.random() < 0.5:     # the kernel takes Dinv in the matrix type: purely imaginary / mixed entries
            dinv = dinv * rng.choice([1, 1j, -1j, 1 + 1j], size=n)
        case['dinv'] = dinv.tolist()
        r = bb.copy()
        omv = om
        call = lambda: amg_core.gauss_seidel_nr(Ap, Aj, Ax, xx, r, s0, s1, s2, dinv, omv)
        line = f'{pre}gsnr {(enc_crat if cplx else enc_rat)(om)} {hdr} {ev(b)} {ev(x)} {ev(dinv)} {s0} {s1} {s2}'
        outf = lambda: np.concatenate([xx, r])
    else:
        delta = gen.rand_vec(rng, n, cplx, -3, 4).astype(dt)
        case['delta'] = delta.tolist()
        temp = np.zeros(n, dtype=dt)
        s0, s1, s2 = 0, n, 1
        case['sweep'] = [s0, s1, s2]
        call = lambda: amg_core.jacobi_ne(Ap, Aj, Ax, xx, bb, delta, temp, s0, s1, s2, np.array([om], dtype=dt))
        line = f'{pre}jacne {(enc_crat if cplx else enc_rat)(om)} {hdr} {ev(delta)} {ev(x)} {s0} {s1} {s2}'
    nontrivial = n >= 2 and any(A.indices[k] != i for i in range(n) for k in range(A.indptr[i], A.indptr[i + 1]))
    return {'line': line, 'run': lambda prog: (call(), outf())[1], 'case': case,
            'feats': feats | {swk, 'complex' if cplx else 'real', 'omega!=1' if om != 1 else 'omega=1'}, 'nontrivial': nontrivial, 'cplx': cplx}


BSR_KERNELS = ['bgs', 'bjac', 'bjaci']


def _block_rows(brows, bs, backward):
    """the point rows a BSR point kernel relaxes, in its order: block rows in sweep order, the rows of a block in sweep direction"""
    ks = list(range(bs - 1, -1, -1)) if backward else list(range(bs))
    return [int(i) * bs + k for i in brows for k in ks]


def raw_bsr_case(rng, kind, cplx, t):
    """bsr_gauss_seidel / bsr_jacobi / bsr_jacobi_indexed on the BSR storage of a dyadic matrix (missing diagonal blocks, stored
    blocks with zero diagonal entries, unsorted block columns) against the POINT models on the explicit row list"""
    from pyamg import amg_core
    bs = int(rng.choice([1, 2, 2, 3]))
    nb = int(rng.integers(1, 5 if bs < 3 else 3))
    n = bs * nb
    A, feats = gen.rand_dyadic_csr(rng, n, complex_=cplx)
    if cplx:
        _cdiag(rng, A, feats)
    M = A.toarray()
    for k in range(nb):
        if rng.random() < 0.15:
            M[k * bs:(k + 1) * bs, k * bs:(k + 1) * bs] = 0
            feats.add('missing_diag_block')
    A = gen.int32csr(sp.csr_array(M))
    B = A.tobsr(blocksize=(bs, bs))
    Bp, Bj, Bx = B.indptr.astype(np.int32), B.indices.astype(np.int32), B.data.copy()
    if t % 2 == 0:
        for i in range(nb):
            p = rng.permutation(Bp[i + 1] - Bp[i])
            Bj[Bp[i]:Bp[i + 1]] = Bj[Bp[i]:Bp[i + 1]][p]
            Bx[Bp[i]:Bp[i + 1]] = Bx[Bp[i]:Bp[i + 1]][p]
        feats.add('unsorted')
    dt = complex if cplx else float
    Bx = np.ravel(Bx).astype(dt)
    b = gen.rand_vec(rng, n, cplx).astype(dt)
    x = gen.rand_vec(rng, n, cplx).astype(dt)
    om = float(rng.choice([1.0, 0.5, 1.5, 0.25]))
    if cplx and rng.random() < 0.4:
        om = _cscalar(rng, om)
        feats.add('omega:complex')
    (s0, s1, s2), swk = gen.admissible_sweep(rng, nb)
    ev = enc_crats if cplx else enc_rats
    P = 'c09_c_' if cplx else 'c09_r_'
    eo = enc_crat if cplx else enc_rat
    hdr = _hdr(A, cplx)
    case = {'kernel': kind, 'complex': cplx, 'n': n, 'bs': bs, 'indptr': A.indptr.tolist(), 'indices': A.indices.tolist(),
            'data': A.data.tolist(), 'b': b.tolist(), 'x': x.tolist(), 'sweep': [int(s0), int(s1), int(s2)], 'omega': om,
            'bsr_indptr': Bp.tolist(), 'bsr_indices': Bj.tolist()}
    xx = x.copy()
    if kind == 'bgs':
        rows = _block_rows(range(s0, s1, s2), bs, s2 < 0)
        call = lambda: amg_core.bsr_gauss_seidel(Bp, Bj, Bx, xx, b, s0, s1, s2, bs)
        line = f'{P}gsrows {hdr} {ev(b)} {ev(x)} {enc_ints(rows)}'
    elif kind == 'bjac':
        rows = _block_rows(range(s0, s1, s2), bs, s2 < 0)
        temp = gen.rand_vec(rng, n, cplx).astype(dt)
        call = lambda: amg_core.bsr_jacobi(Bp, Bj, Bx, xx, b, temp, s0, s1, s2, bs, np.array([om], dtype=dt))
        line = f'{P}jacrows {eo(om)} {hdr} {ev(b)} {ev(x)} {enc_ints(rows)}'
    else:
        idx = rng.integers(0, nb, size=rng.integers(0, nb + 2)).astype(np.int32)
        case['idx'] = idx.tolist()
        rows = _block_rows(idx, bs, False)
        call = lambda: amg_core.bsr_jacobi_indexed(Bp, Bj, Bx, xx, b, idx, bs, np.array([om], dtype=dt))
        line = f'{P}jacrows {eo(om)} {hdr} {ev(b)} {ev(x)} {enc_ints(rows)}'
    case['rows'] = rows
    nontrivial = n >= 2 and A.nnz > np.count_nonzero(M.diagonal())
    return {'line': line, 'run': lambda prog: (call(), xx)[1], 'case': case,
            'feats': feats | {swk, 'complex' if cplx else 'real', f'bs:{bs}', 'omega!=1' if om != 1 else 'omega=1'}, 'nontrivial': nontrivial, 'cplx': cplx}


def _parse_model(s, cplx):
    f = dec_crat if cplx else dec_rat
    return [v for part in s.split(';') for v in dec_list(part, f)]


def _raw_results(ctx, items):
    """execute the deferred kernel calls of the items in the isolated worker: it['out'] = what the kernel left in x
    (None, and a violation, if the call did not come back)"""
    for it, r in zip(items, _isolated([it['run'] for it in items])):
        it['out'] = r[1] if r[0] == 'ok' else None
        if r[0] != 'ok':
            c = it['case']
            ctx.case(key=hashlib.sha1(it['line'].encode()).hexdigest(), nontrivial=it['nontrivial'])
            ctx.feat('kernel:' + c['kernel'])
            ctx.violation(f'kernel {c["kernel"]} (n={c["n"]}, sweep {c.get("sweep")}) did not compute its defining update: {_failed_text(r)}',
                          {'kind': 'raw', **c, 'regen': it['regen']})


def part_a(ctx, N):
    rng = ctx.np_rng
    items = []
    kernels = KERNELS + BSR_KERNELS
    for t in range(N):
        kind = kernels[t % len(kernels)]
        cplx = (t // len(kernels)) % 3 == 2
        st = _rng_state(rng)
        items.append((raw_bsr_case if kind in BSR_KERNELS else raw_case)(rng, kind, cplx, t))
        items[-1]['regen'] = {'part': 'a', 'kind': kind, 'cplx': cplx, 't': t, 'state': st}
    _raw_results(ctx, items)
    items = [it for it in items if it['out'] is not None]
    outs = ctx.lean([it['line'] for it in items])
    for it, o in zip(items, outs):
        ctx.case(key=hashlib.sha1(it['line'].encode()).hexdigest(), nontrivial=it['nontrivial'],
                 sample={'request': it['line'][:300], 'model': o[:120], 'impl': np.asarray(it['out']).tolist()[:8]})
        for f in it['feats']:
            ctx.feat(f)
        ctx.feat('kernel:' + it['case']['kernel'])
        if o in ('bad-op',):
            ctx.corr('raw-kernel', it['case'], o, 'n/a', 'driver rejected the request')
            continue
        exact, close = _eq_exact(_parse_model(o, it['cplx']), it['out'])
        if exact:
            ctx.feat('bit_exact')
        if not close:
            ctx.corr('raw-kernel ' + it['case']['kernel'], it['case'], o, np.asarray(it['out']).tolist())
        if not close or (len(it['line']) + it['case']['n']) % 6 == 0:
            # the kernel disagrees with the model: is the splitting formula itself violated?  (a sample of the agreeing
            # cases is judged too, so that the dense oracle is exercised on every run)
            judge_raw(ctx, it)


def judge_raw(ctx, it):
    """independent dense judgement of a raw-kernel result (GS/SOR/Jacobi rows) -> violation if the
    defining splitting update is not what the kernel computed"""
    c = it['case']
    n = c['n']
    if c['kernel'] in BSR_KERNELS:
        D = gen.csr_from_arrays(n, c['indptr'], c['indices'], np.array(c['data'], dtype=complex if c['complex'] else float)).toarray()
        x = np.array(c['x'], dtype=D.dtype)
        b = np.array(c['b'], dtype=D.dtype)
        ref = (_dense_gs(D, x, b, c['rows'], 1.0) if c['kernel'] == 'bgs' else _dense_jac(D, x, b, c['rows'], c['omega']))
        if not np.allclose(ref, it['out'], rtol=1e-9, atol=1e-9):
            ctx.violation(f'kernel {c["kernel"]} (BSR storage, blocksize {c["bs"]}) does not compute the point-wise splitting update: '
                          f'expected {ref.tolist()} got {np.asarray(it["out"]).tolist()}', {'kind': 'raw', **c})
        return
    if c['kernel'] in ('jaci', 'gsi', 'gsne', 'gsnr', 'jacne'):
        D = gen.csr_from_arrays(n, c['indptr'], c['indices'], np.array(c['data'], dtype=complex if c['complex'] else float)).toarray()
        x = np.array(c['x'], dtype=D.dtype)
        b = np.array(c['b'], dtype=D.dtype)
        om = c['omega']
        if c['kernel'] in ('jaci', 'gsi'):
            diag_cnt = [sum(1 for k in range(c['indptr'][i], c['indptr'][i + 1]) if c['indices'][k] == i) for i in range(n)]
            if max(diag_cnt, default=0) > 1:
                return
            if c['kernel'] == 'jaci':
                ref = _dense_jac(D, x, b, c['idx'], om)
            else:
                ref = _dense_gs(D, x, b, [c['idx'][p] for p in range(*c['sweep'])], 1.0)
        elif c['kernel'] == 'jacne':
            ref = x + om * (D.conj().T @ np.array(c['delta'], dtype=D.dtype))
        else:
            di = np.array(c['dinv'], dtype=D.dtype)
            rows = list(range(*c['sweep']))
            ref = x.copy()
            if c['kernel'] == 'gsne':
                for i in rows:
                    ref = ref + ((b[i] - D[i] @ ref) * di[i] * om) * D[i].conj()
            else:       # the arrays are read as CSC: the matrix is D^T, the second vector is the running residual
                B, r = D.T, b.copy()
                for i in rows:
                    delta = (B[:, i].conj() @ r) * di[i] * om
                    ref[i] += delta
                    r = r - delta * B[:, i]
                ref = np.concatenate([ref, r])
        if not np.allclose(ref, it['out'], rtol=1e-9, atol=1e-9):
            ctx.violation(f'kernel {c["kernel"]} does not compute its defining update: expected {ref.tolist()} got {np.asarray(it["out"]).tolist()}',
                          {'kind': 'raw', **c})
        return
    A = gen.csr_from_arrays(n, c['indptr'], c['indices'], np.array(c['data'], dtype=complex if c['complex'] else float))
    diag_cnt = [sum(1 for k in range(A.indptr[i], A.indptr[i + 1]) if A.indices[k] == i) for i in range(n)]
    if max(diag_cnt, default=0) > 1:
        return     # duplicated diagonal: the kernel's "last one wins" policy has no dense meaning
    D = A.toarray()
    x = np.array(c['x'], dtype=D.dtype)
    b = np.array(c['b'], dtype=D.dtype)
    s0, s1, s2 = c['sweep']
    rows = list(range(s0, s1, s2))
    om = c['omega'] if c['kernel'] != 'gs' else 1.0
    ref = x.copy()
    if c['kernel'] == 'jac':
        old = np.zeros_like(x)      # the kernel copies only the swept rows into its (zeroed) work vector
        old[rows] = x[rows]
        for i in rows:
            if D[i, i] != 0:
                ref[i] = (1 - om) * old[i] + om * (b[i] - (D[i] @ old - D[i, i] * old[i])) / D[i, i]
    else:
        for i in rows:
            if D[i, i] != 0:
                ref[i] = (1 - om) * ref[i] + om * (b[i] - (D[i] @ ref - D[i, i] * ref[i])) / D[i, i]
    if not np.allclose(ref, it['out'], rtol=1e-9, atol=1e-9):
        ctx.violation(f'kernel {c["kernel"]} does not compute its splitting update: expected {ref.tolist()} got {np.asarray(it["out"]).tolist()}',
                      {'kind': 'raw', **c})


# ------------------------------------------------------------------------------------------------
# part B: public drivers vs the Lean driver models (exact)
# ------------------------------------------------------------------------------------------------

PUBLIC_FNS = ['gauss_seidel', 'sor', 'jacobi', 'gauss_seidel_indexed', 'jacobi_indexed', 'cf_jacobi', 'fc_jacobi']


def public_case(rng, t):
    """one call of a public point driver: the case, its Lean request and the deferred call"""
    from pyamg.relaxation import relaxation as R
    FNS = PUBLIC_FNS
    n = int(rng.integers(1, 8))
    cplx = (t // len(FNS)) % 3 == 2
    A, feats = gen.rand_dyadic_csr(rng, n, complex_=cplx, unsorted=(t % 4 == 0))
    if cplx:
        _cdiag(rng, A, feats)
    dt = complex if cplx else float
    b = gen.rand_vec(rng, n, cplx).astype(dt)
    x = gen.rand_vec(rng, n, cplx).astype(dt)
    om = float(rng.choice([1.0, 0.5, 1.5]))
    iters = int(rng.integers(1, 4))
    sweep = str(rng.choice(['forward', 'backward', 'symmetric']))
    ev = enc_crats if cplx else enc_rats
    eo = enc_crat if cplx else enc_rat
    hdr = _hdr(A, cplx)
    kind = FNS[t % len(FNS)]
    if cplx and kind in ('jacobi', 'jacobi_indexed', 'cf_jacobi', 'fc_jacobi') and rng.random() < 0.4:
        om = _cscalar(rng, om)
        feats.add('omega:complex')
    # storage: the same matrix as BSR with a block size dividing n (the indexed routines then take BLOCK indices)
    bs = 0
    if kind != 'gauss_seidel_indexed' and rng.random() < 0.35:
        bs = int(rng.choice([d for d in (1, 2, 3) if n % d == 0]))
    nb = n // bs if bs else n
    case = {'fn': kind, 'complex': cplx, 'n': n, 'indptr': A.indptr.tolist(), 'indices': A.indices.tolist(),
            'data': A.data.tolist(), 'b': b.tolist(), 'x': x.tolist(), 'omega': om, 'iterations': iters, 'sweep': sweep, 'bsr_blocksize': bs}
    Ain = A
    if bs:
        Ain = A.tobsr(blocksize=(bs, bs))
        feats.add(f'storage:bsr{bs}')
    expand = (lambda ix: _block_rows(ix, bs, False)) if bs else (lambda ix: [int(v) for v in ix])
    xx = x.copy()
    hA, hb, hAin = _h(A.data), _h(b), _h(Ain.data)
    pre = 'c' if cplx else ''
    if kind == 'gauss_seidel':
        call = lambda: R.gauss_seidel(Ain, xx, b, iterations=iters, sweep=sweep, omega=om)
        line = f'{pre}pygs {enc_rat(om)} {hdr} {ev(b)} {ev(x)} {iters} {sweep}'
    elif kind == 'sor':
        call = lambda: R.sor(Ain, xx, b, om, iterations=iters, sweep=sweep)
        line = f'{pre}pygs {enc_rat(om)} {hdr} {ev(b)} {ev(x)} {iters} {sweep}'
    elif kind == 'jacobi':
        call = lambda: R.jacobi(Ain, xx, b, iterations=iters, omega=om)
        line = f'{pre}pyjac {eo(om)} {hdr} {ev(b)} {ev(x)} {iters}'
    elif kind == 'gauss_seidel_indexed':
        idx = rng.integers(0, n, size=rng.integers(0, n + 2)).astype(np.int32)
        case['idx'] = idx.tolist()
        call = lambda: R.gauss_seidel_indexed(A, xx, b, idx, iterations=iters, sweep=sweep)
        line = f'{"c09_c_pygsi" if cplx else "pygsi"} {hdr} {ev(b)} {ev(x)} {enc_ints(idx)} {iters} {sweep}'
    elif kind == 'jacobi_indexed':
        # (BSR storage: a non-empty index set; the unchanged code raises on an empty one -- reported, not generated)
        idx = rng.integers(0, nb, size=rng.integers(1 if bs else 0, nb + 2)).astype(np.int32)
        case['block_idx'], case['idx'] = idx.tolist(), expand(idx)
        call = lambda: R.jacobi_indexed(Ain, xx, b, idx, iterations=iters, omega=om)
        line = f'{"c09_c_pyjaci" if cplx else "pyjaci"} {eo(om)} {hdr} {ev(b)} {ev(x)} {enc_ints(case["idx"])} {iters}'
    else:
        perm = rng.permutation(nb)
        k = int(rng.integers(0, nb + 1))
        C, F = np.sort(perm[:k]).astype(np.int32), np.sort(perm[k:]).astype(np.int32)
        fit, cit = int(rng.integers(1, 3)), int(rng.integers(1, 3))
        case.update({'block_Cpts': C.tolist(), 'block_Fpts': F.tolist(), 'Cpts': expand(C), 'Fpts': expand(F),
                     'f_iterations': fit, 'c_iterations': cit})
        fn = R.cf_jacobi if kind == 'cf_jacobi' else R.fc_jacobi
        call = lambda: fn(Ain, xx, b, C, F, iterations=iters, f_iterations=fit, c_iterations=cit, omega=om)
        line = (f'{"c09_c_pycfjac" if cplx else "pycfjac"} {1 if kind == "cf_jacobi" else 0} {eo(om)} {hdr} {ev(b)} {ev(x)} '
                f'{enc_ints(case["Cpts"])} {enc_ints(case["Fpts"])} {iters} {fit} {cit}')
    nontriv = n >= 2 and A.nnz > n
    # (deferred: `run` makes the call in the isolated worker and reports x and whether A or b changed)
    run = lambda prog: (call(), (xx, _h(A.data) != hA or _h(b) != hb or _h(Ain.data) != hAin))[1]
    return {'line': line, 'run': run, 'case': case, 'cplx': cplx, 'nontrivial': nontriv,
            'feats': feats | {'fn:' + kind, 'sweep:' + sweep, f'iters:{iters}', 'omega!=1' if om != 1 else 'omega=1',
                              'complex' if cplx else 'real'}}


def _public_results(ctx, items):
    """execute the deferred public calls in the isolated worker: it['out'] = x after the call (None, and a violation, if
    the call raised or did not come back)"""
    for it, r in zip(items, _isolated([it['run'] for it in items])):
        it['out'] = r[1][0] if r[0] == 'ok' else None
        case = {'kind': 'public', **it['case'], 'regen': it['regen']}
        if r[0] != 'ok':
            c = it['case']
            ctx.case(key=hashlib.sha1((it['line'] + f' storage={c["bsr_blocksize"]}').encode()).hexdigest(), nontrivial=it['nontrivial'])
            ctx.feat('fn:' + c['fn'])
            ctx.violation(f'{c["fn"]}(sweep={c.get("sweep")}, iterations={c.get("iterations")}, omega={c.get("omega")}, BSR blocksize '
                          f'{c["bsr_blocksize"]}) did not compute its splitting update: {_failed_text(r)}', case)
        elif r[1][1]:
            ctx.violation(f'{it["case"]["fn"]} modified its matrix or right-hand side', case)


def part_b(ctx, N):
    rng = ctx.np_rng
    items = []
    for t in range(N):
        st = _rng_state(rng)
        items.append(public_case(rng, t))
        items[-1]['regen'] = {'part': 'b', 't': t, 'state': st}
    _public_results(ctx, items)
    items = [it for it in items if it['out'] is not None]
    outs = ctx.lean([it['line'] for it in items])
    for it, o in zip(items, outs):
        ctx.case(key=hashlib.sha1((it['line'] + f' storage={it["case"]["bsr_blocksize"]}').encode()).hexdigest(), nontrivial=it['nontrivial'],
                 sample={'request': it['line'][:300], 'model': o[:120], 'impl': np.asarray(it['out']).tolist()[:8]})
        for f in it['feats']:
            ctx.feat(f)
        exact, close = _eq_exact(_parse_model(o, it['cplx']), it['out'])
        if exact:
            ctx.feat('bit_exact')
        if not close:
            ctx.corr('public ' + it['case']['fn'], it['case'], o, np.asarray(it['out']).tolist())
        if not close or (len(it['line']) + it['case']['n']) % 6 == 0:
            judge_public(ctx, it['case'], it['out'])


# ------------------------------------------------------------------------------------------------
# independent dense references (the search oracle)
# ------------------------------------------------------------------------------------------------

def _dense_gs(D, x, b, rows, om):
    x = x.copy()
    for i in rows:
        if D[i, i] != 0:
            x[i] = (1 - om) * x[i] + om * (b[i] - (D[i] @ x - D[i, i] * x[i])) / D[i, i]
    return x


def _dense_jac(D, x, b, rows, om):
    old = x.copy()
    x = x.copy()
    for i in rows:
        if D[i, i] != 0:
            x[i] = (1 - om) * old[i] + om * (b[i] - (D[i] @ old - D[i, i] * old[i])) / D[i, i]
    return x


def dense_reference(case):
    """the defining splitting update of a public call, computed densely and independently"""
    cplx = case['complex']
    dt = complex if cplx else float
    n = case['n']
    A = gen.csr_from_arrays(n, case['indptr'], case['indices'], np.array([complex(*v) if isinstance(v, (list, tuple)) else v for v in case['data']], dtype=dt)
                            if not isinstance(case['data'], np.ndarray) else case['data'])
    D = A.toarray()
    x = np.array(case['x'], dtype=dt)
    b = np.array(case['b'], dtype=dt)
    om = case.get('omega', 1.0)
    it = case.get('iterations', 1)
    fn = case['fn']
    sw = case.get('sweep', 'forward')
    fwd, bwd = list(range(n)), list(range(n - 1, -1, -1))
    if fn in ('gauss_seidel', 'sor'):
        for _ in range(it):
            if sw in ('forward', 'symmetric'):
                x = _dense_gs(D, x, b, fwd, om)
            if sw in ('backward', 'symmetric'):
                x = _dense_gs(D, x, b, bwd, om)
        return x
    if fn == 'jacobi':
        for _ in range(it):
            x = _dense_jac(D, x, b, fwd, om)
        return x
    if fn == 'gauss_seidel_indexed':
        idx = case['idx']
        for _ in range(it):
            if sw in ('forward', 'symmetric'):
                x = _dense_gs(D, x, b, idx, 1.0)
            if sw in ('backward', 'symmetric'):
                x = _dense_gs(D, x, b, idx[::-1], 1.0)
        return x
    if fn == 'jacobi_indexed':
        for _ in range(it):
            x = _dense_jac(D, x, b, case['idx'], om)
        return x
    if fn in ('cf_jacobi', 'fc_jacobi'):
        for _ in range(it):
            order = [('C', case['c_iterations']), ('F', case['f_iterations'])]
            if fn == 'fc_jacobi':
                order.reverse()
            for which, k in order:
                pts = case['Cpts'] if which == 'C' else case['Fpts']
                for _j in range(k):
                    x = _dense_jac(D, x, b, pts, om)
        return x
    raise KeyError(fn)


def judge_public(ctx, case, out):
    ref = dense_reference(case)
    if not np.allclose(ref, out, rtol=1e-9, atol=1e-9):
        ctx.violation(f'{case["fn"]}(sweep={case.get("sweep")}, iterations={case.get("iterations")}, omega={case.get("omega")}) '
                      f'is not its splitting update: expected {ref.tolist()} got {np.asarray(out).tolist()}',
                      {'kind': 'public', **case})


# ------------------------------------------------------------------------------------------------
# part C: search on the real code -- all public methods vs dense formulas, CSR == BSR, fixed point
# ------------------------------------------------------------------------------------------------

def _well_system(rng, n, cplx, bs=1):
    """diagonally dominant random system (no zero diagonals) of size n (multiple of bs)"""
    M = (rng.random((n, n)) < 0.5) * rng.integers(-3, 4, size=(n, n)).astype(float)
    if cplx:
        M = M + 1j * (rng.random((n, n)) < 0.3) * rng.integers(-2, 3, size=(n, n))
    M[np.arange(n), np.arange(n)] = np.abs(M).sum(1) + rng.integers(1, 4, size=n)
    if cplx:    # dominant diagonals with an exactly zero real part, an exactly zero imaginary part, or neither
        M[np.arange(n), np.arange(n)] *= np.array([_CUNITS[int(k)] for k in rng.integers(0, len(_CUNITS), size=n)])
    return M


SEARCH_METHODS = ['bsr_gs', 'bsr_jacobi', 'block_jacobi', 'block_gauss_seidel', 'jacobi_ne', 'gauss_seidel_ne',
                  'gauss_seidel_nr', 'polynomial', 'schwarz', 'fixed_point', 'cf_block_jacobi', 'float32', 'complex64']


def search_case(rng, t):
    """one case of the search: all random choices are made here; `run` (executed in the isolated worker) makes the real
    calls, judges them against the dense formulas and returns the list of failure messages"""
    cplx = t % 5 == 4
    dt = complex if cplx else float
    bs = int(rng.choice([1, 2, 3]))
    nb = int(rng.integers(1, 5))
    n = bs * nb
    M = _well_system(rng, n, cplx)
    A = gen.int32csr(sp.csr_array(M))
    b = gen.rand_vec(rng, n, cplx).astype(dt)
    x0 = gen.rand_vec(rng, n, cplx).astype(dt)
    om = float(rng.choice([1.0, 0.5, 1.3]))
    iters = int(rng.integers(1, 3))
    sweep = str(rng.choice(['forward', 'backward', 'symmetric']))
    method = SEARCH_METHODS[t % 13]
    case = {'method': method, 'n': n, 'bs': bs, 'complex': cplx, 'M': M.tolist() if not cplx else [[[v.real, v.imag] for v in r] for r in M],
            'b': b.tolist(), 'x': x0.tolist(), 'omega': om, 'iterations': iters, 'sweep': sweep}
    key = (method, sweep, bs, cplx, om != 1, iters)
    info = {'key': hashlib.sha1(repr((key, M.tobytes(), b.tobytes(), x0.tobytes())).encode()).hexdigest(), 'nontrivial': n >= 2,
            'sample': {'method': method, 'n': n, 'bs': bs, 'sweep': sweep, 'omega': om, 'iterations': iters} if t < 3 else None,
            'method': method, 'case': case}
    D = M.astype(dt)
    fwd, bwd = list(range(n)), list(range(n - 1, -1, -1))
    # method-specific random choices (before any real call)
    if method == 'cf_block_jacobi':
        perm = rng.permutation(nb)
        k0 = int(rng.integers(0, nb + 1))
        C, F = np.sort(perm[:k0]).astype(np.int32), np.sort(perm[k0:]).astype(np.int32)
        case['Cpts'], case['Fpts'] = C.tolist(), F.tolist()
    elif method == 'polynomial':
        coeffs = rng.choice([-0.25, 0.5, 0.125, 1.0, -0.5], size=int(rng.integers(1, 4))).tolist()
        case['coefficients'] = coeffs
        if t % 24 == 7:
            x0 = np.zeros(n, dtype=dt)
            case['x'] = x0.tolist()
    elif method == 'schwarz':
        # symmetric pattern required for the default subdomains (one per row: the row's pattern)
        Ms = M + M.conj().T
        Ms[np.arange(n), np.arange(n)] = np.abs(Ms).sum(1) + 1
        if cplx:
            Ms[np.arange(n), np.arange(n)] *= np.array([_CUNITS[int(k)] for k in rng.integers(0, len(_CUNITS), size=n)])
        As = gen.int32csr(sp.csr_array(Ms))
        case['M'] = Ms.tolist() if not cplx else [[[v.real, v.imag] for v in r] for r in Ms]
    elif method == 'fixed_point':
        xs = gen.rand_vec(rng, n, cplx).astype(dt)
        bb = D @ xs
        case['x'], case['b'] = xs.tolist(), bb.tolist()
    elif method == 'complex64':
        # single-precision complex data (diagonals purely imaginary / real / mixed), CSR and BSR storage
        Mc = _well_system(rng, n, True)
        case['M'], case['complex'] = [[[v.real, v.imag] for v in r] for r in Mc], True
        A64 = gen.int32csr(sp.csr_array(Mc.astype(np.complex64)))
        xc0 = (x0 + (0 if cplx else 1j) * gen.rand_vec(rng, n, False)).astype(np.complex64)
        bc = (b + (0 if cplx else 1j) * gen.rand_vec(rng, n, False)).astype(np.complex64)
        case['x'], case['b'] = xc0.astype(complex).tolist(), bc.astype(complex).tolist()

    def run(prog):
        from pyamg.relaxation import relaxation as R
        fails = []
        x = x0.copy()
        hA, hb = _h(A.data), _h(b)

        def fail(msg, ref=None):
            fails.append(f'{method}: {msg}' + (f' expected {np.asarray(ref).tolist()} got {x.tolist()}' if ref is not None else ''))

        try:
                if method == 'bsr_gs':
                    Ab = A.tobsr(blocksize=(bs, bs))
                    R.gauss_seidel(Ab, x, b, iterations=iters, sweep=sweep, omega=om)
                    ref = x0.copy()
                    for _ in range(iters):
                        if sweep in ('forward', 'symmetric'):
                            ref = _dense_gs(D, ref, b, fwd, om)
                        if sweep in ('backward', 'symmetric'):
                            ref = _dense_gs(D, ref, b, bwd, om)
                    xc = x0.copy()
                    R.gauss_seidel(A, xc, b, iterations=iters, sweep=sweep, omega=om)
                    if not np.allclose(x, ref, rtol=1e-9, atol=1e-9):
                        fail('BSR Gauss-Seidel differs from the point-wise splitting update', ref)
                    elif not np.allclose(x, xc, rtol=1e-9, atol=1e-9):
                        fail('CSR and BSR storage give different results', xc)
                elif method == 'bsr_jacobi':
                    Ab = A.tobsr(blocksize=(bs, bs))
                    R.jacobi(Ab, x, b, iterations=iters, omega=om)
                    ref = x0.copy()
                    for _ in range(iters):
                        ref = _dense_jac(D, ref, b, fwd, om)
                    if not np.allclose(x, ref, rtol=1e-9, atol=1e-9):
                        fail('BSR Jacobi differs from x + omega D^-1 (b - A x)', ref)
                elif method in ('block_jacobi', 'cf_block_jacobi'):
                    Dinv = np.array([np.linalg.inv(D[k * bs:(k + 1) * bs, k * bs:(k + 1) * bs]) for k in range(nb)])
                    if method == 'block_jacobi':
                        R.block_jacobi(A, x, b, blocksize=bs, iterations=iters, omega=om)
                        ref = x0.copy()
                        for _ in range(iters):
                            r = b - D @ ref
                            ref = ref + om * np.concatenate([Dinv[k] @ r[k * bs:(k + 1) * bs] for k in range(nb)])
                    else:
                        R.cf_block_jacobi(A, x, b, C, F, blocksize=bs, iterations=iters, omega=om)
                        ref = x0.copy()
                        for _ in range(iters):
                            for pts in (C, F):
                                r = b - D @ ref
                                new = ref.copy()
                                for k in pts:
                                    new[k * bs:(k + 1) * bs] = ref[k * bs:(k + 1) * bs] + om * (Dinv[k] @ r[k * bs:(k + 1) * bs])
                                ref = new
                    if not np.allclose(x, ref, rtol=1e-8, atol=1e-8):
                        fail('block Jacobi differs from x + omega D_block^-1 (b - A x)', ref)
                elif method == 'block_gauss_seidel':
                    R.block_gauss_seidel(A, x, b, iterations=iters, sweep=sweep, blocksize=bs)
                    ref = x0.copy()

                    def bgs(ref, order):
                        for k in order:
                            sl = slice(k * bs, (k + 1) * bs)
                            r = b[sl] - D[sl] @ ref + D[sl, sl] @ ref[sl]
                            ref[sl] = np.linalg.solve(D[sl, sl], r)
                        return ref
                    for _ in range(iters):
                        if sweep in ('forward', 'symmetric'):
                            ref = bgs(ref, range(nb))
                        if sweep in ('backward', 'symmetric'):
                            ref = bgs(ref, range(nb - 1, -1, -1))
                    if not np.allclose(x, ref, rtol=1e-8, atol=1e-8):
                        fail('block Gauss-Seidel differs from its block splitting update', ref)
                elif method == 'jacobi_ne':
                    R.jacobi_ne(A, x, b, iterations=iters, omega=om)
                    ref = x0.copy()
                    dd = np.sum(np.abs(D) ** 2, axis=1)
                    for _ in range(iters):
                        ref = ref + om * (D.conj().T @ ((b - D @ ref) / dd))
                    if not np.allclose(x, ref, rtol=1e-9, atol=1e-9):
                        fail('jacobi_ne differs from x + omega A^H diag(A A^H)^-1 (b - A x)', ref)
                elif method == 'gauss_seidel_ne':
                    R.gauss_seidel_ne(A, x, b, iterations=iters, sweep=sweep, omega=om)
                    ref = x0.copy()
                    dd = np.sum(np.abs(D) ** 2, axis=1)

                    def kz(ref, order):
                        for i in order:
                            ref = ref + om * ((b[i] - D[i] @ ref) / dd[i]) * D[i].conj()
                        return ref
                    for _ in range(iters):
                        if sweep in ('forward', 'symmetric'):
                            ref = kz(ref, fwd)
                        if sweep in ('backward', 'symmetric'):
                            ref = kz(ref, bwd)
                    if not np.allclose(x, ref, rtol=1e-9, atol=1e-9):
                        fail('gauss_seidel_ne differs from the Kaczmarz row projections', ref)
                elif method == 'gauss_seidel_nr':
                    R.gauss_seidel_nr(A, x, b, iterations=iters, sweep=sweep, omega=om)
                    ref = x0.copy()
                    dd = np.sum(np.abs(D) ** 2, axis=0)

                    def nr(ref, order):
                        for i in order:
                            ref = ref.copy()
                            ref[i] += om * (D[:, i].conj() @ (b - D @ ref)) / dd[i]
                        return ref
                    for _ in range(iters):
                        if sweep in ('forward', 'symmetric'):
                            ref = nr(ref, fwd)
                        if sweep in ('backward', 'symmetric'):
                            ref = nr(ref, bwd)
                    if not np.allclose(x, ref, rtol=1e-9, atol=1e-9):
                        fail('gauss_seidel_nr differs from the column projections on the normal equations', ref)
                elif method == 'polynomial':
                    R.polynomial(A, x, b, coeffs, iterations=iters)
                    ref = x0.copy()
                    for _ in range(iters):
                        r = b - D @ ref
                        h = np.zeros(n, dtype=dt)
                        for c in coeffs:           # Horner: p(A) r, coefficients in descending order
                            h = D @ h + c * r
                        ref = ref + h
                    if not np.allclose(x, ref, rtol=1e-9, atol=1e-9):
                        fail('polynomial differs from x + p(A)(b - A x)', ref)
                elif method == 'schwarz':
                    Ds = Ms.astype(dt)
                    R.schwarz(As, x, b, iterations=iters, sweep=sweep)
                    ref = x0.copy()
                    subs = [np.sort(As.indices[As.indptr[i]:As.indptr[i + 1]]) for i in range(n)]

                    def sch(ref, order):
                        for s in order:
                            idx = subs[s]
                            r = b - Ds @ ref
                            ref = ref.copy()
                            ref[idx] += np.linalg.solve(Ds[np.ix_(idx, idx)], r[idx])
                        return ref
                    for _ in range(iters):
                        if sweep in ('forward', 'symmetric'):
                            ref = sch(ref, range(n))
                        if sweep in ('backward', 'symmetric'):
                            ref = sch(ref, range(n - 1, -1, -1))
                    if not np.allclose(x, ref, rtol=1e-7, atol=1e-7):
                        fail('schwarz differs from successive exact subdomain solves', ref)
                elif method == 'fixed_point':
                    for nm, call in [('gauss_seidel', lambda v: R.gauss_seidel(A, v, bb, iterations=iters, sweep=sweep, omega=om)),
                                     ('jacobi', lambda v: R.jacobi(A, v, bb, iterations=iters, omega=om)),
                                     ('block_jacobi', lambda v: R.block_jacobi(A, v, bb, blocksize=bs, iterations=iters, omega=om)),
                                     ('block_gauss_seidel', lambda v: R.block_gauss_seidel(A, v, bb, iterations=iters, sweep=sweep, blocksize=bs)),
                                     ('jacobi_ne', lambda v: R.jacobi_ne(A, v, bb, iterations=iters, omega=om)),
                                     ('gauss_seidel_ne', lambda v: R.gauss_seidel_ne(A, v, bb, iterations=iters, sweep=sweep, omega=om)),
                                     ('gauss_seidel_nr', lambda v: R.gauss_seidel_nr(A, v, bb, iterations=iters, sweep=sweep, omega=om))]:
                        v = xs.copy()
                        call(v)
                        if not np.allclose(v, xs, rtol=1e-9, atol=1e-9):
                            x = v
                            fail(f'the exact solution is not a fixed point of {nm}', xs)
                elif method == 'float32':
                    Mr = M.real.copy()
                    Mr[np.arange(n), np.arange(n)] = np.round(np.abs(M.diagonal()))     # keep the real system diagonally dominant
                    A32 = gen.int32csr(sp.csr_array(Mr.astype(np.float32)))
                    D32 = Mr.astype(np.float64)
                    x = x0.real.astype(np.float32)
                    b32 = b.real.astype(np.float32)
                    R.gauss_seidel(A32, x, b32, iterations=iters, sweep=sweep, omega=om)
                    ref = x0.real.astype(np.float64)
                    for _ in range(iters):
                        if sweep in ('forward', 'symmetric'):
                            ref = _dense_gs(D32, ref, b.real, fwd, om)
                        if sweep in ('backward', 'symmetric'):
                            ref = _dense_gs(D32, ref, b.real, bwd, om)
                    if x.dtype != np.float32 or not np.allclose(x, ref, rtol=2e-4, atol=2e-4):
                        fail('single-precision Gauss-Seidel differs from the splitting update', ref)
                elif method == 'complex64':
                    Dc, bcd = Mc.astype(complex), bc.astype(complex)
                    for nm, stor in [('jacobi', 'csr'), ('gauss_seidel', 'csr'), ('jacobi', 'bsr'), ('gauss_seidel', 'bsr')]:
                        Ain = A64 if stor == 'csr' else A64.tobsr(blocksize=(bs, bs))
                        x = xc0.copy()
                        ref = xc0.astype(complex)
                        if nm == 'jacobi':
                            R.jacobi(Ain, x, bc, iterations=iters, omega=om)
                            for _ in range(iters):
                                ref = _dense_jac(Dc, ref, bcd, fwd, om)
                        else:
                            R.gauss_seidel(Ain, x, bc, iterations=iters, sweep=sweep, omega=om)
                            for _ in range(iters):
                                if sweep in ('forward', 'symmetric'):
                                    ref = _dense_gs(Dc, ref, bcd, fwd, om)
                                if sweep in ('backward', 'symmetric'):
                                    ref = _dense_gs(Dc, ref, bcd, bwd, om)
                        if x.dtype != np.complex64 or not np.allclose(x, ref, rtol=2e-4, atol=2e-4):
                            fail(f'single-precision complex {nm} ({stor} storage) differs from the splitting update', ref)
        except Exception as e:   # a public relaxation call must not raise on a valid system
            fail(f'raised {type(e).__name__}: {e}')
        if _h(A.data) != hA or _h(b) != hb:
            fail('the matrix or the right-hand side was modified')
        return fails
    info['run'] = run
    return info


def part_c(ctx, N):
    rng = ctx.np_rng
    items = []
    for t in range(N):
        st = _rng_state(rng)
        items.append(search_case(rng, t))
        items[-1]['regen'] = {'part': 'c', 't': t, 'state': st}
    for it, r in zip(items, _isolated([it['run'] for it in items])):
        ctx.case(key=it['key'], nontrivial=it['nontrivial'], sample=it['sample'])
        ctx.feat('search:' + it['method'])
        case = {'kind': 'search', **it['case'], 'regen': it['regen']}
        if r[0] != 'ok':
            ctx.violation(f'{it["method"]} (sweep={it["case"]["sweep"]}, iterations={it["case"]["iterations"]}, omega={it["case"]["omega"]}) did '
                          f'not compute its defining update: {_failed_text(r)}', case)
            continue
        for msg in r[1]:
            ctx.violation(msg, case)


# ------------------------------------------------------------------------------------------------
# part D (extension E15): block / polynomial / normal-equation / Schwarz drivers vs the Lean models of
# Model/ExtC09Block.lean.  Inverse blocks are inputs of the models: the harness computes them exactly
# (Fractions) or passes the very floats it hands to pyamg.
# ------------------------------------------------------------------------------------------------

from fractions import Fraction

EXT_METHODS = ['block_jacobi', 'block_gauss_seidel', 'polynomial', 'jacobi_ne', 'gauss_seidel_ne', 'gauss_seidel_nr',
               'schwarz', 'k_block_jacobi', 'k_block_gauss_seidel', 'k_schwarz', 'tobsr', 'tocsc']

# extension E33: methods with a Lean model in Model/ExtC09XIndexed.lean (part F; cf_ / fc_ also in the histories of part E)
E33_METHODS = ['cf_block_jacobi', 'fc_block_jacobi', 'k_block_jacobi_indexed', 'pub_block_jacobi', 'cf_block_jacobi', 'fc_block_jacobi',
               'pub_block_gauss_seidel', 'pub_gauss_seidel_nr']
_E33_PUBLIC = {'pub_block_jacobi': 'block_jacobi', 'pub_block_gauss_seidel': 'block_gauss_seidel', 'pub_gauss_seidel_nr': 'gauss_seidel_nr'}
_E33_BASE = dict(_E33_PUBLIC, cf_block_jacobi='block_jacobi', fc_block_jacobi='block_jacobi', k_block_jacobi_indexed='k_block_jacobi')
LINE_METHODS = EXT_METHODS + ['cf_block_jacobi', 'fc_block_jacobi']


def e33_case(rng, t):
    """a case of part F: the matrix / Dinv / vectors of the corresponding part-D generator, plus index lists"""
    method = E33_METHODS[t % len(E33_METHODS)]
    cplx = (t // len(E33_METHODS)) % 4 == 3
    c = ext_case(rng, EXT_METHODS.index(_E33_BASE[method]) + len(EXT_METHODS) * (3 if cplx else 0))
    assert c['complex'] == cplx
    c['method'] = method
    if method in _E33_PUBLIC:
        c['fmt'] = 'csr'
        return c
    nb = c['nb']
    if rng.random() < 0.6:      # a partition of the block rows, sorted (the usual splitting) or in arbitrary order
        perm = rng.permutation(nb)
        k0 = int(rng.integers(0, nb + 1))
        C, F = [int(v) for v in perm[:k0]], [int(v) for v in perm[k0:]]
        if rng.random() < 0.6:
            C, F = sorted(C), sorted(F)
        c['lists'] = 'partition'
    else:                       # arbitrary lists: repetitions, overlap, rows in neither list, empty lists
        C = [int(v) for v in rng.integers(0, nb, size=int(rng.integers(0, nb + 2)))]
        F = [int(v) for v in rng.integers(0, nb, size=int(rng.integers(0, nb + 2)))]
        c['lists'] = 'free'
    c.update({'Cpts': C, 'Fpts': F, 'f_iterations': int(rng.integers(0, 3)), 'c_iterations': int(rng.integers(0, 3))})
    return c



def _jl(a):
    """array -> JSON-able list (complex entries as [re, im])"""
    a = np.asarray(a)
    if np.iscomplexobj(a):
        return [[float(v.real), float(v.imag)] for v in a.ravel()]
    return [float(v) for v in a.ravel()]


def _ja(lst, cplx):
    if cplx:
        return np.array([complex(v[0], v[1]) if isinstance(v, (list, tuple)) else complex(v) for v in lst], dtype=complex)
    return np.array(lst, dtype=float)


def _encq(v):
    """Fraction | (Fraction, Fraction) | float | complex -> protocol scalar"""
    if isinstance(v, tuple):
        return enc_rat(v[0]) + '|' + enc_rat(v[1])
    if isinstance(v, Fraction):
        return enc_rat(v)
    if isinstance(v, (complex, np.complexfloating)):
        return enc_crat(v)
    return enc_rat(v)


def _encqs(vs, cplx):
    vs = list(vs)
    if not vs:
        return '-'
    out = []
    for v in vs:
        if cplx and not isinstance(v, tuple):
            v = (frac(complex(v).real), frac(complex(v).imag)) if not isinstance(v, Fraction) else (v, Fraction(0))
        out.append(_encq(v))
    return ','.join(out)


def _frac_inv(M):
    """exact inverse of a square list-of-lists of Fractions (Gauss-Jordan); None if singular"""
    m = len(M)
    a = [list(r) + [Fraction(int(i == j)) for j in range(m)] for i, r in enumerate(M)]
    for c in range(m):
        p = next((r for r in range(c, m) if a[r][c] != 0), None)
        if p is None:
            return None
        a[c], a[p] = a[p], a[c]
        pv = a[c][c]
        a[c] = [v / pv for v in a[c]]
        for r in range(m):
            if r != c and a[r][c] != 0:
                f = a[r][c]
                a[r] = [v - f * w for v, w in zip(a[r], a[c])]
    return [r[m:] for r in a]


def _exact_inv(B):
    """exact inverse of a float/complex ndarray block as a flat list of Fractions or (re, im) pairs (row-major);
    complex through the real embedding [[Re, -Im], [Im, Re]]; None if singular"""
    B = np.asarray(B)
    m = B.shape[0]
    if m == 0:
        return []
    if np.iscomplexobj(B):
        E = [[frac(B[i, j].real) for j in range(m)] + [-frac(B[i, j].imag) for j in range(m)] for i in range(m)] + \
            [[frac(B[i, j].imag) for j in range(m)] + [frac(B[i, j].real) for j in range(m)] for i in range(m)]
        Ei = _frac_inv(E)
        if Ei is None:
            return None
        return [(Ei[i][j], Ei[m + i][j]) for i in range(m) for j in range(m)]
    Bi = _frac_inv([[frac(B[i, j]) for j in range(m)] for i in range(m)])
    if Bi is None:
        return None
    return [Bi[i][j] for i in range(m) for j in range(m)]


def _dyadic_block(rng, bs, cplx):
    """(D, Dinv) with D invertible and D^-1 dyadic: D = s * P L S U (unit triangular L, U with small integers,
    S = diag(+-2^k), P a permutation, s a Gaussian-integer scalar whose norm is a power of two); both exact in binary64"""
    L = np.tril(rng.integers(-2, 3, size=(bs, bs)), -1).astype(float) + np.eye(bs)
    U = np.triu(rng.integers(-2, 3, size=(bs, bs)), 1).astype(float) + np.eye(bs)
    S = np.diag(rng.choice([1, 2, 4, 0.5, -1, -2], size=bs).astype(float))
    P = np.eye(bs)[rng.permutation(bs)]
    D = P @ L @ S @ U
    Di = np.linalg.inv(U) @ np.diag(1 / np.diag(S)) @ np.linalg.inv(L) @ P.T
    Di = np.round(Di * 64) / 64          # unit-triangular integer inverses are integers; S^-1 is dyadic
    if cplx:
        s = complex(rng.choice([1, 1j, -1j, 1 + 1j, 2j, -1 + 1j]))
        D = D * s
        Di = Di * (s.conjugate() / (s.real ** 2 + s.imag ** 2))
    assert np.array_equal(D @ Di, np.eye(bs)) and np.array_equal(Di @ D, np.eye(bs)), 'generator: inverse not exact'
    return D, Di


def _csr_arrays_from_dense(rng, M, unsorted=False, duplicates=False):
    """CSR arrays of the nonzeros of M; optionally unsorted columns and entries split in two halves (duplicates)"""
    n = M.shape[0]
    ip, ix, dt = [0], [], []
    for i in range(n):
        cols = [int(j) for j in np.nonzero(M[i])[0]]
        vals = [M[i, j] for j in cols]
        if duplicates:
            for k in range(len(cols)):
                if rng.random() < 0.3:
                    cols.append(cols[k])
                    vals.append(vals[k] / 2)
                    vals[k] = vals[k] / 2
        if unsorted:
            p = rng.permutation(len(cols))
            cols = [cols[k] for k in p]
            vals = [vals[k] for k in p]
        ix += cols
        dt += vals
        ip.append(len(ix))
    return ip, ix, np.array(dt, dtype=M.dtype)


def _block_system(rng, nb, bs, cplx, missing=False):
    """dense dyadic block matrix with exactly invertible diagonal blocks; returns (M, Dinv (nb,bs,bs))"""
    n = nb * bs
    dt = complex if cplx else float
    M = ((rng.random((n, n)) < 0.45) * rng.integers(-3, 4, size=(n, n))).astype(dt)
    if cplx:
        M = M + 1j * ((rng.random((n, n)) < 0.25) * rng.integers(-2, 3, size=(n, n)))
    M = M * rng.choice([1.0, 0.5])
    for bi in range(nb):            # drop some off-diagonal blocks entirely
        for bj_ in range(nb):
            if bi != bj_ and rng.random() < 0.35:
                M[bi * bs:(bi + 1) * bs, bj_ * bs:(bj_ + 1) * bs] = 0
    Dinv = np.zeros((nb, bs, bs), dtype=dt)
    for k in range(nb):
        D, Di = _dyadic_block(rng, bs, cplx)
        if missing and rng.random() < 0.2:
            D = np.zeros((bs, bs), dtype=dt)
            Di = rng.integers(-2, 3, size=(bs, bs)).astype(dt)
        M[k * bs:(k + 1) * bs, k * bs:(k + 1) * bs] = D
        Dinv[k] = Di
    return M, Dinv


def _pow2_rows(rng, n, cplx, by_cols=False):
    """dyadic matrix whose rows (columns) have squared 2-norm a power of two (1/norm^2 exact), some rows empty"""
    dt = complex if cplx else float
    M = np.zeros((n, n), dtype=dt)
    for i in range(n):
        k = int(rng.choice([k for k in (0, 1, 2, 4) if k <= n]))
        cols = rng.choice(n, size=k, replace=False)
        sc = float(rng.choice([1, 2, 0.5]))
        for j in cols:
            v = sc * float(rng.choice([-1, 1]))
            if cplx and rng.random() < 0.4:
                v = v * 1j
            M[i, j] = v
    return M.T.copy() if by_cols else M


def ext_case(rng, t):
    """a JSON-able case description for the extension part"""
    method = EXT_METHODS[t % len(EXT_METHODS)]
    cplx = (t // len(EXT_METHODS)) % 4 == 3
    dt = complex if cplx else float
    c = {'kind': 'ext', 'method': method, 'complex': cplx}
    om = float(rng.choice([1.0, 0.5, 1.5, 0.75]))
    iters = int(rng.integers(1, 4))
    sweep = str(rng.choice(['forward', 'backward', 'symmetric']))
    if method in ('block_jacobi', 'block_gauss_seidel', 'k_block_jacobi', 'k_block_gauss_seidel', 'tobsr'):
        bs = int(rng.choice([1, 2, 2, 3]))
        nb = int(rng.integers(1, 5 if bs < 3 else 3))
        mode = str(rng.choice(['exact', 'exact', 'arbitrary', 'default', 'default_general'])) if not method.startswith('k_') else 'exact'
        if method == 'tobsr':
            mode = 'exact'
        M, Dinv = _block_system(rng, nb, bs, cplx, missing=(mode in ('exact', 'arbitrary') and rng.random() < 0.3))
        if mode == 'arbitrary':
            Dinv = (rng.integers(-2, 3, size=Dinv.shape) * 0.5).astype(dt)
        if mode == 'default_general':       # general well-conditioned blocks: LAPACK/SVD inverse within tolerance
            n = nb * bs
            M = _well_system(rng, n, cplx)
        plain = mode.startswith('default')
        ip, ix, dat = _csr_arrays_from_dense(rng, M, unsorted=(rng.random() < 0.5) and not plain, duplicates=(rng.random() < 0.25) and not plain)
        fmt = 'bsr' if (rng.random() < 0.35 and not method.startswith('k_') and method != 'tobsr') else 'csr'
        c.update({'n': nb * bs, 'nb': nb, 'bs': bs, 'mode': mode, 'fmt': fmt, 'indptr': ip, 'indices': ix, 'data': _jl(dat),
                  'Dinv': _jl(Dinv), 'omega': om, 'iterations': iters, 'sweep': sweep})
        n = nb * bs
        if method.startswith('k_'):
            (s0, s1, s2), swk = gen.admissible_sweep(rng, nb)
            c['range'] = [int(s0), int(s1), int(s2)]
            c['temp'] = _jl(gen.rand_vec(rng, n, cplx).astype(dt))
    elif method == 'polynomial':
        n = int(rng.integers(1, 7))
        A, feats = gen.rand_dyadic_csr(rng, n, complex_=cplx, unsorted=(rng.random() < 0.3), duplicates=(rng.random() < 0.25))
        if cplx:
            _cdiag(rng, A)
        c.update({'n': n, 'indptr': A.indptr.tolist(), 'indices': A.indices.tolist(), 'data': _jl(A.data),
                  'coefficients': [float(v) for v in rng.choice([-0.25, 0.5, 0.125, 1.0, -0.5, 2.0], size=int(rng.integers(1, 5)))],
                  'iterations': iters, 'zero_x': bool(rng.random() < 0.3)})
    elif method in ('jacobi_ne', 'gauss_seidel_ne', 'gauss_seidel_nr', 'tocsc'):
        n = int(rng.integers(1, 7))
        mode = str(rng.choice(['pow2', 'general', 'explicit'])) if method not in ('jacobi_ne', 'tocsc') else str(rng.choice(['pow2', 'general']))
        if mode == 'pow2':
            M = _pow2_rows(rng, n, cplx, by_cols=(method == 'gauss_seidel_nr'))
            A = gen.int32csr(sp.csr_array(M))
        else:
            A, _f = gen.rand_dyadic_csr(rng, n, complex_=cplx)
            if method == 'tocsc':
                A, _f = gen.rand_dyadic_csr(rng, n, complex_=cplx, unsorted=(rng.random() < 0.5), duplicates=(rng.random() < 0.3))
            if cplx:
                _cdiag(rng, A)
        c.update({'n': n, 'mode': mode, 'indptr': A.indptr.tolist(), 'indices': A.indices.tolist(), 'data': _jl(A.data),
                  'omega': om, 'iterations': iters, 'sweep': sweep, 'fmt': 'csc' if (method == 'gauss_seidel_nr' and rng.random() < 0.5) else 'csr'})
        if mode == 'explicit':
            # a given Dinv of the right scale (power of two below 1/norm^2, times 1, 1/2, 1/4 or 0): the sweeps stay bounded
            D_ = A.toarray()
            nn = np.sum(np.abs(D_) ** 2, axis=0 if method == 'gauss_seidel_nr' else 1)
            sc = np.array([2.0 ** -int(np.ceil(np.log2(v))) if v > 0 else 1.0 for v in nn])
            c['Dinv'] = _jl((sc * rng.choice([1, 0.5, 0.25, 0], size=n)).astype(dt))
    else:   # schwarz, k_schwarz
        n = int(rng.integers(1, 7))
        mode = str(rng.choice(['arbitrary', 'inverse', 'default', 'subdomain_only'])) if method == 'schwarz' else str(rng.choice(['arbitrary', 'inverse']))
        M = _well_system(rng, n, cplx)
        if mode == 'default':
            M = M + M.conj().T
            M[np.arange(n), np.arange(n)] = np.abs(M).sum(1) + 1
        A = gen.int32csr(sp.csr_array(M))
        A.sort_indices()
        c.update({'n': n, 'mode': mode, 'indptr': A.indptr.tolist(), 'indices': A.indices.tolist(), 'data': _jl(A.data),
                  'iterations': iters, 'sweep': sweep})
        if mode != 'default':
            nd = int(rng.integers(1, n + 2))
            subs = [sorted(int(v) for v in rng.choice(n, size=int(rng.integers(0 if rng.random() < 0.25 else 1, min(n, 3) + 1)), replace=False))
                    for _ in range(nd)]
            sp_, sj_, tp_, tx_ = [0], [], [0], []
            D = M.astype(dt)
            for idx in subs:
                sj_ += idx
                sp_.append(len(sj_))
                m = len(idx)
                if mode == 'inverse' and m > 0:
                    T = np.linalg.inv(D[np.ix_(idx, idx)])
                else:
                    T = (rng.integers(-2, 3, size=(m, m)) * 0.5).astype(dt)
                tx_ += list(np.asarray(T, dtype=dt).ravel())
                tp_.append(len(tx_))
            c.update({'subdomain': sj_, 'subdomain_ptr': sp_, 'inv_subblock': _jl(np.array(tx_, dtype=dt)), 'inv_subblock_ptr': tp_})
            if method == 'k_schwarz':
                (s0, s1, s2), swk = gen.admissible_sweep(rng, nd)
                c['range'] = [int(s0), int(s1), int(s2)]
    n = c['n']
    c['b'] = _jl(gen.rand_vec(rng, n, cplx).astype(dt))
    c['x'] = _jl((np.zeros(n) if c.get('zero_x') else gen.rand_vec(rng, n, cplx)).astype(dt))
    return c


def _ext_matrix(c):
    cplx = c['complex']
    return gen.csr_from_arrays(c['n'], c['indptr'], c['indices'], _ja(c['data'], cplx))


def ext_call(c):
    """run the real code on a case; returns (output ndarray | ('raised', text), extra) where extra carries what the
    model line needs beyond the case (SciPy-converted arrays, exact inverses)"""
    from pyamg.relaxation import relaxation as R
    from pyamg import amg_core
    cplx = c['complex']
    dt = complex if cplx else float
    method = c['method']
    A = _ext_matrix(c)
    x = _ja(c['x'], cplx).astype(dt)
    b = _ja(c['b'], cplx).astype(dt)
    extra = {}
    hA, hb = _h(A.data), _h(b)
    if method in ('block_jacobi', 'block_gauss_seidel'):
        bs, nb = c['bs'], c['nb']
        Dinv = _ja(c['Dinv'], cplx).reshape(nb, bs, bs).astype(dt)
        Ain = A
        if c['fmt'] == 'bsr':
            Ain = A.tobsr(blocksize=(bs, bs))
            Ain.indptr, Ain.indices = Ain.indptr.astype(np.int32), Ain.indices.astype(np.int32)
            extra['bsr'] = (Ain.indptr.tolist(), Ain.indices.tolist(), Ain.data.ravel().copy())
            hA = _h(Ain.data)
        kw = {} if c['mode'].startswith('default') else {'Dinv': Dinv.copy()}
        if method == 'block_jacobi':
            R.block_jacobi(Ain, x, b, blocksize=bs, iterations=c['iterations'], omega=c['omega'], **kw)
        else:
            R.block_gauss_seidel(Ain, x, b, iterations=c['iterations'], sweep=c['sweep'], blocksize=bs, **kw)
        extra['modified'] = (_h(Ain.data) != hA) or _h(b) != hb
        return x, extra
    if method in ('cf_block_jacobi', 'fc_block_jacobi'):
        bs, nb = c['bs'], c['nb']
        Dinv = _ja(c['Dinv'], cplx).reshape(nb, bs, bs).astype(dt)
        Ain = A
        if c['fmt'] == 'bsr':
            Ain = A.tobsr(blocksize=(bs, bs))
            Ain.indptr, Ain.indices = Ain.indptr.astype(np.int32), Ain.indices.astype(np.int32)
            extra['bsr'] = (Ain.indptr.tolist(), Ain.indices.tolist(), Ain.data.ravel().copy())
            hA = _h(Ain.data)
        kw = {} if c['mode'].startswith('default') else {'Dinv': Dinv.copy()}
        fn = R.cf_block_jacobi if method == 'cf_block_jacobi' else R.fc_block_jacobi
        fn(Ain, x, b, np.array(c['Cpts'], dtype=np.int32), np.array(c['Fpts'], dtype=np.int32), blocksize=bs, iterations=c['iterations'],
           f_iterations=c['f_iterations'], c_iterations=c['c_iterations'], omega=c['omega'], **kw)
        extra['modified'] = (_h(Ain.data) != hA) or _h(b) != hb
        return x, extra
    if method == 'k_block_jacobi_indexed':
        bs, nb = c['bs'], c['nb']
        B = A.tobsr(blocksize=(bs, bs))
        bp, bj, bx = B.indptr.astype(np.int32), B.indices.astype(np.int32), np.ravel(B.data).astype(dt)
        extra['bsr'] = (bp.tolist(), bj.tolist(), bx.copy())
        Dinv = _ja(c['Dinv'], cplx).astype(dt)
        amg_core.block_jacobi_indexed(bp, bj, bx, x, b, Dinv, np.array(c['Cpts'], dtype=np.int32), np.array([c['omega']], dtype=dt), bs)
        return x, extra
    if method in _E33_PUBLIC:
        return ext_call(dict(c, method=_E33_PUBLIC[method], fmt='csr'))
    if method in ('k_block_jacobi', 'k_block_gauss_seidel'):
        bs, nb = c['bs'], c['nb']
        B = A.tobsr(blocksize=(bs, bs))
        bp, bj, bx = B.indptr.astype(np.int32), B.indices.astype(np.int32), np.ravel(B.data).astype(dt)
        extra['bsr'] = (bp.tolist(), bj.tolist(), bx.copy())
        Dinv = _ja(c['Dinv'], cplx).astype(dt)
        s0, s1, s2 = c['range']
        if method == 'k_block_jacobi':
            temp = _ja(c['temp'], cplx).astype(dt)
            amg_core.block_jacobi(bp, bj, bx, x, b, Dinv, temp, s0, s1, s2, np.array([c['omega']], dtype=dt), bs)
        else:
            amg_core.block_gauss_seidel(bp, bj, bx, x, b, Dinv, s0, s1, s2, bs)
        return x, extra
    if method == 'tobsr':
        bs = c['bs']
        B = A.tobsr(blocksize=(bs, bs))
        return np.concatenate([np.ravel(B.data)]), {'bsr': (B.indptr.tolist(), B.indices.tolist(), np.ravel(B.data))}
    if method == 'tocsc':
        B = A.tocsc()
        return np.asarray(B.data), {'csc': (B.indptr.tolist(), B.indices.tolist(), np.asarray(B.data))}
    if method == 'polynomial':
        R.polynomial(A, x, b, c['coefficients'], iterations=c['iterations'])
    elif method == 'jacobi_ne':
        R.jacobi_ne(A, x, b, iterations=c['iterations'], omega=c['omega'])
    elif method == 'gauss_seidel_ne':
        kw = {'Dinv': _ja(c['Dinv'], cplx).astype(dt)} if c['mode'] == 'explicit' else {}
        R.gauss_seidel_ne(A, x, b, iterations=c['iterations'], sweep=c['sweep'], omega=c['omega'], **kw)
    elif method == 'gauss_seidel_nr':
        kw = {'Dinv': _ja(c['Dinv'], cplx).astype(dt)} if c['mode'] == 'explicit' else {}
        Ain = A
        if c['fmt'] == 'csc':
            Ain = A.tocsc()
            Ain.indptr, Ain.indices = Ain.indptr.astype(np.int32), Ain.indices.astype(np.int32)
            extra['csc'] = (Ain.indptr.tolist(), Ain.indices.tolist(), Ain.data.copy())
        R.gauss_seidel_nr(Ain, x, b, iterations=c['iterations'], sweep=c['sweep'], omega=c['omega'], **kw)
    elif method == 'schwarz' and c.get('via', 'schwarz') != 'schwarz':
        # the same relaxation through the smoother set-up functions of pyamg.relaxation.smoothing on a hierarchy level
        from pyamg.relaxation import smoothing
        from pyamg.multilevel import MultilevelSolver
        lvl = MultilevelSolver.Level()
        lvl.A = A
        i32 = lambda key: np.array(c[key], dtype=np.int32)
        if c['via'] == 'strength_based':        # one subdomain per row of the strength matrix lvl.C: its stored pattern
            lvl.C = sp.csr_array((np.ones(len(c['subdomain'])), i32('subdomain'), i32('subdomain_ptr')), shape=(c['n'], c['n']))
            fn = smoothing.setup_strength_based_schwarz(lvl, iterations=c['iterations'], sweep=c['sweep'])
        else:
            kw = {} if c['mode'] == 'subdomain_only' else {'inv_subblock': _ja(c['inv_subblock'], cplx).astype(dt),
                                                           'inv_subblock_ptr': i32('inv_subblock_ptr')}
            fn = smoothing.setup_schwarz(lvl, iterations=c['iterations'], subdomain=i32('subdomain'), subdomain_ptr=i32('subdomain_ptr'),
                                         sweep=c['sweep'], **kw)
        fn(A, x, b)
    elif method == 'schwarz':
        if c['mode'] == 'default':
            R.schwarz(A, x, b, iterations=c['iterations'], sweep=c['sweep'])
        elif c['mode'] == 'subdomain_only':
            R.schwarz(A, x, b, iterations=c['iterations'], sweep=c['sweep'],
                      subdomain=np.array(c['subdomain'], dtype=np.int32), subdomain_ptr=np.array(c['subdomain_ptr'], dtype=np.int32))
        else:
            R.schwarz(A, x, b, iterations=c['iterations'], sweep=c['sweep'],
                      subdomain=np.array(c['subdomain'], dtype=np.int32), subdomain_ptr=np.array(c['subdomain_ptr'], dtype=np.int32),
                      inv_subblock=_ja(c['inv_subblock'], cplx).astype(dt), inv_subblock_ptr=np.array(c['inv_subblock_ptr'], dtype=np.int32))
    elif method == 'k_schwarz':
        s0, s1, s2 = c['range']
        sp_ = np.array(c['subdomain_ptr'], dtype=np.int32)
        amg_core.overlapping_schwarz_csr(A.indptr, A.indices, A.data, x, b, _ja(c['inv_subblock'], cplx).astype(dt),
                                         np.array(c['inv_subblock_ptr'], dtype=np.int32), np.array(c['subdomain'], dtype=np.int32), sp_,
                                         len(sp_) - 1, c['n'], s0, s1, s2)
    else:
        raise KeyError(method)
    # the drivers may sort the caller's matrix in place; the matrix itself must be the same
    extra['modified'] = (not np.array_equal(A.toarray(), _ext_matrix(c).toarray())) or _h(b) != hb
    return x, extra


def _default_block_inverses(c):
    """exact inverses of the diagonal blocks (what `Dinv=None` stands for), flat list, or None if some block is singular"""
    cplx = c['complex']
    D = _ext_matrix(c).toarray()
    bs = c['bs']
    out = []
    for k in range(c['nb']):
        inv = _exact_inv(D[k * bs:(k + 1) * bs, k * bs:(k + 1) * bs])
        if inv is None:
            return None
        out += inv
    return out


def ext_line(c, extra):
    """the Lean request of a case (None = no model request for this case)"""
    cplx = c['complex']
    P = 'ext_c09_c_' if cplx else 'ext_c09_r_'
    ev = lambda a: _encqs(list(np.asarray(a).ravel()) if not isinstance(a, list) else a, cplx)
    vec = lambda key: ev(_ja(c[key], cplx))
    method = c['method']
    csr = f'{c["n"]} {enc_ints(c["indptr"])} {enc_ints(c["indices"])} {vec("data")}'
    if method in ('block_jacobi', 'block_gauss_seidel'):
        if 'bsr' in extra:
            bp, bj, bx = extra['bsr']
            mat = f'bsr {c["nb"]} {c["bs"]} {enc_ints(bp)} {enc_ints(bj)} {ev(bx)}'
        else:
            mat = f'csr {c["n"]} {c["bs"]} {enc_ints(c["indptr"])} {enc_ints(c["indices"])} {vec("data")}'
        if c['mode'].startswith('default'):
            inv = _default_block_inverses(c)
            if inv is None:
                return None
            dinv = _encqs(inv, cplx)
        else:
            dinv = vec('Dinv')
        if method == 'block_jacobi':
            return f'{P}bjac {_encq(frac(c["omega"]))} {mat} {vec("b")} {vec("x")} {dinv} {c["iterations"]}'
        return f'{P}bgs {mat} {vec("b")} {vec("x")} {dinv} {c["iterations"]} {c["sweep"]}'
    P33 = 'e33_c_' if cplx else 'e33_r_'
    if method in ('cf_block_jacobi', 'fc_block_jacobi', 'pub_block_jacobi', 'pub_block_gauss_seidel'):
        if 'bsr' in extra:
            bp, bj, bx = extra['bsr']
            mat = f'bsr {c["nb"]} {c["bs"]} {enc_ints(bp)} {enc_ints(bj)} {ev(bx)}'
        else:
            mat = f'csr {c["n"]} {c["bs"]} {enc_ints(c["indptr"])} {enc_ints(c["indices"])} {vec("data")}'
        if c['mode'].startswith('default'):
            inv = _default_block_inverses(c)
            if inv is None:
                return None
            dinv = _encqs(inv, cplx)
        else:
            dinv = vec('Dinv')
        if method == 'pub_block_jacobi':
            return f'{P33}pbjac {_encq(frac(c["omega"]))} {mat[4:]} {vec("b")} {vec("x")} {dinv} {c["iterations"]}'
        if method == 'pub_block_gauss_seidel':
            return f'{P33}pbgs {mat[4:]} {vec("b")} {vec("x")} {dinv} {c["iterations"]} {c["sweep"]}'
        return (f'{P33}cfbj {1 if method == "cf_block_jacobi" else 0} {_encq(frac(c["omega"]))} {mat} {vec("b")} {vec("x")} {dinv} '
                f'{enc_ints(c["Cpts"])} {enc_ints(c["Fpts"])} {c["iterations"]} {c["f_iterations"]} {c["c_iterations"]}')
    if method == 'k_block_jacobi_indexed':
        bp, bj, bx = extra['bsr']
        return (f'{P33}bjik {_encq(frac(c["omega"]))} {c["nb"]} {c["bs"]} {enc_ints(bp)} {enc_ints(bj)} {ev(bx)} {vec("b")} {vec("x")} '
                f'{vec("Dinv")} {enc_ints(c["Cpts"])}')
    if method == 'pub_gauss_seidel_nr':
        dinv = vec('Dinv') if c['mode'] == 'explicit' else 'none'
        return f'{P33}pgsnr {_encq(frac(c["omega"]))} {csr} {vec("b")} {vec("x")} {dinv} {c["iterations"]} {c["sweep"]}'
    if method in ('k_block_jacobi', 'k_block_gauss_seidel'):
        bp, bj, bx = extra['bsr']
        mat = f'{c["nb"]} {c["bs"]} {enc_ints(bp)} {enc_ints(bj)} {ev(bx)}'
        s0, s1, s2 = c['range']
        if method == 'k_block_jacobi':
            return f'{P}bjack {_encq(frac(c["omega"]))} {mat} {vec("b")} {vec("x")} {vec("Dinv")} {vec("temp")} {s0} {s1} {s2}'
        return f'{P}bgsk {mat} {vec("b")} {vec("x")} {vec("Dinv")} {s0} {s1} {s2}'
    if method == 'tobsr':
        return f'{P}tobsr {c["n"]} {c["bs"]} {enc_ints(c["indptr"])} {enc_ints(c["indices"])} {vec("data")}'
    if method == 'tocsc':
        return f'{P}tocsc {csr}'
    if method == 'polynomial':
        return f'{P}poly {csr} {vec("b")} {vec("x")} {_encqs(c["coefficients"], cplx)} {c["iterations"]}'
    if method == 'jacobi_ne':
        return f'{P}jacne {_encq(frac(c["omega"]))} {csr} {vec("b")} {vec("x")} {c["iterations"]}'
    if method == 'gauss_seidel_ne':
        dinv = vec('Dinv') if c['mode'] == 'explicit' else 'none'
        return f'{P}gsne {_encq(frac(c["omega"]))} {csr} {vec("b")} {vec("x")} {dinv} {c["iterations"]} {c["sweep"]}'
    if method == 'gauss_seidel_nr':
        dinv = vec('Dinv') if c['mode'] == 'explicit' else 'none'
        if 'csc' in extra:
            cp, ci, cx = extra['csc']
            mat = f'csc {c["n"]} {enc_ints(cp)} {enc_ints(ci)} {ev(cx)}'
        else:
            mat = f'csr {csr}'
        return f'{P}gsnr {_encq(frac(c["omega"]))} {mat} {vec("b")} {vec("x")} {dinv} {c["iterations"]} {c["sweep"]}'
    # schwarz
    if c['mode'] == 'default':
        A = _ext_matrix(c)
        D = A.toarray()
        sj_, sp_, tx_, tp_ = [], [0], [], [0]
        for i in range(c['n']):
            idx = sorted(int(v) for v in A.indices[A.indptr[i]:A.indptr[i + 1]])
            inv = _exact_inv(D[np.ix_(idx, idx)])
            if inv is None:
                return None
            sj_ += idx
            sp_.append(len(sj_))
            tx_ += inv
            tp_.append(len(tx_))
        tx = _encqs(tx_, cplx)
    elif c['mode'] == 'subdomain_only':
        D = _ext_matrix(c).toarray()
        sj_, sp_, tx_, tp_ = c['subdomain'], c['subdomain_ptr'], [], [0]
        for d in range(len(sp_) - 1):
            idx = sj_[sp_[d]:sp_[d + 1]]
            inv = _exact_inv(D[np.ix_(idx, idx)])
            if inv is None:
                return None
            tx_ += inv
            tp_.append(len(tx_))
        tx = _encqs(tx_, cplx)
    else:
        sj_, sp_, tp_ = c['subdomain'], c['subdomain_ptr'], c['inv_subblock_ptr']
        tx = vec('inv_subblock')
    head = f'{csr} {vec("b")} {vec("x")} {tx} {enc_ints(tp_)} {enc_ints(sj_)} {enc_ints(sp_)}'
    if method == 'k_schwarz':
        s0, s1, s2 = c['range']
        return f'{P}schwarzk {head} {s0} {s1} {s2}'
    return f'{P}schwarz {head} {c["iterations"]} {c["sweep"]}'


def ext_reference(c):
    """independent dense NumPy evaluation of the defining update of a case (None = not applicable)"""
    cplx = c['complex']
    dt = complex if cplx else float
    method = _E33_PUBLIC.get(c['method'], c['method'])
    if method in ('tobsr', 'tocsc'):
        return None
    n = c['n']
    D = _ext_matrix(c).toarray().astype(dt)
    x = _ja(c['x'], cplx).astype(dt)
    b = _ja(c['b'], cplx).astype(dt)
    om = c.get('omega', 1.0)
    iters = c.get('iterations', 1)
    sw = c.get('sweep', 'forward')

    def passes(fwd, bwd):
        o = []
        for _ in range(iters):
            if sw in ('forward', 'symmetric'):
                o.append(fwd)
            if sw in ('backward', 'symmetric'):
                o.append(bwd)
        return o
    if method in ('block_jacobi', 'block_gauss_seidel', 'k_block_jacobi', 'k_block_gauss_seidel', 'cf_block_jacobi', 'fc_block_jacobi',
                  'k_block_jacobi_indexed'):
        bs, nb = c['bs'], c['nb']
        if c['mode'].startswith('default'):
            Dinv = np.array([np.linalg.inv(D[k * bs:(k + 1) * bs, k * bs:(k + 1) * bs]) for k in range(nb)])
        else:
            Dinv = _ja(c['Dinv'], cplx).reshape(nb, bs, bs)
        off = D.copy()
        for k in range(nb):
            off[k * bs:(k + 1) * bs, k * bs:(k + 1) * bs] = 0

        def jac(x, rows, old):
            new = x.copy()
            for k in rows:
                sl = slice(k * bs, (k + 1) * bs)
                new[sl] = (1 - om) * old[sl] + om * (Dinv[k] @ (b[sl] - off[sl] @ old))
            return new

        def gs(x, rows):
            x = x.copy()
            for k in rows:
                sl = slice(k * bs, (k + 1) * bs)
                x[sl] = Dinv[k] @ (b[sl] - off[sl] @ x)
            return x
        if method == 'block_jacobi':
            for _ in range(iters):
                x = jac(x, range(nb), x)
        elif method in ('cf_block_jacobi', 'fc_block_jacobi'):
            order = [(c['Cpts'], c['c_iterations']), (c['Fpts'], c['f_iterations'])]
            if method == 'fc_block_jacobi':
                order.reverse()
            for _ in range(iters):
                for pts, reps in order:
                    for _r in range(reps):
                        x = jac(x, pts, x)
        elif method == 'k_block_jacobi_indexed':
            x = jac(x, c['Cpts'], x)
        elif method == 'block_gauss_seidel':
            for rows in passes(list(range(nb)), list(range(nb - 1, -1, -1))):
                x = gs(x, rows)
        elif method == 'k_block_jacobi':
            rows = list(range(*c['range']))
            old = _ja(c['temp'], cplx).astype(dt)
            for k in rows:
                old[k * bs:(k + 1) * bs] = x[k * bs:(k + 1) * bs]
            x = jac(x, rows, old)
        else:
            x = gs(x, list(range(*c['range'])))
        return x
    if method == 'polynomial':
        for _ in range(iters):
            r = b - D @ x
            h = np.zeros(n, dtype=dt)
            for cf in c['coefficients']:
                h = D @ h + cf * r
            x = x + h
        return x
    if method in ('jacobi_ne', 'gauss_seidel_ne', 'gauss_seidel_nr'):
        if c.get('mode') == 'explicit':
            di = _ja(c['Dinv'], cplx).astype(dt)
        else:
            dd = np.sum(np.abs(D) ** 2, axis=0 if method == 'gauss_seidel_nr' else 1)
            di = np.where(dd != 0, 1 / np.where(dd != 0, dd, 1), 0).astype(dt)
        fwd, bwd = list(range(n)), list(range(n - 1, -1, -1))
        if method == 'jacobi_ne':
            for _ in range(iters):
                x = x + om * (D.conj().T @ ((b - D @ x) * di))
            return x
        for rows in passes(fwd, bwd):
            for i in rows:
                if method == 'gauss_seidel_ne':
                    x = x + om * ((b[i] - D[i] @ x) * di[i]) * D[i].conj()
                else:
                    x = x.copy()
                    x[i] += om * (D[:, i].conj() @ (b - D @ x)) * di[i]
        return x
    # schwarz
    if c['mode'] == 'default':
        A = _ext_matrix(c)
        subs = [np.sort(A.indices[A.indptr[i]:A.indptr[i + 1]]) for i in range(n)]
        Ts = [np.linalg.inv(D[np.ix_(s, s)]) for s in subs]
    else:
        sp_, sj_, tp_ = c['subdomain_ptr'], c['subdomain'], c['inv_subblock_ptr']
        tx = _ja(c['inv_subblock'], cplx)
        subs = [np.array(sj_[sp_[d]:sp_[d + 1]], dtype=int) for d in range(len(sp_) - 1)]
        if c['mode'] == 'subdomain_only':
            Ts = [np.linalg.inv(D[np.ix_(s_, s_)]) if len(s_) else np.zeros((0, 0)) for s_ in subs]
        else:
            Ts = [tx[tp_[d]:tp_[d + 1]].reshape(len(subs[d]), len(subs[d])) for d in range(len(subs))]
    nd = len(subs)
    if method == 'k_schwarz':
        orders = [list(range(*c['range']))]
    else:
        orders = passes(list(range(nd)), list(range(nd - 1, -1, -1)))
    for order in orders:
        for d in order:
            idx = subs[d]
            if len(idx) == 0:
                continue
            r = b - D @ x
            x = x.copy()
            x[idx] += Ts[d] @ r[idx]
    return x


def _ext_brief(c):
    d = {k: c[k] for k in ("mode", "fmt", "via", "sweep", "iterations", "omega", "bs", "range") if k in c}
    if 'subdomain_ptr' in c:
        d['subdomains'] = f'{len(c["subdomain_ptr"]) - 1} (n={c["n"]})'
    return d


def judge_ext(ctx, c, out):
    ref = ext_reference(c)
    if ref is None:
        return
    if isinstance(out, tuple) or not np.allclose(ref, out, rtol=0, atol=1e-8 * (1 + float(np.max(np.abs(ref), initial=0)))):
        ctx.violation(f'{c["method"]} ({_ext_brief(c)}) is not its '
                      f'defining update: expected {np.asarray(ref).tolist()} got {out if isinstance(out, tuple) else np.asarray(out).tolist()}', c)


def _ext_compare(c, extra, o, out):
    """(exact, close) of the model reply `o` against the implementation"""
    cplx = c['complex']
    if o in ('bad-op', 'reject', ''):
        return False, False
    if c['method'] == 'tobsr':
        parts = o.split(';')
        bp, bj, bx = extra['bsr']
        if len(parts) != 4 or dec_list(parts[1], int) != list(bp) or dec_list(parts[2], int) != list(bj):
            return False, False
        return _eq_exact(dec_list(parts[3], dec_crat if cplx else dec_rat), bx)
    if c['method'] == 'tocsc':
        parts = o.split(';')
        cp, ci, cx = extra['csc']
        if len(parts) != 3 or dec_list(parts[0], int) != list(cp) or dec_list(parts[1], int) != list(ci):
            return False, False
        return _eq_exact(dec_list(parts[2], dec_crat if cplx else dec_rat), cx)
    return _eq_normwise(_parse_model(o, cplx), out)


def _eq_normwise(model_vals, impl):
    """(exact?, close?) with `close` measured against the largest entry of the vector (a sweep mixes the entries, so the
    rounding error of one entry is relative to the size of the whole vector)"""
    impl = np.asarray(impl).ravel()
    if len(model_vals) != impl.size:
        return False, False
    if impl.size == 0:
        return True, True
    if not np.all(np.isfinite(impl)):
        return False, False
    mv = np.array([complex(float(m[0]), float(m[1])) if isinstance(m, tuple) else float(m) for m in model_vals])
    exact = all((frac(v.real) == m[0] and frac(v.imag) == m[1]) if isinstance(m, tuple) else frac(v) == m
                for m, v in zip(model_vals, impl))
    scale = 1 + float(np.max(np.abs(mv)))
    return exact, bool(np.max(np.abs(mv - impl)) <= 1e-9 * scale)


def part_d(ctx, N, casefn=None, tag='ext', always_judge=False):
    rng = ctx.np_rng
    casefn = casefn or ext_case
    items = []
    cases = [casefn(rng, t) for t in range(N)]
    # the real calls: in the isolated worker (ext_call makes no random choice)
    for c, r in zip(cases, _isolated([lambda prog, c=c: ext_call(c) for c in cases])):
        if r[0] != 'ok':            # a public relaxation call must not raise (or crash, or hang) on a valid system
            ctx.case(key=hashlib.sha1(repr(c).encode()).hexdigest(), nontrivial=c['n'] >= 2)
            ctx.feat(tag + ':' + c['method'])
            ctx.violation(f'{c["method"]} ({_ext_brief(c)}) did not compute its defining update: {_failed_text(r)}', c)
            continue
        out, extra = r[1]
        if extra.get('modified'):
            ctx.violation(f'{c["method"]} modified its matrix or right-hand side', c)
        line = ext_line(c, extra)
        if line is None:
            continue
        items.append((c, extra, out, line))
    outs = ctx.lean([it[3] for it in items])
    for (c, extra, out, line), o in zip(items, outs):
        nontriv = c['n'] >= 2 and len(c['indices']) > c['n'] // max(1, c.get('bs', 1))
        ctx.case(key=hashlib.sha1(line.encode()).hexdigest(), nontrivial=nontriv,
                 sample={'request': line[:300], 'model': o[:120], 'impl': np.asarray(out).tolist()[:8] if not np.iscomplexobj(out) else str(out[:4])})
        ctx.feat(tag + ':' + c['method'])
        for k in ('mode', 'fmt', 'sweep', 'bs', 'lists', 'via', 'count', 'iterations' if always_judge else 'lists'):
            if k in c:
                ctx.feat(f'{tag}:{c["method"]}:{k}={c[k]}')
        ctx.feat(tag + ':complex' if c['complex'] else tag + ':real')
        if c['method'] not in ('tobsr', 'tocsc') and np.asarray(out).size and not np.max(np.abs(out)) < 1e12:
            ctx.near_skipped += 1       # a diverging iteration (arbitrary inverse blocks): rounding decides, nothing to compare
            ctx.feat(tag + ':skipped_diverged')
            continue
        exact, close = _ext_compare(c, extra, o, out)
        if exact:
            ctx.feat(tag + ':bit_exact')
            ctx.feat(tag + ':bit_exact:' + c['method'])
        if not close:
            ctx.corr(tag + ' ' + c['method'], c, o, np.asarray(out).tolist() if not np.iscomplexobj(out) else _jl(out))
        if not close or always_judge:
            judge_ext(ctx, c, out)


def part_f(ctx, N):
    """extension E33: indexed block Jacobi, CF / FC block Jacobi, public block routines on CSR input (conversion inside the model)"""
    part_d(ctx, N, casefn=e33_case, tag='e33')


# ------------------------------------------------------------------------------------------------
# part G: multiplicative Schwarz over USER decompositions whose number of subdomains m is smaller than, equal to and larger
# than the number of unknowns n (the sweep runs over the subdomains, not over the rows), with empty subdomains, x all three
# sweeps x iterations 1-3 x computed / given inverse / given arbitrary blocks x real / complex; through relaxation.schwarz,
# through the smoother set-up functions (setup_schwarz with the user's decomposition; setup_strength_based_schwarz with the
# decomposition as the pattern of lvl.C, m = n) and the raw kernel on forward / backward / strided ranges of the m subdomains.
# Every case is judged by the dense formula in the documented order (forward: subdomains 0..m-1, backward: m-1..0,
# symmetric: both) and compared with the Lean model.
# ------------------------------------------------------------------------------------------------

def schwarz_case(rng, t):
    count = ['smaller', 'equal', 'larger'][t % 3]
    sweep = ['forward', 'backward', 'symmetric'][(t // 3) % 3]
    iters = (t // 9) % 3 + 1
    u = t // 27
    cplx = u % 5 == 4
    via = ['schwarz', 'schwarz', 'setup_schwarz', 'kernel', 'schwarz', 'strength_based'][u % 6]
    dt = complex if cplx else float
    n = int(rng.integers(2 if count == 'smaller' else 1, 8))
    if via == 'strength_based':
        count = 'equal'
    m = n if count == 'equal' else int(rng.integers(0 if rng.random() < 0.1 else 1, n) if count == 'smaller' else rng.integers(n + 1, 2 * n + 3))
    mode = 'subdomain_only' if via == 'strength_based' else \
        str(rng.choice(['arbitrary', 'inverse'] if via == 'kernel' else ['subdomain_only', 'subdomain_only', 'inverse', 'arbitrary']))
    M = _well_system(rng, n, cplx)
    A = gen.int32csr(sp.csr_array(M))
    A.sort_indices()
    D = M.astype(dt)
    p_empty = float(rng.choice([0, 0, 0.25, 0.5]))
    sizes = [0 if rng.random() < p_empty else (n if rng.random() < 0.1 else int(rng.integers(1, min(n, 3) + 1))) for _ in range(m)]
    sj_, sp_ = _rand_decomposition(rng, n, sizes)
    tx_, tp_ = [], [0]
    for d in range(m):
        idx = sj_[sp_[d]:sp_[d + 1]]
        k = len(idx)
        T = (np.linalg.inv(D[np.ix_(idx, idx)]) if k else np.zeros((0, 0))) if mode != 'arbitrary' else \
            (rng.integers(-2, 3, size=(k, k)) * 0.125).astype(dt)
        tx_ += list(np.asarray(T, dtype=dt).ravel())
        tp_.append(len(tx_))
    c = {'kind': 'ext', 'method': 'k_schwarz' if via == 'kernel' else 'schwarz', 'complex': cplx, 'n': n, 'mode': mode, 'via': via, 'count': count,
         'indptr': A.indptr.tolist(), 'indices': A.indices.tolist(), 'data': _jl(A.data), 'iterations': iters, 'sweep': sweep,
         'subdomain': sj_, 'subdomain_ptr': sp_, 'inv_subblock': _jl(np.array(tx_, dtype=dt)), 'inv_subblock_ptr': tp_}
    if via == 'kernel':
        # the kernel's range over the m subdomains: the public sweeps' ranges and strided / partial ones
        if m and rng.random() < 0.5:
            (s0, s1, s2), _swk = gen.admissible_sweep(rng, m)
        else:
            s0, s1, s2 = (0, m, 1) if sweep != 'backward' else (m - 1, -1, -1)
        c['range'] = [int(s0), int(s1), int(s2)]
        del c['via']
    c['b'] = _jl(gen.rand_vec(rng, n, cplx).astype(dt))
    c['x'] = _jl(gen.rand_vec(rng, n, cplx).astype(dt))
    return c


def part_g(ctx, N):
    part_d(ctx, N, casefn=schwarz_case, tag='sch', always_judge=True)


# ------------------------------------------------------------------------------------------------
# part E: call histories on ONE matrix object.  Several relaxation routines leave data on the matrix they are given
# (schwarz: A.schwarz_parameters; get_block_diag: A.block_D_inv on a BSR matrix of the requested block size; sorted
# indices) or accept precomputed data (Dinv, inv_subblock, coefficients).  Every call of a history is judged against the
# defining update for the arguments of THAT call (Lean model of part D + dense NumPy formula).
# ------------------------------------------------------------------------------------------------

HIST_FOCUS = {
    'schwarz': ['schwarz'],
    'block': ['block_jacobi', 'block_gauss_seidel', 'cf_block_jacobi', 'fc_block_jacobi'],
    'ne': ['jacobi_ne', 'gauss_seidel_ne', 'gauss_seidel_nr', 'polynomial'],
    'mixed': ['schwarz', 'block_jacobi', 'block_gauss_seidel', 'cf_block_jacobi', 'fc_block_jacobi', 'jacobi_ne', 'gauss_seidel_ne',
              'gauss_seidel_nr', 'polynomial'],
}


def _rand_decomposition(rng, n, sizes):
    """sorted, duplicate-free index sets of the given sizes -> (subdomain, subdomain_ptr)"""
    sj_, sp_ = [], [0]
    for m in sizes:
        sj_ += sorted(int(v) for v in rng.choice(n, size=int(m), replace=False))
        sp_.append(len(sj_))
    return sj_, sp_


def hist_case(rng, t):
    """one matrix + 2-4 calls (ext-style case dicts sharing the matrix).  Successive calls differ in the user data they
    pass (same shapes, other contents), in block size, sweep, damping and in whether precomputed data is passed at all."""
    focus = ['schwarz', 'block', 'ne', 'mixed'][t % 4]
    cplx = (t // 4) % 3 == 2
    dt = complex if cplx else float
    n = int(rng.choice([2, 3, 4, 4, 6, 6]))
    M = _well_system(rng, n, cplx)
    if rng.random() < 0.5:     # symmetric pattern (as in part C) / general pattern
        M = M + M.conj().T
        M[np.arange(n), np.arange(n)] = np.abs(M).sum(1) + 1
    A = gen.int32csr(sp.csr_array(M))
    A.sort_indices()
    divs = [d for d in (1, 2, 3) if n % d == 0]
    r = rng.random()
    obj = 'csr' if r < 0.45 else (f'bsr{int(rng.choice(divs))}' if r < 0.85 else 'csc')
    base = {'kind': 'ext', 'complex': cplx, 'n': n, 'indptr': A.indptr.tolist(), 'indices': A.indices.tolist(), 'data': _jl(A.data), 'fmt': 'csr'}
    D = M.astype(dt)
    # the 'home' shape of the Schwarz decompositions of this history (number of subdomains, sizes); calls may also use another one
    nd = int(rng.integers(1, n + 1))
    sizes = [int(rng.integers(1, min(n, 3) + 1)) for _ in range(nd)]
    ncoef = int(rng.integers(1, 4))
    calls, last_schwarz, cache = [], None, None
    rows_dec = (A.indices.tolist(), A.indptr.tolist())       # what subdomain=None stands for: the (sorted) rows of A
    # default subdomains are the STORED row patterns; BSR -> CSR conversion stores the zeros of a block: no default mode there
    sch_modes = ['subdomain_only', 'subdomain_only', 'arbitrary', 'inverse'] + ([] if obj.startswith('bsr') else ['default', 'default'])
    for k in range(int(rng.integers(2, 5))):
        method = str(rng.choice(HIST_FOCUS[focus]))
        c = dict(base, method=method, omega=float(rng.choice([1.0, 0.5, 1.5, 0.75])), iterations=int(rng.integers(1, 3)),
                 sweep=str(rng.choice(['forward', 'backward', 'symmetric'])))
        if method in HIST_FOCUS['block']:
            bs = int(rng.choice(divs))
            nb = n // bs
            mode = str(rng.choice(['default_general', 'arbitrary', 'given_inverse']))
            if mode == 'arbitrary':
                Dinv = (rng.integers(-2, 3, size=(nb, bs, bs)) * 0.125).astype(dt)
                if cplx:
                    Dinv = Dinv * rng.choice([1, 1j, 0.5 + 0.5j], size=(nb, 1, 1))
            else:
                Dinv = np.array([np.linalg.inv(D[i * bs:(i + 1) * bs, i * bs:(i + 1) * bs]) for i in range(nb)])
            c.update({'bs': bs, 'nb': nb, 'mode': mode, 'Dinv': _jl(Dinv)})
            if method in ('cf_block_jacobi', 'fc_block_jacobi'):
                perm = rng.permutation(nb)
                k0 = int(rng.integers(0, nb + 1))
                c.update({'Cpts': sorted(int(v) for v in perm[:k0]), 'Fpts': sorted(int(v) for v in perm[k0:]),
                          'f_iterations': int(rng.integers(1, 3)), 'c_iterations': int(rng.integers(1, 3))})
        elif method == 'polynomial':
            c['coefficients'] = [float(v) for v in rng.choice([-0.25, 0.5, 0.125, 1.0, -0.5], size=ncoef) / 16]
        elif method in ('jacobi_ne', 'gauss_seidel_ne', 'gauss_seidel_nr'):
            c['mode'] = 'general' if method == 'jacobi_ne' else str(rng.choice(['general', 'explicit']))
            if c['mode'] == 'explicit':
                nn = np.sum(np.abs(D) ** 2, axis=0 if method == 'gauss_seidel_nr' else 1)
                sc = np.array([2.0 ** -int(np.ceil(np.log2(v))) for v in nn])
                c['Dinv'] = _jl((sc * rng.choice([1, 0.5, 0.25, 0], size=n)).astype(dt))
        else:   # schwarz
            keys = ('mode', 'subdomain', 'subdomain_ptr', 'inv_subblock', 'inv_subblock_ptr')
            if last_schwarz is not None and rng.random() < 0.15:
                # the very same call again (legitimate reuse of what the previous call left on the matrix)
                c.update({key: last_schwarz[key] for key in keys if key in last_schwarz})
                eff = last_schwarz['_eff']
            else:
                c['mode'] = str(rng.choice(sch_modes))
                r2 = rng.random()
                if c['mode'] == 'default':
                    sj_, sp_ = list(rows_dec[0]), list(rows_dec[1])
                elif last_schwarz is not None and r2 < 0.2:
                    # the decomposition of the previous Schwarz call (given or default) again, other / no precomputed inverses
                    sj_, sp_ = list(last_schwarz['_eff'][0]), list(last_schwarz['_eff'][1])
                elif last_schwarz is not None and r2 < 0.35:
                    # same index array, other pointer array of the same length
                    sj_, sp0 = list(last_schwarz['_eff'][0]), last_schwarz['_eff'][1]
                    sp_ = _rand_decomposition(rng, n, [int(v) for v in rng.permutation(np.diff(sp0))])[1]
                    ok = all(len(set(sj_[sp_[d]:sp_[d + 1]])) == sp_[d + 1] - sp_[d] for d in range(len(sp_) - 1))
                    sj_ = [v for d in range(len(sp_) - 1) for v in sorted(sj_[sp_[d]:sp_[d + 1]])]
                    if not ok:
                        sj_, sp_ = _rand_decomposition(rng, n, sizes)
                elif last_schwarz is not None and r2 < 0.5:
                    # same pointer array, other indices
                    sj_, sp_ = _rand_decomposition(rng, n, np.diff(last_schwarz['_eff'][1]))
                elif r2 < 0.75:
                    sj_, sp_ = _rand_decomposition(rng, n, list(rng.permutation(sizes)))
                else:
                    # another number of subdomains / another total length than anything before
                    nd2 = int(rng.integers(1, n + 2))
                    sj_, sp_ = _rand_decomposition(rng, n, [int(rng.integers(0 if rng.random() < 0.2 else 1, min(n, 3) + 1)) for _ in range(nd2)])
                eff = (sj_, sp_)
                # (omitted inverses after a call that passed its own non-inverse blocks for the same decomposition used to reuse
                # those blocks: repaired in /repo 713a040 -- supplied inverses are not cached -- and generated like any other history)
                if c['mode'] != 'default':
                    tx_, tp_ = [], [0]
                    for d in range(len(sp_) - 1):
                        idx = sj_[sp_[d]:sp_[d + 1]]
                        m = len(idx)
                        T = (np.linalg.inv(D[np.ix_(idx, idx)]) if m else np.zeros((0, 0))) if c['mode'] != 'arbitrary' else \
                            (rng.integers(-2, 3, size=(m, m)) * 0.125).astype(dt)
                        tx_ += list(np.asarray(T, dtype=dt).ravel())
                        tp_.append(len(tx_))
                    c.update({'subdomain': sj_, 'subdomain_ptr': sp_, 'inv_subblock': _jl(np.array(tx_, dtype=dt)), 'inv_subblock_ptr': tp_})
            c['_eff'] = eff
            # what the call leaves on a CSR matrix object
            omitted = c['mode'] in ('default', 'subdomain_only')
            if not (omitted and cache is not None and cache['eff'] == eff):
                cache = {'eff': eff, 'arbitrary': c['mode'] == 'arbitrary', 'tx': c.get('inv_subblock'), 'tp': c.get('inv_subblock_ptr')}
            last_schwarz = c
        c['b'] = _jl(gen.rand_vec(rng, n, cplx).astype(dt))
        c['x'] = _jl(gen.rand_vec(rng, n, cplx).astype(dt))
        calls.append(c)
    return {'kind': 'history', 'object': obj, 'focus': focus, 'calls': calls}


def hist_object(h):
    """the ONE matrix object all calls of the history are made on"""
    A = _ext_matrix(h['calls'][0])
    obj = h['object']
    if obj.startswith('bsr'):
        bs = int(obj[3:])
        A = A.tobsr(blocksize=(bs, bs))
        A.indptr, A.indices = A.indptr.astype(np.int32), A.indices.astype(np.int32)
    elif obj == 'csc':
        A = A.tocsc()
        A.indptr, A.indices = A.indptr.astype(np.int32), A.indices.astype(np.int32)
    return A


def hist_call(c, Aobj):
    """one public call with the arguments of case c on the given matrix object; returns x after the call"""
    from pyamg.relaxation import relaxation as R
    cplx = c['complex']
    dt = complex if cplx else float
    method = c['method']
    x = _ja(c['x'], cplx).astype(dt)
    b = _ja(c['b'], cplx).astype(dt)
    i32 = lambda key: np.array(c[key], dtype=np.int32)
    if method in HIST_FOCUS['block']:
        bs, nb = c['bs'], c['nb']
        kw = {} if c['mode'].startswith('default') else {'Dinv': _ja(c['Dinv'], cplx).reshape(nb, bs, bs).astype(dt).copy()}
        if method == 'block_jacobi':
            R.block_jacobi(Aobj, x, b, blocksize=bs, iterations=c['iterations'], omega=c['omega'], **kw)
        elif method == 'block_gauss_seidel':
            R.block_gauss_seidel(Aobj, x, b, iterations=c['iterations'], sweep=c['sweep'], blocksize=bs, **kw)
        else:
            fn = R.cf_block_jacobi if method == 'cf_block_jacobi' else R.fc_block_jacobi
            fn(Aobj, x, b, i32('Cpts'), i32('Fpts'), blocksize=bs, iterations=c['iterations'], f_iterations=c['f_iterations'],
               c_iterations=c['c_iterations'], omega=c['omega'], **kw)
    elif method == 'polynomial':
        R.polynomial(Aobj, x, b, c['coefficients'], iterations=c['iterations'])
    elif method == 'jacobi_ne':
        R.jacobi_ne(Aobj, x, b, iterations=c['iterations'], omega=c['omega'])
    elif method in ('gauss_seidel_ne', 'gauss_seidel_nr'):
        kw = {'Dinv': _ja(c['Dinv'], cplx).astype(dt)} if c['mode'] == 'explicit' else {}
        (R.gauss_seidel_ne if method == 'gauss_seidel_ne' else R.gauss_seidel_nr)(
            Aobj, x, b, iterations=c['iterations'], sweep=c['sweep'], omega=c['omega'], **kw)
    elif method == 'schwarz':
        kw = {}
        if c['mode'] != 'default':
            kw = {'subdomain': i32('subdomain'), 'subdomain_ptr': i32('subdomain_ptr')}
            if c['mode'] != 'subdomain_only':
                kw.update({'inv_subblock': _ja(c['inv_subblock'], cplx).astype(dt), 'inv_subblock_ptr': i32('inv_subblock_ptr')})
        R.schwarz(Aobj, x, b, iterations=c['iterations'], sweep=c['sweep'], **kw)
    else:
        raise KeyError(method)
    return x, _h(b) != _h(_ja(c['b'], cplx).astype(dt))


def _hist_brief(c):
    return {k: c[k] for k in ('method', 'mode', 'bs', 'sweep', 'iterations', 'omega', 'subdomain', 'subdomain_ptr', 'coefficients') if k in c}


def judge_hist(ctx, h, k, out):
    c = h['calls'][k]
    ref = ext_reference(c)
    if ref is None:
        return
    if isinstance(out, tuple) or not np.allclose(ref, out, rtol=0, atol=1e-8 * (1 + float(np.max(np.abs(ref), initial=0)))):
        ctx.violation(f'call {k + 1} of a history on one {h["object"]} matrix object, {_hist_brief(c)} after {[_hist_brief(p) for p in h["calls"][:k]]}, '
                      f'is not the defining update for its own arguments: expected {np.asarray(ref).tolist()} got '
                      f'{out if isinstance(out, tuple) else np.asarray(out).tolist()}',
                      {'kind': 'history', 'object': h['object'], 'calls': h['calls'][:k + 1]})


def hist_run(h, prog):
    """all calls of a history on ONE matrix object (executed in the isolated worker): per call ('ok', x, modified?) or
    ('raised', text), sent through prog as soon as it is known; ('begin', k) announces call k"""
    Aobj = hist_object(h)
    M0 = Aobj.toarray()
    for k, c in enumerate(h['calls']):
        prog(('begin', k))
        try:
            out, bmod = hist_call(c, Aobj)
        except Exception as e:      # noqa: BLE001
            prog(('raised', k, f'{type(e).__name__}: {e}'))
            break
        prog(('ok', k, out, bool(bmod or not np.array_equal(Aobj.toarray(), M0))))
    return None


def _hist_thunk(h):
    def run(prog):
        got = []
        hist_run(h, lambda payload: (got.append(payload), prog(payload)))
        return got
    return run


def part_e(ctx, N):
    rng = ctx.np_rng
    items = []
    hists = [hist_case(rng, t) for t in range(N)]
    # the real calls: in the isolated worker (hist_object / hist_call make no random choice); what the worker reported
    # before a crash is kept, the call it died in is the violation
    for h, r in zip(hists, _isolated([_hist_thunk(h) for h in hists])):
        recs = r[1] if r[0] == 'ok' else (r[2] if r[0] == 'crashed' else [])
        if r[0] == 'raised':        # the harness side of the worker raised: not an observation of the code under test
            raise RuntimeError('part_e worker failed: ' + r[1])
        for rec in recs:
            if rec[0] == 'begin':
                continue
            k = rec[1]
            c = h['calls'][k]
            sub = {'kind': 'history', 'object': h['object'], 'calls': h['calls'][:k + 1]}
            if rec[0] == 'raised':  # a public relaxation call must not raise on a valid system, whatever was called before
                ctx.case(key=hashlib.sha1(repr(sub).encode()).hexdigest(), nontrivial=c['n'] >= 2)
                ctx.violation(f'call {k + 1} of a history on one {h["object"]} matrix object, {_hist_brief(c)} after '
                              f'{[_hist_brief(p_) for p_ in h["calls"][:k]]}, raised {rec[2]}', sub)
                break
            out = rec[2]
            if rec[3]:
                ctx.violation(f'{c["method"]} (call {k + 1} of a history) modified its matrix or right-hand side', sub)
            items.append((h, k, c, out, ext_line(c, {}) if c['method'] in LINE_METHODS else None))
        if r[0] == 'crashed':
            k = recs[-1][1] if recs and recs[-1][0] == 'begin' else 0
            c = h['calls'][k]
            sub = {'kind': 'history', 'object': h['object'], 'calls': h['calls'][:k + 1]}
            ctx.case(key=hashlib.sha1(repr(sub).encode()).hexdigest(), nontrivial=c['n'] >= 2)
            ctx.violation(f'call {k + 1} of a history on one {h["object"]} matrix object, {_hist_brief(c)} after '
                          f'{[_hist_brief(p_) for p_ in h["calls"][:k]]}, did not compute its defining update: {_failed_text(r)}', sub)
    outs = iter(ctx.lean([it[4] for it in items if it[4] is not None]))
    for h, k, c, out, line in items:
        o = next(outs) if line is not None else None
        ctx.case(key=hashlib.sha1((f'{h["object"]} {k} ' + (line or repr(c))).encode()).hexdigest(),
                 nontrivial=c['n'] >= 2 and len(c['indices']) > c['n'],
                 sample={'object': h['object'], 'call': k + 1, 'request': (line or c['method'])[:300], 'model': (o or '')[:120]} if k == 1 else None)
        ctx.feat('hist:' + c['method'])
        ctx.feat('hist:object=' + h['object'])
        ctx.feat(f'hist:call{k + 1}')
        ctx.feat('hist:complex' if c['complex'] else 'hist:real')
        if 'mode' in c:
            ctx.feat(f'hist:{c["method"]}:mode={c["mode"]}')
        if k and c['method'] == h['calls'][k - 1]['method']:
            ctx.feat('hist:same_routine_again')
            if c.get('bs') != h['calls'][k - 1].get('bs'):
                ctx.feat('hist:other_blocksize')
            if '_eff' in c and '_eff' in h['calls'][k - 1]:
                p_ = h['calls'][k - 1]
                (s1, p1), (s0, p0) = c['_eff'], p_['_eff']
                ctx.feat('hist:schwarz:' + (('same_decomposition' + ('' if c['mode'] == p_['mode'] else ':other_mode')) if (s1, p1) == (s0, p0)
                                            else 'other_indices_same_ptr' if p1 == p0 else 'same_indices_other_ptr' if s1 == s0
                                            else 'other_decomposition_same_shapes' if (len(s1), len(p1)) == (len(s0), len(p0))
                                            else 'other_shapes'))
                if 'default' in (c['mode'], p_['mode']) and c['mode'] != p_['mode']:
                    ctx.feat('hist:schwarz:default<->given')
        if np.asarray(out).size and not np.max(np.abs(out)) < 1e12:
            ctx.near_skipped += 1
            ctx.feat('hist:skipped_diverged')
            continue
        if o is not None:
            exact, close = _ext_compare(c, {}, o, out)
            if exact:
                ctx.feat('hist:bit_exact')
            if not close:
                ctx.corr(f'history call {k + 1}: {c["method"]}', {'kind': 'history', 'object': h['object'], 'calls': h['calls'][:k + 1]},
                         o, np.asarray(out).tolist() if not np.iscomplexobj(out) else _jl(out))
        judge_hist(ctx, h, k, out)


def run(ctx):
    part_a(ctx, ctx.scale(1430, 28600))
    part_b(ctx, ctx.scale(420, 8400))
    part_c(ctx, ctx.scale(360, 7200))
    part_d(ctx, ctx.scale(600, 12000))
    part_e(ctx, ctx.scale(240, 4800))
    part_f(ctx, ctx.scale(400, 8000))
    part_g(ctx, ctx.scale(486, 9720))
    for k, v in _ISO_STATS.items():      # isolation bookkeeping (cumulative over the rounds of this process)
        ctx.features['iso:' + k] = v


def search(ctx):
    part_c(ctx, 1500)
    part_b(ctx, 1500)
    part_d(ctx, 1500)
    part_e(ctx, 600)
    part_f(ctx, 1200)
    part_g(ctx, 1458)


def _regen_item(reg):
    """the item of parts A / B / C again, from the generator state recorded before it was generated"""
    g = _rng_from(reg['state'])
    if reg['part'] == 'a':
        it = (raw_bsr_case if reg['kind'] in BSR_KERNELS else raw_case)(g, reg['kind'], reg['cplx'], reg['t'])
    elif reg['part'] == 'b':
        it = public_case(g, reg['t'])
    else:
        it = search_case(g, reg['t'])
    it['regen'] = reg
    return it


def replay(ctx, data):
    """every real call of a replay runs in a forked worker again: a crash is reported, it does not end the replay"""
    case = data['case']
    print('replaying', case.get('kind'), {k: case[k] for k in case if k not in ('M', 'data', 'indices', 'indptr', 'regen', 'calls')})
    if 'regen' in case:
        it = _regen_item(case['regen'])
        part = case['regen']['part']
        if part == 'a':
            _raw_results(ctx, [it])
            if it['out'] is not None:
                judge_raw(ctx, it)
                print('result', np.asarray(it['out']).tolist())
        elif part == 'b':
            _public_results(ctx, [it])
            if it['out'] is not None:
                judge_public(ctx, it['case'], it['out'])
                print('result', np.asarray(it['out']).tolist(), 'reference', dense_reference(it['case']).tolist())
        else:
            r = _isolated([it['run']])[0]
            cs = {'kind': 'search', **it['case'], 'regen': it['regen']}
            if r[0] != 'ok':
                ctx.violation(f'{it["method"]} did not compute its defining update: {_failed_text(r)}', cs)
            else:
                for msg in r[1]:
                    ctx.violation(msg, cs)
            print('result', r[0], r[1] if r[0] != 'ok' else f'{len(r[1])} failure(s)')
    elif case.get('kind') == 'history':
        r = _isolated([_hist_thunk(case)])[0]
        recs = r[1] if r[0] == 'ok' else (r[2] if r[0] == 'crashed' else [])
        last = None
        for rec in recs:
            if rec[0] == 'begin':
                continue
            k = rec[1]
            c = case['calls'][k]
            ref = ext_reference(c)
            print('call', k + 1, _hist_brief(c), rec[0], rec[2] if rec[0] == 'raised' else np.asarray(rec[2]).tolist(),
                  'reference', None if ref is None else np.asarray(ref).tolist())
            last = rec
        kl = len(case['calls']) - 1
        if r[0] != 'ok':
            ctx.violation(f'call {kl + 1} of the history did not compute its defining update: {_failed_text(r)}', case)
        elif last is not None and last[1] == kl:
            judge_hist(ctx, case, kl, ('raised', last[2]) if last[0] == 'raised' else last[2])
    elif case.get('kind') == 'ext':
        r = _iso1(lambda: ext_call(case))
        ref = ext_reference(case)
        if r[0] != 'ok':
            ctx.violation(f'{case["method"]} ({_ext_brief(case)}) did not compute its defining update: {_failed_text(r)}', case)
            print('result', _failed_text(r), 'reference', None if ref is None else np.asarray(ref).tolist())
        else:
            out, extra = r[1]
            judge_ext(ctx, case, out)
            print('result', np.asarray(out).tolist(), 'reference', None if ref is None else np.asarray(ref).tolist())
    elif case.get('kind') == 'public':
        _replay_public(ctx, case)
    else:
        print('see the case description in the replay file (what/detail) to reproduce by hand')


def _replay_public(ctx, case):
    """(replay files written before the cases carried their generator state)"""
    from pyamg.relaxation import relaxation as R
    n = case['n']
    cplx = case['complex']
    dt = complex if cplx else float
    dat = np.array([complex(v['re'], v['im']) if isinstance(v, dict) else v for v in case['data']], dtype=dt)
    A = gen.csr_from_arrays(n, case['indptr'], case['indices'], dat)
    tov = lambda l: np.array([complex(v['re'], v['im']) if isinstance(v, dict) else v for v in l], dtype=dt)
    x, b = tov(case['x']), tov(case['b'])
    case = dict(case, data=dat, x=x.tolist(), b=b.tolist())
    fn = case['fn']
    kw = {'iterations': case['iterations']}
    if fn in ('gauss_seidel', 'sor', 'gauss_seidel_indexed'):
        kw['sweep'] = case['sweep']
    if fn == 'gauss_seidel':
        R.gauss_seidel(A, x, b, omega=case['omega'], **kw)
    elif fn == 'sor':
        R.sor(A, x, b, case['omega'], **kw)
    elif fn == 'jacobi':
        R.jacobi(A, x, b, omega=case['omega'], **kw)
    else:
        print('replay of', fn, 'not implemented; see the case description')
        return
    judge_public(ctx, case, x)
    print('result', x.tolist(), 'reference', dense_reference(case).tolist())
