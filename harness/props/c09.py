"""C09 -- relaxation sweeps compute exactly their defining splitting update.

correspondence : raw kernels of relaxation.h (rebuilt from the working tree) and the public drivers
                 of relaxation.py vs the Lean models (Model/KRelax.lean) on Rat / Gaussian rationals,
                 bit-exact (dyadic inputs make every float operation exact).
search         : every public method vs an independent dense NumPy formula of its splitting; CSR vs
                 BSR storage of the same matrix; exact solution is a fixed point; A, b not modified.
"""
import hashlib

import numpy as np
import scipy.sparse as sp

import gen
from common import enc_ints, enc_rats, enc_crats, enc_rat, enc_crat, dec_list, dec_rat, dec_crat, frac

META = {
    'rule': 'cases = random dyadic CSR systems (n=1..8; unsorted/duplicated/missing-diagonal patterns, empty rows), '
            'every kernel x admissible sweep (forward/backward/strided/indexed) x omega x real/complex, plus the public '
            'drivers x sweep x iterations x omega x CSR/BSR; a case is non-trivial when n >= 2 and the matrix has an '
            'off-diagonal entry; distinct = distinct (operation, input) lines',
    'search_only': ['block Jacobi/Gauss-Seidel, Schwarz, polynomial, normal-equation drivers: compared with an '
                    'independent dense NumPy formula (tolerance 1e-9), not with a Lean model',
                    'single precision: tolerance comparison only'],
    'partial': [],
    'assumptions': ['floating-point rounding is outside the model: kernels are compared on dyadic inputs where binary64 '
                    'arithmetic is exact; block inverses (LAPACK pinv) are taken as exact inverses'],
}


def _h(a):
    return hashlib.sha1(np.ascontiguousarray(a).tobytes()).hexdigest()


def _eq_exact(model_vals, impl):
    """model_vals: list of Fraction (or (re,im)); impl: ndarray -> (exact?, close?)"""
    impl = np.asarray(impl)
    if len(model_vals) != impl.size:
        return False, False
    exact, close = True, True
    for m, v in zip(model_vals, impl.ravel()):
        if isinstance(m, tuple):
            ok = frac(v.real) == m[0] and frac(v.imag) == m[1]
            d = abs(complex(float(m[0]), float(m[1])) - complex(v))
            mag = abs(complex(float(m[0]), float(m[1])))
        else:
            if not np.isfinite(v):
                return False, False
            ok = frac(v) == m
            d = abs(float(m) - float(v))
            mag = abs(float(m))
        exact &= ok
        close &= d <= 1e-9 * (1 + mag)
    return exact, close


def _hdr(A, cplx):
    return f'{A.shape[0]} {enc_ints(A.indptr)} {enc_ints(A.indices)} {(enc_crats if cplx else enc_rats)(A.data)}'


# ------------------------------------------------------------------------------------------------
# part A: raw kernels
# ------------------------------------------------------------------------------------------------

KERNELS = ['gs', 'sor', 'jac', 'jaci', 'gsi', 'gsne', 'gsnr', 'jacne']


def raw_case(rng, kind, cplx, t):
    from pyamg import amg_core
    n = int(rng.integers(1, 9))
    A, feats = gen.rand_dyadic_csr(rng, n, complex_=cplx, unsorted=(t % 3 == 0), duplicates=(t % 5 == 0))
    dt = complex if cplx else float
    b = gen.rand_vec(rng, n, cplx)
    x = gen.rand_vec(rng, n, cplx)
    (s0, s1, s2), swk = gen.admissible_sweep(rng, n)
    om = float(rng.choice([1.0, 0.5, 1.5, 0.25]))
    ev = enc_crats if cplx else enc_rats
    pre = 'c' if cplx else ''
    hdr = _hdr(A, cplx)
    case = {'kernel': kind, 'complex': cplx, 'n': n, 'indptr': A.indptr.tolist(), 'indices': A.indices.tolist(),
            'data': A.data.tolist(), 'b': b.tolist(), 'x': x.tolist(), 'sweep': [s0, s1, s2], 'omega': om}
    Ap, Aj, Ax = A.indptr, A.indices, A.data
    xx = x.astype(dt).copy()
    bb = b.astype(dt)
    if kind == 'gs':
        amg_core.gauss_seidel(Ap, Aj, Ax, xx, bb, s0, s1, s2)
        line = f'{pre}gs {hdr} {ev(b)} {ev(x)} {s0} {s1} {s2}'
        out = xx
    elif kind == 'sor':
        amg_core.sor_gauss_seidel(Ap, Aj, Ax, xx, bb, s0, s1, s2, om)
        line = f'{pre}sor {enc_rat(om)} {hdr} {ev(b)} {ev(x)} {s0} {s1} {s2}'
        out = xx
    elif kind == 'jac':
        temp = np.zeros(n, dtype=dt)
        amg_core.jacobi(Ap, Aj, Ax, xx, bb, temp, s0, s1, s2, np.array([om], dtype=dt))
        line = f'{pre}jac {enc_rat(om)} {hdr} {ev(b)} {ev(x)} {s0} {s1} {s2}'
        out = xx
    elif kind == 'jaci':
        idx = rng.integers(0, n, size=rng.integers(0, n + 2)).astype(np.int32)
        case['idx'] = idx.tolist()
        amg_core.jacobi_indexed(Ap, Aj, Ax, xx, bb, idx, np.array([om], dtype=dt))
        line = f'jaci {enc_rat(om)} {hdr} {ev(b)} {ev(x)} {enc_ints(idx)}'
        out = xx
    elif kind == 'gsi':
        idx = rng.integers(0, n, size=rng.integers(1, n + 2)).astype(np.int32)
        m = len(idx)
        a0, a1, a2 = (0, m, 1) if t % 2 else (m - 1, -1, -1)
        case['idx'] = idx.tolist()
        case['sweep'] = [a0, a1, a2]
        amg_core.gauss_seidel_indexed(Ap, Aj, Ax, xx, bb, idx, a0, a1, a2)
        line = f'gsi {hdr} {ev(b)} {ev(x)} {enc_ints(idx)} {a0} {a1} {a2}'
        out = xx
    elif kind == 'gsne':
        dinv = rng.choice([1, 0.5, 0.25, 2], size=n).astype(dt)
        case['dinv'] = dinv.tolist()
        omv = om
        amg_core.gauss_seidel_ne(Ap, Aj, Ax, xx, bb, s0, s1, s2, dinv, omv)
        line = f'{pre}gsne {(enc_crat if cplx else enc_rat)(om)} {hdr} {ev(b)} {ev(x)} {ev(dinv)} {s0} {s1} {s2}'
        out = xx
    elif kind == 'gsnr':
        dinv = rng.choice([1, 0.5, 0.25, 2], size=n).astype(dt)
        case['dinv'] = dinv.tolist()
        r = bb.copy()
        omv = om
        amg_core.gauss_seidel_nr(Ap, Aj, Ax, xx, r, s0, s1, s2, dinv, omv)
        line = f'{pre}gsnr {(enc_crat if cplx else enc_rat)(om)} {hdr} {ev(b)} {ev(x)} {ev(dinv)} {s0} {s1} {s2}'
        out = np.concatenate([xx, r])
    else:
        delta = gen.rand_vec(rng, n, cplx, -3, 4).astype(dt)
        case['delta'] = delta.tolist()
        temp = np.zeros(n, dtype=dt)
        s0, s1, s2 = 0, n, 1
        case['sweep'] = [s0, s1, s2]
        amg_core.jacobi_ne(Ap, Aj, Ax, xx, bb, delta, temp, s0, s1, s2, np.array([om], dtype=dt))
        line = f'{pre}jacne {(enc_crat if cplx else enc_rat)(om)} {hdr} {ev(delta)} {ev(x)} {s0} {s1} {s2}'
        out = xx
    nontrivial = n >= 2 and any(A.indices[k] != i for i in range(n) for k in range(A.indptr[i], A.indptr[i + 1]))
    return {'line': line, 'out': out, 'case': case, 'feats': feats | {swk, 'complex' if cplx else 'real', 'omega!=1' if om != 1 else 'omega=1'},
            'nontrivial': nontrivial, 'cplx': cplx}


def _parse_model(s, cplx):
    f = dec_crat if cplx else dec_rat
    return [v for part in s.split(';') for v in dec_list(part, f)]


def part_a(ctx, N):
    rng = ctx.np_rng
    items = []
    for t in range(N):
        kind = KERNELS[t % len(KERNELS)]
        cplx = (t // len(KERNELS)) % 3 == 2 and kind in ('gs', 'sor', 'jac', 'gsne', 'gsnr', 'jacne')
        items.append(raw_case(rng, kind, cplx, t))
    outs = ctx.lean([it['line'] for it in items])
    for it, o in zip(items, outs):
        ctx.case(key=hashlib.sha1(it['line'].encode()).hexdigest(), nontrivial=it['nontrivial'],
                 sample={'request': it['line'][:300], 'model': o[:120], 'impl': np.asarray(it['out']).tolist()[:8]})
        for f in it['feats']:
            ctx.feat(f)
        ctx.feat('kernel:' + it['case']['kernel'])
        if o in ('bad-op',):
            ctx.corr('raw-kernel', it['case'], o, 'n/a', 'driver rejected the request')
            continue
        exact, close = _eq_exact(_parse_model(o, it['cplx']), it['out'])
        if exact:
            ctx.feat('bit_exact')
        if not close:
            ctx.corr('raw-kernel ' + it['case']['kernel'], it['case'], o, np.asarray(it['out']).tolist())
            # the kernel disagrees with the model; is the splitting formula itself violated?
            judge_raw(ctx, it)


def judge_raw(ctx, it):
    """independent dense judgement of a raw-kernel result (GS/SOR/Jacobi rows) -> violation if the
    defining splitting update is not what the kernel computed"""
    c = it['case']
    if c['kernel'] not in ('gs', 'sor', 'jac'):
        return
    n = c['n']
    A = gen.csr_from_arrays(n, c['indptr'], c['indices'], np.array(c['data'], dtype=complex if c['complex'] else float))
    diag_cnt = [sum(1 for k in range(A.indptr[i], A.indptr[i + 1]) if A.indices[k] == i) for i in range(n)]
    if max(diag_cnt, default=0) > 1:
        return     # duplicated diagonal: the kernel's "last one wins" policy has no dense meaning
    D = A.toarray()
    x = np.array(c['x'], dtype=D.dtype)
    b = np.array(c['b'], dtype=D.dtype)
    s0, s1, s2 = c['sweep']
    rows = list(range(s0, s1, s2))
    om = c['omega'] if c['kernel'] != 'gs' else 1.0
    ref = x.copy()
    if c['kernel'] == 'jac':
        old = x.copy()
        for i in rows:
            if D[i, i] != 0:
                ref[i] = (1 - om) * old[i] + om * (b[i] - (D[i] @ old - D[i, i] * old[i])) / D[i, i]
    else:
        for i in rows:
            if D[i, i] != 0:
                ref[i] = (1 - om) * ref[i] + om * (b[i] - (D[i] @ ref - D[i, i] * ref[i])) / D[i, i]
    if not np.allclose(ref, it['out'], rtol=1e-9, atol=1e-9):
        ctx.violation(f'kernel {c["kernel"]} does not compute its splitting update: expected {ref.tolist()} got {np.asarray(it["out"]).tolist()}',
                      {'kind': 'raw', **c})


# ------------------------------------------------------------------------------------------------
# part B: public drivers vs the Lean driver models (exact)
# ------------------------------------------------------------------------------------------------

def part_b(ctx, N):
    from pyamg.relaxation import relaxation as R
    rng = ctx.np_rng
    items = []
    for t in range(N):
        n = int(rng.integers(1, 8))
        cplx = t % 7 == 6
        A, feats = gen.rand_dyadic_csr(rng, n, complex_=cplx, unsorted=(t % 4 == 0))
        dt = complex if cplx else float
        b = gen.rand_vec(rng, n, cplx).astype(dt)
        x = gen.rand_vec(rng, n, cplx).astype(dt)
        om = float(rng.choice([1.0, 0.5, 1.5]))
        iters = int(rng.integers(1, 4))
        sweep = str(rng.choice(['forward', 'backward', 'symmetric']))
        ev = enc_crats if cplx else enc_rats
        hdr = _hdr(A, cplx)
        kind = ['gauss_seidel', 'sor', 'jacobi', 'gauss_seidel_indexed', 'jacobi_indexed', 'cf_jacobi', 'fc_jacobi'][t % 7]
        if cplx and kind not in ('gauss_seidel', 'sor', 'jacobi'):
            kind = ['gauss_seidel', 'sor', 'jacobi'][t % 3]
        case = {'fn': kind, 'complex': cplx, 'n': n, 'indptr': A.indptr.tolist(), 'indices': A.indices.tolist(),
                'data': A.data.tolist(), 'b': b.tolist(), 'x': x.tolist(), 'omega': om, 'iterations': iters, 'sweep': sweep}
        xx = x.copy()
        hA, hb = _h(A.data), _h(b)
        pre = 'c' if cplx else ''
        if kind == 'gauss_seidel':
            R.gauss_seidel(A, xx, b, iterations=iters, sweep=sweep, omega=om)
            line = f'{pre}pygs {enc_rat(om)} {hdr} {ev(b)} {ev(x)} {iters} {sweep}'
        elif kind == 'sor':
            R.sor(A, xx, b, om, iterations=iters, sweep=sweep)
            line = f'{pre}pygs {enc_rat(om)} {hdr} {ev(b)} {ev(x)} {iters} {sweep}'
        elif kind == 'jacobi':
            R.jacobi(A, xx, b, iterations=iters, omega=om)
            line = f'{pre}pyjac {(enc_crat if cplx else enc_rat)(om)} {hdr} {ev(b)} {ev(x)} {iters}'
        elif kind == 'gauss_seidel_indexed':
            idx = rng.integers(0, n, size=rng.integers(1, n + 2)).astype(np.int32)
            case['idx'] = idx.tolist()
            R.gauss_seidel_indexed(A, xx, b, idx, iterations=iters, sweep=sweep)
            line = f'pygsi {hdr} {ev(b)} {ev(x)} {enc_ints(idx)} {iters} {sweep}'
        elif kind == 'jacobi_indexed':
            idx = rng.integers(0, n, size=rng.integers(1, n + 2)).astype(np.int32)
            case['idx'] = idx.tolist()
            R.jacobi_indexed(A, xx, b, idx, iterations=iters, omega=om)
            line = f'pyjaci {enc_rat(om)} {hdr} {ev(b)} {ev(x)} {enc_ints(idx)} {iters}'
        else:
            perm = rng.permutation(n)
            k = int(rng.integers(0, n + 1))
            C, F = np.sort(perm[:k]).astype(np.int32), np.sort(perm[k:]).astype(np.int32)
            fit, cit = int(rng.integers(1, 3)), int(rng.integers(1, 3))
            case.update({'Cpts': C.tolist(), 'Fpts': F.tolist(), 'f_iterations': fit, 'c_iterations': cit})
            fn = R.cf_jacobi if kind == 'cf_jacobi' else R.fc_jacobi
            fn(A, xx, b, C, F, iterations=iters, f_iterations=fit, c_iterations=cit, omega=om)
            line = (f'pycfjac {1 if kind == "cf_jacobi" else 0} {enc_rat(om)} {hdr} {ev(b)} {ev(x)} {enc_ints(C)} {enc_ints(F)} '
                    f'{iters} {fit} {cit}')
        if _h(A.data) != hA or _h(b) != hb:
            ctx.violation(f'{kind} modified its matrix or right-hand side', {'kind': 'public', **case})
        nontriv = n >= 2 and A.nnz > n
        items.append({'line': line, 'out': xx, 'case': case, 'cplx': cplx, 'nontrivial': nontriv,
                      'feats': feats | {'fn:' + kind, 'sweep:' + sweep, f'iters:{iters}', 'omega!=1' if om != 1 else 'omega=1'}})
    outs = ctx.lean([it['line'] for it in items])
    for it, o in zip(items, outs):
        ctx.case(key=hashlib.sha1(it['line'].encode()).hexdigest(), nontrivial=it['nontrivial'],
                 sample={'request': it['line'][:300], 'model': o[:120], 'impl': np.asarray(it['out']).tolist()[:8]})
        for f in it['feats']:
            ctx.feat(f)
        exact, close = _eq_exact(_parse_model(o, it['cplx']), it['out'])
        if exact:
            ctx.feat('bit_exact')
        if not close:
            ctx.corr('public ' + it['case']['fn'], it['case'], o, np.asarray(it['out']).tolist())
            judge_public(ctx, it['case'], it['out'])


# ------------------------------------------------------------------------------------------------
# independent dense references (the search oracle)
# ------------------------------------------------------------------------------------------------

def _dense_gs(D, x, b, rows, om):
    x = x.copy()
    for i in rows:
        if D[i, i] != 0:
            x[i] = (1 - om) * x[i] + om * (b[i] - (D[i] @ x - D[i, i] * x[i])) / D[i, i]
    return x


def _dense_jac(D, x, b, rows, om):
    old = x.copy()
    x = x.copy()
    for i in rows:
        if D[i, i] != 0:
            x[i] = (1 - om) * old[i] + om * (b[i] - (D[i] @ old - D[i, i] * old[i])) / D[i, i]
    return x


def dense_reference(case):
    """the defining splitting update of a public call, computed densely and independently"""
    cplx = case['complex']
    dt = complex if cplx else float
    n = case['n']
    A = gen.csr_from_arrays(n, case['indptr'], case['indices'], np.array([complex(*v) if isinstance(v, (list, tuple)) else v for v in case['data']], dtype=dt)
                            if not isinstance(case['data'], np.ndarray) else case['data'])
    D = A.toarray()
    x = np.array(case['x'], dtype=dt)
    b = np.array(case['b'], dtype=dt)
    om = case.get('omega', 1.0)
    it = case.get('iterations', 1)
    fn = case['fn']
    sw = case.get('sweep', 'forward')
    fwd, bwd = list(range(n)), list(range(n - 1, -1, -1))
    if fn in ('gauss_seidel', 'sor'):
        for _ in range(it):
            if sw in ('forward', 'symmetric'):
                x = _dense_gs(D, x, b, fwd, om)
            if sw in ('backward', 'symmetric'):
                x = _dense_gs(D, x, b, bwd, om)
        return x
    if fn == 'jacobi':
        for _ in range(it):
            x = _dense_jac(D, x, b, fwd, om)
        return x
    if fn == 'gauss_seidel_indexed':
        idx = case['idx']
        for _ in range(it):
            if sw in ('forward', 'symmetric'):
                x = _dense_gs(D, x, b, idx, 1.0)
            if sw in ('backward', 'symmetric'):
                x = _dense_gs(D, x, b, idx[::-1], 1.0)
        return x
    if fn == 'jacobi_indexed':
        for _ in range(it):
            x = _dense_jac(D, x, b, case['idx'], om)
        return x
    if fn in ('cf_jacobi', 'fc_jacobi'):
        for _ in range(it):
            order = [('C', case['c_iterations']), ('F', case['f_iterations'])]
            if fn == 'fc_jacobi':
                order.reverse()
            for which, k in order:
                pts = case['Cpts'] if which == 'C' else case['Fpts']
                for _j in range(k):
                    x = _dense_jac(D, x, b, pts, om)
        return x
    raise KeyError(fn)


def judge_public(ctx, case, out):
    ref = dense_reference(case)
    if not np.allclose(ref, out, rtol=1e-9, atol=1e-9):
        ctx.violation(f'{case["fn"]}(sweep={case.get("sweep")}, iterations={case.get("iterations")}, omega={case.get("omega")}) '
                      f'is not its splitting update: expected {ref.tolist()} got {np.asarray(out).tolist()}',
                      {'kind': 'public', **case})


# ------------------------------------------------------------------------------------------------
# part C: search on the real code -- all public methods vs dense formulas, CSR == BSR, fixed point
# ------------------------------------------------------------------------------------------------

def _well_system(rng, n, cplx, bs=1):
    """diagonally dominant random system (no zero diagonals) of size n (multiple of bs)"""
    M = (rng.random((n, n)) < 0.5) * rng.integers(-3, 4, size=(n, n)).astype(float)
    if cplx:
        M = M + 1j * (rng.random((n, n)) < 0.3) * rng.integers(-2, 3, size=(n, n))
    M[np.arange(n), np.arange(n)] = np.abs(M).sum(1) + rng.integers(1, 4, size=n)
    return M


def part_c(ctx, N):
    from pyamg.relaxation import relaxation as R
    from pyamg.util.utils import get_block_diag
    rng = ctx.np_rng
    for t in range(N):
        cplx = t % 5 == 4
        dt = complex if cplx else float
        bs = int(rng.choice([1, 2, 3]))
        nb = int(rng.integers(1, 5))
        n = bs * nb
        M = _well_system(rng, n, cplx)
        A = gen.int32csr(sp.csr_array(M))
        b = gen.rand_vec(rng, n, cplx).astype(dt)
        x0 = gen.rand_vec(rng, n, cplx).astype(dt)
        om = float(rng.choice([1.0, 0.5, 1.3]))
        iters = int(rng.integers(1, 3))
        sweep = str(rng.choice(['forward', 'backward', 'symmetric']))
        method = ['bsr_gs', 'bsr_jacobi', 'block_jacobi', 'block_gauss_seidel', 'jacobi_ne', 'gauss_seidel_ne',
                  'gauss_seidel_nr', 'polynomial', 'schwarz', 'fixed_point', 'cf_block_jacobi', 'float32'][t % 12]
        case = {'method': method, 'n': n, 'bs': bs, 'complex': cplx, 'M': M.tolist() if not cplx else [[[v.real, v.imag] for v in r] for r in M],
                'b': b.tolist(), 'x': x0.tolist(), 'omega': om, 'iterations': iters, 'sweep': sweep}
        key = (method, sweep, bs, cplx, om != 1, iters)
        ctx.case(key=hashlib.sha1(repr((key, M.tobytes(), b.tobytes(), x0.tobytes())).encode()).hexdigest(), nontrivial=n >= 2,
                 sample={'method': method, 'n': n, 'bs': bs, 'sweep': sweep, 'omega': om, 'iterations': iters} if t < 3 else None)
        ctx.feat('search:' + method)
        D = M.astype(dt)
        x = x0.copy()
        hA, hb = _h(A.data), _h(b)
        fwd, bwd = list(range(n)), list(range(n - 1, -1, -1))

        def fail(msg, ref=None):
            ctx.violation(f'{method}: {msg}' + (f' expected {np.asarray(ref).tolist()} got {x.tolist()}' if ref is not None else ''),
                          {'kind': 'search', **case})

        try:
            if method == 'bsr_gs':
                Ab = A.tobsr(blocksize=(bs, bs))
                R.gauss_seidel(Ab, x, b, iterations=iters, sweep=sweep, omega=om)
                ref = x0.copy()
                for _ in range(iters):
                    if sweep in ('forward', 'symmetric'):
                        ref = _dense_gs(D, ref, b, fwd, om)
                    if sweep in ('backward', 'symmetric'):
                        ref = _dense_gs(D, ref, b, bwd, om)
                xc = x0.copy()
                R.gauss_seidel(A, xc, b, iterations=iters, sweep=sweep, omega=om)
                if not np.allclose(x, ref, rtol=1e-9, atol=1e-9):
                    fail('BSR Gauss-Seidel differs from the point-wise splitting update', ref)
                elif not np.allclose(x, xc, rtol=1e-9, atol=1e-9):
                    fail('CSR and BSR storage give different results', xc)
            elif method == 'bsr_jacobi':
                Ab = A.tobsr(blocksize=(bs, bs))
                R.jacobi(Ab, x, b, iterations=iters, omega=om)
                ref = x0.copy()
                for _ in range(iters):
                    ref = _dense_jac(D, ref, b, fwd, om)
                if not np.allclose(x, ref, rtol=1e-9, atol=1e-9):
                    fail('BSR Jacobi differs from x + omega D^-1 (b - A x)', ref)
            elif method in ('block_jacobi', 'cf_block_jacobi'):
                Dinv = np.array([np.linalg.inv(D[k * bs:(k + 1) * bs, k * bs:(k + 1) * bs]) for k in range(nb)])
                if method == 'block_jacobi':
                    R.block_jacobi(A, x, b, blocksize=bs, iterations=iters, omega=om)
                    ref = x0.copy()
                    for _ in range(iters):
                        r = b - D @ ref
                        ref = ref + om * np.concatenate([Dinv[k] @ r[k * bs:(k + 1) * bs] for k in range(nb)])
                else:
                    perm = rng.permutation(nb)
                    k0 = int(rng.integers(0, nb + 1))
                    C, F = np.sort(perm[:k0]).astype(np.int32), np.sort(perm[k0:]).astype(np.int32)
                    case['Cpts'], case['Fpts'] = C.tolist(), F.tolist()
                    R.cf_block_jacobi(A, x, b, C, F, blocksize=bs, iterations=iters, omega=om)
                    ref = x0.copy()
                    for _ in range(iters):
                        for pts in (C, F):
                            r = b - D @ ref
                            new = ref.copy()
                            for k in pts:
                                new[k * bs:(k + 1) * bs] = ref[k * bs:(k + 1) * bs] + om * (Dinv[k] @ r[k * bs:(k + 1) * bs])
                            ref = new
                if not np.allclose(x, ref, rtol=1e-8, atol=1e-8):
                    fail('block Jacobi differs from x + omega D_block^-1 (b - A x)', ref)
            elif method == 'block_gauss_seidel':
                R.block_gauss_seidel(A, x, b, iterations=iters, sweep=sweep, blocksize=bs)
                ref = x0.copy()

                def bgs(ref, order):
                    for k in order:
                        sl = slice(k * bs, (k + 1) * bs)
                        r = b[sl] - D[sl] @ ref + D[sl, sl] @ ref[sl]
                        ref[sl] = np.linalg.solve(D[sl, sl], r)
                    return ref
                for _ in range(iters):
                    if sweep in ('forward', 'symmetric'):
                        ref = bgs(ref, range(nb))
                    if sweep in ('backward', 'symmetric'):
                        ref = bgs(ref, range(nb - 1, -1, -1))
                if not np.allclose(x, ref, rtol=1e-8, atol=1e-8):
                    fail('block Gauss-Seidel differs from its block splitting update', ref)
            elif method == 'jacobi_ne':
                R.jacobi_ne(A, x, b, iterations=iters, omega=om)
                ref = x0.copy()
                dd = np.sum(np.abs(D) ** 2, axis=1)
                for _ in range(iters):
                    ref = ref + om * (D.conj().T @ ((b - D @ ref) / dd))
                if not np.allclose(x, ref, rtol=1e-9, atol=1e-9):
                    fail('jacobi_ne differs from x + omega A^H diag(A A^H)^-1 (b - A x)', ref)
            elif method == 'gauss_seidel_ne':
                R.gauss_seidel_ne(A, x, b, iterations=iters, sweep=sweep, omega=om)
                ref = x0.copy()
                dd = np.sum(np.abs(D) ** 2, axis=1)

                def kz(ref, order):
                    for i in order:
                        ref = ref + om * ((b[i] - D[i] @ ref) / dd[i]) * D[i].conj()
                    return ref
                for _ in range(iters):
                    if sweep in ('forward', 'symmetric'):
                        ref = kz(ref, fwd)
                    if sweep in ('backward', 'symmetric'):
                        ref = kz(ref, bwd)
                if not np.allclose(x, ref, rtol=1e-9, atol=1e-9):
                    fail('gauss_seidel_ne differs from the Kaczmarz row projections', ref)
            elif method == 'gauss_seidel_nr':
                R.gauss_seidel_nr(A, x, b, iterations=iters, sweep=sweep, omega=om)
                ref = x0.copy()
                dd = np.sum(np.abs(D) ** 2, axis=0)

                def nr(ref, order):
                    for i in order:
                        ref = ref.copy()
                        ref[i] += om * (D[:, i].conj() @ (b - D @ ref)) / dd[i]
                    return ref
                for _ in range(iters):
                    if sweep in ('forward', 'symmetric'):
                        ref = nr(ref, fwd)
                    if sweep in ('backward', 'symmetric'):
                        ref = nr(ref, bwd)
                if not np.allclose(x, ref, rtol=1e-9, atol=1e-9):
                    fail('gauss_seidel_nr differs from the column projections on the normal equations', ref)
            elif method == 'polynomial':
                coeffs = rng.choice([-0.25, 0.5, 0.125, 1.0, -0.5], size=int(rng.integers(1, 4))).tolist()
                case['coefficients'] = coeffs
                if t % 24 == 7:
                    x = np.zeros(n, dtype=dt)
                    x0 = x.copy()
                    case['x'] = x0.tolist()
                R.polynomial(A, x, b, coeffs, iterations=iters)
                ref = x0.copy()
                for _ in range(iters):
                    r = b - D @ ref
                    h = np.zeros(n, dtype=dt)
                    for c in coeffs:           # Horner: p(A) r, coefficients in descending order
                        h = D @ h + c * r
                    ref = ref + h
                if not np.allclose(x, ref, rtol=1e-9, atol=1e-9):
                    fail('polynomial differs from x + p(A)(b - A x)', ref)
            elif method == 'schwarz':
                # symmetric pattern required for the default subdomains (one per row: the row's pattern)
                Ms = M + M.conj().T
                Ms[np.arange(n), np.arange(n)] = np.abs(Ms).sum(1) + 1
                As = gen.int32csr(sp.csr_array(Ms))
                case['M'] = Ms.tolist() if not cplx else [[[v.real, v.imag] for v in r] for r in Ms]
                Ds = Ms.astype(dt)
                R.schwarz(As, x, b, iterations=iters, sweep=sweep)
                ref = x0.copy()
                subs = [np.sort(As.indices[As.indptr[i]:As.indptr[i + 1]]) for i in range(n)]

                def sch(ref, order):
                    for s in order:
                        idx = subs[s]
                        r = b - Ds @ ref
                        ref = ref.copy()
                        ref[idx] += np.linalg.solve(Ds[np.ix_(idx, idx)], r[idx])
                    return ref
                for _ in range(iters):
                    if sweep in ('forward', 'symmetric'):
                        ref = sch(ref, range(n))
                    if sweep in ('backward', 'symmetric'):
                        ref = sch(ref, range(n - 1, -1, -1))
                if not np.allclose(x, ref, rtol=1e-7, atol=1e-7):
                    fail('schwarz differs from successive exact subdomain solves', ref)
            elif method == 'fixed_point':
                xs = gen.rand_vec(rng, n, cplx).astype(dt)
                bb = D @ xs
                case['x'], case['b'] = xs.tolist(), bb.tolist()
                for nm, call in [('gauss_seidel', lambda v: R.gauss_seidel(A, v, bb, iterations=iters, sweep=sweep, omega=om)),
                                 ('jacobi', lambda v: R.jacobi(A, v, bb, iterations=iters, omega=om)),
                                 ('block_jacobi', lambda v: R.block_jacobi(A, v, bb, blocksize=bs, iterations=iters, omega=om)),
                                 ('block_gauss_seidel', lambda v: R.block_gauss_seidel(A, v, bb, iterations=iters, sweep=sweep, blocksize=bs)),
                                 ('jacobi_ne', lambda v: R.jacobi_ne(A, v, bb, iterations=iters, omega=om)),
                                 ('gauss_seidel_ne', lambda v: R.gauss_seidel_ne(A, v, bb, iterations=iters, sweep=sweep, omega=om)),
                                 ('gauss_seidel_nr', lambda v: R.gauss_seidel_nr(A, v, bb, iterations=iters, sweep=sweep, omega=om))]:
                    v = xs.copy()
                    call(v)
                    if not np.allclose(v, xs, rtol=1e-9, atol=1e-9):
                        x = v
                        fail(f'the exact solution is not a fixed point of {nm}', xs)
            elif method == 'float32':
                A32 = gen.int32csr(sp.csr_array(M.real.astype(np.float32)))
                D32 = M.real.astype(np.float64)
                x = x0.real.astype(np.float32)
                b32 = b.real.astype(np.float32)
                R.gauss_seidel(A32, x, b32, iterations=iters, sweep=sweep, omega=om)
                ref = x0.real.astype(np.float64)
                for _ in range(iters):
                    if sweep in ('forward', 'symmetric'):
                        ref = _dense_gs(D32, ref, b.real, fwd, om)
                    if sweep in ('backward', 'symmetric'):
                        ref = _dense_gs(D32, ref, b.real, bwd, om)
                if x.dtype != np.float32 or not np.allclose(x, ref, rtol=2e-4, atol=2e-4):
                    fail('single-precision Gauss-Seidel differs from the splitting update', ref)
        except Exception as e:   # a public relaxation call must not raise on a valid system
            fail(f'raised {type(e).__name__}: {e}')
        if _h(A.data) != hA or _h(b) != hb:
            fail('the matrix or the right-hand side was modified')


def run(ctx):
    part_a(ctx, ctx.scale(1200, 24000))
    part_b(ctx, ctx.scale(420, 8400))
    part_c(ctx, ctx.scale(360, 7200))


def search(ctx):
    part_c(ctx, 1500)
    part_b(ctx, 1500)


def replay(ctx, data):
    case = data['case']
    print('replaying', case.get('kind'), {k: case[k] for k in case if k not in ('M', 'data', 'indices', 'indptr')})
    if case.get('kind') == 'public':
        from pyamg.relaxation import relaxation as R
        n = case['n']
        cplx = case['complex']
        dt = complex if cplx else float
        dat = np.array([complex(v['re'], v['im']) if isinstance(v, dict) else v for v in case['data']], dtype=dt)
        A = gen.csr_from_arrays(n, case['indptr'], case['indices'], dat)
        tov = lambda l: np.array([complex(v['re'], v['im']) if isinstance(v, dict) else v for v in l], dtype=dt)
        x, b = tov(case['x']), tov(case['b'])
        case = dict(case, data=dat, x=x.tolist(), b=b.tolist())
        fn = case['fn']
        kw = {'iterations': case['iterations']}
        if fn in ('gauss_seidel', 'sor', 'gauss_seidel_indexed'):
            kw['sweep'] = case['sweep']
        if fn == 'gauss_seidel':
            R.gauss_seidel(A, x, b, omega=case['omega'], **kw)
        elif fn == 'sor':
            R.sor(A, x, b, case['omega'], **kw)
        elif fn == 'jacobi':
            R.jacobi(A, x, b, omega=case['omega'], **kw)
        else:
            print('replay of', fn, 'not implemented; see the case description')
            return
        judge_public(ctx, case, x)
        print('result', x.tolist(), 'reference', dense_reference(case).tolist())
    else:
        print('see the case description in the replay file (what/detail) to reproduce by hand')
