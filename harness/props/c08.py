"""C08 -- accelerated and black-box solves reach the requested tolerance honestly.

correspondence : the `accel` branch of MultilevelSolver.solve and the dispatch of pyamg.blackbox.solve vs the Lean
                 decision models (Model/C08Accel.lean: plan, scipyHistory, bbPlan, nativeSolve).  Recording
                 accelerators -- callables of both calling conventions, and recorders installed in place of the
                 functions of pyamg.krylov / scipy.sparse.linalg (same signatures) -- capture what `solve` really
                 passes (tol/rtol/atol, maxiter, x0, callback, residuals, M); `M @ v` is compared with an
                 independent one-cycle of the requested type; the name tables of the model are compared with the
                 installed modules.  Exact (strings / dyadic rationals); vectors with tolerance 1e-10.
                 (E42) `ext_py2_call multilevel_solve` / `blackbox_solver_configuration` = the Lean definitions GENERATED
                 by harness/py2lean2.py from the Python AST of MultilevelSolver.solve / solver_configuration on every run
                 vs the real functions executed against mock objects (harness/extpy2.py): result, exception class and the
                 whole trace (every call with all keyword arguments, in order) exact; Props/C08.lean links the generated
                 accel branch to `C08.plan` (`generated_accel_refines_plan_*`) and the configuration to its specification
                 (`generated_config_*`).
search         : real accelerated solves (all native accelerators, SciPy ones by name and as callables) on
                 hierarchies from every constructor: status 0 => recomputed residual meets the accelerator's rule,
                 history = initial residual + one entry per callback with the right values, identical to the
                 direct call of the accelerator with an independently built one-cycle preconditioner, options do
                 not change the iterate; pyamg.solve on SPD / Hermitian / nonsymmetric M-matrix families in all
                 accepted formats, with and without a reused solver: shape and (preconditioned) relative residual.
"""
import contextlib
import functools
import hashlib
import inspect
import io
import warnings

import numpy as np
import scipy.sparse as sp
import scipy.sparse.linalg as sla

from common import enc_rat, enc_rats, enc_ints, dec_list, dec_rat

META = {
    'rule': 'part A (wiring): 12 hierarchies (smoothed aggregation Hermitian / nonsymmetric / non-symmetric smoothing / Jacobi, '
            'Ruge-Stuben, root-node, AIR, pairwise, hand-built MultilevelSolver, one level; 1..6 levels) x cycle in {V,W,F,AMLI} in '
            'both letter cases x accel in {11 native names, 6 SciPy names, an unknown name, 4 kinds of recording callables: PyAMG '
            'convention, SciPy convention with / without atol, signature not inspectable} x tol x maxiter x x0 x callback x '
            'residuals (list with stale content) x return_info x column-shaped b or x0; the recording accelerators emit vectors, '
            'one array mutated in place, and scalars; non-trivial = the reference V, W and F cycles of the hierarchy differ '
            'pairwise on the probe vector; distinct = distinct request line.  part B (real solves): matrices n = 32..150 (Poisson '
            '1D/2D, rotated anisotropic diffusion, random SPD graph Laplacians, complex Hermitian positive definite, upwind '
            'convection-diffusion, random nonsymmetric diagonally dominant M-matrices, BSR elasticity) x all 12 constructor '
            'variants in rotation x accelerator (11 native names, 5 native functions as callables, 5 SciPy names, 3 SciPy '
            'callables) x cycle x tol in {0.3, 1e-3, 1e-5, 1e-8, 1e-10} x maxiter in 1..40 x x0 (none / random / almost exact) x '
            'zero right-hand side x column shapes; non-trivial = the accelerator made at least one iteration.  part C (black '
            'box): the same families at n = 32..150 (one level) and n = 520..900 (multilevel), formats csr/bsr/csc/coo/dense/lil/'
            'csr_matrix, b of shape (n,) and (n,1), tol in {1e-3, 1e-5, 1e-8, 1e-10}, x0 given or random, fresh solver / solver '
            'returned by an earlier call / solver built by pyamg.solver with a small coarse grid; non-trivial = the solver has more '
            'than one level or was reused',
    'search_only': ['the black-box solve reaches tol (relative residual for Hermitian positive definite input, preconditioned '
                    'relative residual for nonsymmetric M-matrices): a convergence statement, searched on the stated families',
                    'SciPy accelerators: "status 0 => recomputed residual <= rtol*||b||" is searched (cg, cgs, bicgstab, gmres, '
                    'gcrotmk, lgmres); tfqmr and minres stop on internal estimates and are judged by identity with the direct '
                    'SciPy call (same iterate, status and iteration count)',
                    'native accelerators: the arithmetic of the Krylov recurrences is not in the C08 model (C06/C07); the check '
                    'replays the control skeleton (theorem honest_native) on the observed residual history, recomputes the rule '
                    'on the returned iterate and the residual measure of every iterate handed to the callback',
                    'options (callback / residuals / return_info absent) do not change the iterate'],
    'partial': ['generated_accel_refines_plan_names / _cycles (E42): the refinement of C08.plan by the generated solve is proved on two '
                'finite grids of requests (all names of both tables + an unknown name + the 4 callable conventions x all 32 Boolean '
                'option combinations; 6 cycle spellings x 4 symmetry attributes x one accelerator per behaviour class) for ALL tol / '
                'maxiter / info / residual norm, by kernel evaluation; arbitrary cycle / accelerator STRINGS outside the grids are '
                'covered by the comparison with the real function only',
                'generated_cycle_F_visits_grid_5x3 (E57): that the F-cycle of the __solve GENERATED from the working tree forwards cycles_per_level to the F visit of the next level and follows it by that many V-cycles (visits = C03.traceM .F k) is proved on a FINITE grid only (2..6 levels x cycles_per_level 1..3, kernel evaluation on a mock hierarchy); other depths / values are covered by the exact comparison of the generated definition with the real method only (part_pylogic3)'],
    'trusted_extra': ['harness/py2lean3_cycle.py + lean/PyamgV/Model/ExtPy3CycRt.lean + harness/extpy3_cycle.py (E57: the translation of MultilevelSolver.__solve, recursion as a call of the generated definition under the assumption that self.__solve is this very method, tuple subscripts; mock hierarchies): exercised on every run by the exact comparison (result, exception class, whole trace) with the REAL method (op ext_py3c_call)', 'harness/py2lean2.py (Python-AST -> Lean translator, second mode: whole functions with the numerical work abstracted; nested defs as closure values, try/except, keyword calls), lean/PyamgV/Model/ExtPy2Rt.lean (+ ExtPyRt.lean: CPython semantics on the PyVal universe and the event semantics of opaque objects) and harness/extpy2.py (mock objects implementing the same event semantics in Python): exercised on every run by the exact comparison (result, exception class, whole trace) of the generated definitions with the REAL functions executed against the mocks (op ext_py2_call)'],
    'assumptions': ['floating point: a recomputed residual norm is compared with the stopping threshold with a relative slack of '
                    '1e-6 plus 5e-15 * (initial residual + ||A||_1 ||x|| + ||b||) (recurrence residuals drift from true residuals); '
                    'decisions within 1e-9 (1e-7 for the comparison with the direct call) of the threshold are skipped and counted',
                    'accelerators are restricted to those that take M= and need only M.matvec (scipy bicg needs M.rmatvec, qmr takes '
                    'M1/M2: both raise inside SciPy); SciPy\'s legacy gmres callback changes the meaning of maxiter, so the '
                    '"options do not change the iterate" comparison is not made for it',
                    'the reference cycle (V/W/F) is an independent Python transcription over the levels\' smoothers, R, P and the '
                    'coarse solver; AMLI is compared with solve(v, maxiter=1, cycle="AMLI") of the same object',
                    'the name tables of the model (pyamg.krylov / scipy.sparse.linalg solver functions and whether their signature '
                    'has atol) are facts about the installed packages, compared with hasattr / inspect.signature on every run'],
}

RR = ('cg', 'cr', 'cgnr', 'cgne', 'bicgstab', 'steepest_descent', 'fgmres')          # ||r|| < tol ||b||
MR = ('gmres', 'gmres_mgs', 'gmres_householder', 'minimal_residual')                  # ||M r|| < tol ||M b||
NATIVE = RR + MR
SCIPY_NAMES = ('cgs', 'gcrotmk', 'lgmres', 'tfqmr', 'minres')                         # reachable by name (not shadowed)
SCIPY_TRUE_RES = ('cg', 'cgs', 'bicgstab', 'gmres', 'gcrotmk', 'lgmres')              # info 0 => ||r|| <= rtol ||b||
SCIPY_CALLABLES = {'sla.cg': sla.cg, 'sla.bicgstab': sla.bicgstab, 'sla.gmres': sla.gmres}
NATIVE_CALLABLES = ('krylov.cg', 'krylov.fgmres', 'krylov.gmres', 'krylov.bicgstab', 'krylov.cgnr')    # the functions themselves


def get_callable(name):
    if name in SCIPY_CALLABLES:
        return SCIPY_CALLABLES[name]
    from pyamg import krylov
    return getattr(krylov, name.split('.')[1])


def _key(*a):
    return hashlib.sha1(repr(a).encode()).hexdigest()


def i32(A):
    A = A.copy()
    A.indptr = A.indptr.astype(np.int32)
    A.indices = A.indices.astype(np.int32)
    return A


def pnorm(x):
    from pyamg.util.linalg import norm
    return float(norm(np.ravel(x)))


# ------------------------------------------------------------------------------------------------
# matrices and hierarchies (everything reproducible from (name, seed))
# ------------------------------------------------------------------------------------------------

MATS_SMALL = ['poisson1d', 'poisson2d', 'aniso', 'graphlap', 'herm', 'convdiff', 'nsm', 'elas']


def build_matrix(name, seed, big=False):
    """-> (A csr/bsr with int32 indices, kind in {'spd','herm','nonsym'})"""
    from pyamg.gallery import poisson, stencil_grid, linear_elasticity
    from pyamg.gallery.diffusion import diffusion_stencil_2d
    rng = np.random.default_rng(seed)
    if name == 'poisson1d':
        n = int(rng.integers(520, 800)) if big else int(rng.integers(40, 90))
        return i32(poisson((n,), format='csr')), 'spd'
    if name == 'poisson2d':
        a, b = (int(rng.integers(23, 30)), int(rng.integers(23, 30))) if big else (int(rng.integers(7, 12)), int(rng.integers(7, 12)))
        return i32(poisson((a, b), format='csr')), 'spd'
    if name == 'aniso':
        eps = float(rng.choice([0.5, 0.1, 0.02]))
        theta = float(rng.uniform(0, np.pi / 2))
        g = int(rng.integers(23, 29)) if big else int(rng.integers(8, 12))
        st = diffusion_stencil_2d(epsilon=eps, theta=theta, type='FE')
        return i32(sp.csr_array(stencil_grid(st, (g, g), format='csr'))), 'spd'
    if name == 'graphlap':
        n = int(rng.integers(520, 700)) if big else int(rng.integers(50, 110))
        W = sp.random(n, n, (3.0 if big else 4.0) / n, random_state=rng, format='csr')
        W = W + W.T
        d = np.asarray(W.sum(1)).ravel() + rng.uniform(0.05, 0.5, size=n)
        return i32(sp.csr_array(sp.diags(d) - W)), 'spd'
    if name == 'herm':
        g = (24, 23) if big else (int(rng.integers(6, 10)), int(rng.integers(6, 10)))
        A = poisson(g, format='csr').astype(complex)
        n = A.shape[0]
        S = sp.triu(sp.random(n, n, 3.0 / n, random_state=rng), 1)
        K = 0.3j * (S - S.T)          # Hermitian; its absolute row sums on the diagonal keep A positive definite
        A = A + K + sp.diags(np.asarray(abs(K).sum(1)).ravel())
        return i32(sp.csr_array(A)), 'herm'
    if name == 'convdiff':
        g = int(rng.integers(23, 28)) if big else int(rng.integers(8, 12))
        cx, cy = float(rng.uniform(0, 2)), float(rng.uniform(0, 2))
        st = np.array([[0, -1.0, 0], [-1.0 - cx, 4 + cx + cy, -1.0], [0, -1.0 - cy, 0]])
        return i32(sp.csr_array(stencil_grid(st, (g, g), format='csr'))), 'nonsym'
    if name == 'nsm':
        n = int(rng.integers(520, 700)) if big else int(rng.integers(50, 110))
        W = sp.random(n, n, (4.0 if big else 5.0) / n, random_state=rng, format='csr')
        W.setdiag(0)
        W.eliminate_zeros()
        d = np.maximum(np.asarray(W.sum(1)).ravel(), np.asarray(W.sum(0)).ravel()) + rng.uniform(0.05, 0.5, size=n)
        return i32(sp.csr_array(sp.diags(d) - W)), 'nonsym'
    if name == 'elas':
        g = int(rng.integers(4, 7))
        A, _ = linear_elasticity((g, g))
        return i32(A), 'spd'          # BSR, blocksize 2
    raise ValueError(name)


CTORS = ['rs', 'sa', 'sa_asym', 'sa_jacobi', 'sa_nonsym', 'sa_bsr', 'rootnode', 'pairwise', 'air', 'adaptive', 'onelevel', 'manual']


APPLIES = {
    'rs': ['poisson2d', 'convdiff', 'aniso', 'nsm', 'poisson1d', 'graphlap'],
    'sa': ['poisson2d', 'herm', 'aniso', 'graphlap', 'poisson1d'],
    'sa_asym': ['aniso', 'convdiff', 'herm', 'poisson2d'],
    'sa_jacobi': ['poisson1d', 'herm', 'graphlap', 'poisson2d'],
    'sa_nonsym': ['convdiff', 'nsm'],
    'sa_bsr': ['elas'],
    'rootnode': ['poisson2d', 'nsm', 'herm', 'convdiff', 'aniso'],
    'pairwise': ['poisson2d', 'convdiff', 'graphlap', 'poisson1d'],
    'air': ['convdiff', 'poisson2d', 'nsm', 'poisson1d'],
    'adaptive': ['poisson2d', 'graphlap', 'aniso'],
    'onelevel': ['poisson2d', 'nsm', 'graphlap'],
    'manual': ['poisson1d', 'convdiff', 'herm'],
}


def build_hier(ctor, A, kind, seed):
    """-> MultilevelSolver or None when the constructor does not apply to this matrix"""
    import pyamg
    from pyamg.multilevel import MultilevelSolver
    from pyamg.relaxation.smoothing import change_smoothers
    rng = np.random.default_rng(seed)
    A = A.copy()
    cplx = np.iscomplexobj(A.data)
    bsr = A.format == 'bsr'
    sym = 'nonsymmetric' if kind == 'nonsym' else 'hermitian'
    mc = int(rng.choice([4, 8, 12]))
    with warnings.catch_warnings():
        warnings.simplefilter('ignore')
        if ctor == 'rs':
            if cplx or bsr:
                return None
            return pyamg.ruge_stuben_solver(A, max_coarse=mc)
        if ctor in ('sa', 'sa_asym', 'sa_jacobi', 'sa_nonsym', 'sa_bsr'):
            if (ctor == 'sa_bsr') != bsr:
                return None
            if ctor == 'sa_nonsym' and kind != 'nonsym':
                return None
            if ctor != 'sa_nonsym' and kind == 'nonsym' and ctor != 'sa_asym':
                return None
            kw = {}
            if ctor == 'sa_asym':
                kw = {'presmoother': ('gauss_seidel', {'sweep': 'forward'}), 'postsmoother': ('gauss_seidel', {'sweep': 'forward'})}
            elif ctor == 'sa_jacobi':
                kw = {'presmoother': ('jacobi', {'omega': 2.0 / 3.0}), 'postsmoother': ('jacobi', {'omega': 2.0 / 3.0})}
            elif ctor == 'sa_nonsym':
                kw = {'presmoother': ('gauss_seidel_nr', {'sweep': 'symmetric'}), 'postsmoother': ('gauss_seidel_nr', {'sweep': 'symmetric'})}
            return pyamg.smoothed_aggregation_solver(A, symmetry=sym, max_coarse=mc, **kw)
        if ctor == 'rootnode':
            if bsr:
                return None
            return pyamg.rootnode_solver(A, symmetry=sym, max_coarse=mc)
        if ctor == 'pairwise':
            if cplx or bsr:
                return None
            return pyamg.pairwise_solver(A, max_coarse=mc)
        if ctor == 'air':
            if cplx or bsr:
                return None
            return pyamg.air_solver(A, max_coarse=mc)
        if ctor == 'adaptive':
            if kind != 'spd' or bsr:
                return None
            from pyamg.aggregation import adaptive_sa_solver
            np.random.seed(int(rng.integers(2**31)))
            return adaptive_sa_solver(A, num_candidates=1, max_coarse=mc)[0]
        if ctor == 'onelevel':
            if cplx or bsr:
                return None
            return pyamg.ruge_stuben_solver(A, max_coarse=10 ** 5)
        if ctor == 'manual':
            if bsr:
                return None
            lv = MultilevelSolver.Level
            levels = [lv()]
            levels[0].A = A
            cur = A
            for _ in range(3):
                m = cur.shape[0]
                if m < 8:
                    break
                P = i32(sp.csr_array((np.ones(m, dtype=A.dtype), (np.arange(m), np.arange(m) // 2)), shape=(m, (m + 1) // 2)))
                levels[-1].P = P
                levels[-1].R = i32(sp.csr_array(P.T.conj()))
                cur = i32(sp.csr_array(levels[-1].R @ cur @ P))
                levels.append(lv())
                levels[-1].A = cur
            ml = MultilevelSolver(levels, coarse_solver='pinv')
            change_smoothers(ml, presmoother=('gauss_seidel', {'sweep': 'forward'}), postsmoother=('gauss_seidel', {'sweep': 'backward'}))
            return ml
    raise ValueError(ctor)


def _ref(ml, lvl, x, b, cycle):
    """independent transcription of one multigrid cycle (V/W/F, cycles_per_level = 1)"""
    L = ml.levels[lvl]
    A = L.A
    L.presmoother(A, x, b)
    cb = L.R @ (b - A @ x)
    cx = np.zeros_like(cb)
    if lvl == len(ml.levels) - 2:
        cx[:] = ml.coarse_solver(ml.levels[-1].A, cb)
    elif cycle == 'V':
        _ref(ml, lvl + 1, cx, cb, 'V')
    elif cycle == 'W':
        _ref(ml, lvl + 1, cx, cb, 'W')
        _ref(ml, lvl + 1, cx, cb, 'W')
    elif cycle == 'F':
        _ref(ml, lvl + 1, cx, cb, 'F')
        _ref(ml, lvl + 1, cx, cb, 'V')
    else:
        raise ValueError(cycle)
    x += L.P @ cx
    L.postsmoother(A, x, b)


def ref_precond(ml, v, cycle):
    """one cycle of type `cycle` from a zero start vector, computed without aspreconditioner / solve"""
    A0 = ml.levels[0].A
    tp = np.result_type(v.dtype, A0.dtype, np.float64)
    b = np.ravel(v).astype(tp)
    if cycle == 'AMLI':
        return np.ravel(ml.solve(b, maxiter=1, cycle='AMLI'))
    if len(ml.levels) == 1:
        return np.ravel(ml.coarse_solver(A0, b))
    x = np.zeros_like(b)
    _ref(ml, 0, x, b, cycle)
    return x


def ref_operator(ml, cycle):
    A0 = ml.levels[0].A
    return sla.LinearOperator(A0.shape, matvec=lambda v: ref_precond(ml, np.asarray(v), cycle), dtype=A0.dtype)


def close(a, b, tol=1e-10):
    a, b = np.ravel(np.asarray(a)), np.ravel(np.asarray(b))
    if a.shape != b.shape or not (np.isfinite(a).all() and np.isfinite(b).all()):
        return False
    return bool(np.linalg.norm(a - b) <= tol * (1e-300 + max(np.linalg.norm(a), np.linalg.norm(b))))


def rand_vec(rng, n, cplx):
    v = rng.standard_normal(n)
    if cplx:
        v = v + 1j * rng.standard_normal(n)
    return v


# ------------------------------------------------------------------------------------------------
# part A: wiring (recording accelerators) vs C08.plan / C08.scipyHistory
# ------------------------------------------------------------------------------------------------

def _sig_pyamg(A, b, x0=None, tol=1e-5, maxiter=None, M=None, callback=None, residuals=None):
    pass


def _sig_scipy1(A, b, x0=None, *, rtol=1e-5, atol=0.0, maxiter=None, M=None, callback=None):
    pass


def _sig_scipy0(A, b, x0=None, *, rtol=1e-5, shift=0.0, maxiter=None, M=None, callback=None):
    pass


class Recorder:
    """a callable that records how it is called, rejects (TypeError) what the signature `sig` rejects, and then plays a
    script: PyAMG convention -> writes `script_res` into the list it is given and calls the callback with the vector
    events; SciPy convention -> calls the callback with every event (vectors, possibly one array mutated in place, and
    scalars)."""

    def __init__(self, sig, pyamg_style, events, xret, info, probe, caller_list, script_res, opaque=False):
        self.sig, self.pyamg_style, self.events, self.xret, self.info = sig, pyamg_style, events, xret, info
        self.probe, self.caller_list, self.script_res, self.opaque = probe, caller_list, script_res, opaque
        self.calls = []

    def __call__(self, *a, **k):
        rec = {'nargs': len(a), 'kw': dict(k), 'rejected': False}
        self.calls.append(rec)
        if self.opaque:
            if 'tol' in k or 'residuals' in k:
                rec['rejected'] = True
                raise TypeError("unexpected keyword argument 'tol'")
        else:
            try:
                self.sig.bind(*a, **k)
            except TypeError:
                rec['rejected'] = True
                raise
        rec['A'], rec['b'] = (a[0], a[1]) if len(a) >= 2 else (None, None)
        M = k.get('M')
        rec['Mshape'] = getattr(M, 'shape', None)
        rec['Mv'] = None if M is None else np.array(M @ self.probe)
        rec['list_at_entry'] = None if self.caller_list is None else list(self.caller_list)
        cb = k.get('callback')
        if self.pyamg_style:
            if k.get('residuals') is not None:
                k['residuals'][:] = list(self.script_res)
            for kind, v in self.events:
                if kind == 'v' and cb is not None:
                    cb(v)
        else:
            buf = None
            for kind, v in self.events:
                if cb is None:
                    continue
                if kind == 'v':
                    cb(v)
                elif kind == 'm':            # the same array object mutated in place, as real solvers do
                    if buf is None:
                        buf = np.array(v)
                    else:
                        buf[:] = v
                    cb(buf)
                else:
                    cb(v)
        return self.xret, self.info


def make_recorder(kind, real=None, **kw):
    """kind: 'pyamg' | 'scipy1' | 'scipy0' | 'scipyx' (signature not inspectable) | 'real' (signature of `real`)"""
    if kind == 'real':
        sig = inspect.signature(real)
        style = 'tol' in sig.parameters
        r = Recorder(sig, style, **kw)
        functools.update_wrapper(r, real)          # same name / signature (inspect follows __wrapped__)
        return r
    if kind == 'scipyx':
        r = Recorder(None, False, opaque=True, **kw)
        r.__signature__ = 42                       # inspect.signature raises TypeError
        return r
    f = {'pyamg': _sig_pyamg, 'scipy1': _sig_scipy1, 'scipy0': _sig_scipy0}[kind]
    r = Recorder(inspect.signature(f), kind == 'pyamg', **kw)
    r.__signature__ = inspect.signature(f)
    return r


class patched:
    """temporarily replace attributes of modules"""

    def __init__(self, items):
        self.items = items

    def __enter__(self):
        self.old = [(m, n, getattr(m, n)) for m, n, _ in self.items]
        for m, n, v in self.items:
            setattr(m, n, v)

    def __exit__(self, *a):
        for m, n, v in self.old:
            setattr(m, n, v)


def wiring_pool(ctx):
    """hierarchies for part A: (label, ml, cplx, refs) with >= 3 levels where possible"""
    pool = []
    specs = [('poisson2d', 'sa'), ('poisson2d', 'rs'), ('convdiff', 'sa_nonsym'), ('aniso', 'sa_asym'), ('herm', 'sa'),
             ('graphlap', 'rootnode'), ('poisson1d', 'manual'), ('poisson2d', 'onelevel'), ('poisson2d', 'air'),
             ('poisson1d', 'pairwise'), ('poisson1d', 'rs'), ('poisson1d', 'sa_jacobi')]
    for mname, ctor in specs:
        ms, cs = int(ctx.np_rng.integers(2**31)), int(ctx.np_rng.integers(2**31))
        A, kind = build_matrix(mname, ms)
        ml = build_hier(ctor, A, kind, cs)
        if ml is None:
            continue
        pool.append({'matrix': mname, 'mseed': ms, 'ctor': ctor, 'cseed': cs, 'ml': ml, 'kind': kind})
    return pool


A_ACCELS = ([('n', a) for a in NATIVE] + [('n', a) for a in SCIPY_NAMES + ('bicg',)] + [('n', 'no_such_solver')] +
            [('f', 'pyamg'), ('f', 'scipy1'), ('f', 'scipy0'), ('f', 'scipyx')])
A_CYCLES = ['V', 'W', 'F', 'AMLI', 'v', 'w', 'f', 'amli', 'Amli', 'f']
A_TOLS = [1e-5, 1e-8, 0.5, 1e-3, 0.0, 2.0 ** -20, 1e-12]
A_MAXITERS = [1, 2, 3, 7, 100]


def wiring_case(ctx, spec, ml=None):
    """run one recorded `solve` call described by `spec`; returns (request line, observed string, extra) and records
    property violations found by the direct assertions"""
    from pyamg import krylov
    if ml is None:
        A, kind = build_matrix(spec['matrix'], spec['mseed'])
        ml = build_hier(spec['ctor'], A, kind, spec['cseed'])
    A0 = ml.levels[0].A
    n = A0.shape[0]
    cplx = np.iscomplexobj(A0.data)
    rng = np.random.default_rng(spec['vseed'])
    b = rand_vec(rng, n, cplx)
    x0 = rand_vec(rng, n, cplx) if spec['x0'] else None
    col = spec.get('column', 0)            # 1: b is (n,1); 2: x0 is (n,1)
    bb = b.reshape(-1, 1) if col == 1 else b
    xx0 = x0.reshape(-1, 1) if (col == 2 and x0 is not None) else x0
    probe = rand_vec(rng, n, cplx)
    nev = int(rng.integers(0, 5))
    events = []
    for _ in range(nev):
        t = rng.random()
        if t < 0.45:
            events.append(('v', rand_vec(rng, n, cplx)))
        elif t < 0.8:
            events.append(('m', rand_vec(rng, n, cplx)))
        else:
            events.append(('s', float(rng.random())))
    xret = rand_vec(rng, n, cplx)
    info = int(rng.choice([0, 0, 3, -1]))
    script_res = [float(v) for v in rng.random(int(rng.integers(1, 5)))]
    caller_list = [123.0, 456.0] if spec['res'] else None
    seen = []

    def user_cb(x):
        seen.append(x if np.isscalar(x) else np.array(x, copy=True))
    cb = user_cb if spec['cb'] else None
    akind, aname = spec['accel']
    rk = dict(events=events, xret=xret, info=info, probe=probe, caller_list=caller_list, script_res=script_res)
    patches, recs = [], {}
    if akind == 'f':
        rec = make_recorder(aname, **rk)
        accel = rec
        recs['u'] = rec
    else:
        accel = aname
        if hasattr(krylov, aname) and callable(getattr(krylov, aname)):
            recs['k:' + aname] = make_recorder('real', real=getattr(krylov, aname), **rk)
            patches.append((krylov, aname, recs['k:' + aname]))
        if hasattr(sla, aname) and callable(getattr(sla, aname)):
            recs['s:' + aname] = make_recorder('real', real=getattr(sla, aname), **rk)
            patches.append((sla, aname, recs['s:' + aname]))
    sym = getattr(A0, 'symmetry', None)
    symtok = '_' if sym is None else str(sym)
    atok = f'n:{aname}' if akind == 'n' else f'f:{aname}'
    req = (f'{spec["cycle"]} {symtok} {int(bool(ml.symmetric_smoothing))} {atok} {enc_rat(spec["tol"])} {spec["maxiter"]} '
           f'{int(spec["x0"])} {int(spec["cb"])} {int(spec["res"])} {int(spec["ri"])}')
    # ---- the real call
    out, exc = None, None
    with warnings.catch_warnings(record=True) as wlist:
        warnings.simplefilter('always')
        with patched(patches):
            try:
                out = ml.solve(bb, x0=xx0, tol=spec['tol'], maxiter=spec['maxiter'], cycle=spec['cycle'], accel=accel,
                               callback=cb, residuals=caller_list, return_info=spec['ri'])
            except Exception as e:            # noqa: BLE001
                exc = e
    warn = int(any('CG requires SPD preconditioner' in str(w.message) for w in wlist))
    cyc = spec['cycle'].upper()
    viol = []
    # ---- observed string
    if exc is not None:
        msg = str(exc)
        if isinstance(exc, ValueError) and 'hermitian' in msg:
            tok = 'ValueError:amli-symmetry'
        elif isinstance(exc, ValueError) and 'fgmres' in msg:
            tok = 'ValueError:amli-accel'
        elif isinstance(exc, AttributeError):
            tok = 'AttributeError'
        else:
            tok = f'{type(exc).__name__}:{msg[:60]}'
        obs = f'raise;{warn};{tok}'
        calls = []
    else:
        calls = []
        for tag, r in recs.items():
            for c in r.calls:
                calls.append((tag, r, c))
        # order of calls: a recorder is called at most twice; only one recorder is ever reached
        toks = []
        for tag, r, c in calls:
            k = c['kw']
            style = 'pyamg' if ('tol' in k or 'residuals' in k) else 'scipy'
            if k.get('x0') is None:
                x0f = '0'
            elif x0 is not None and np.array_equal(np.ravel(k['x0']), np.ravel(x0)):
                x0f = '1'
            else:
                x0f = 'other'

            def num(name):
                return enc_rat(k[name]) if name in k and k[name] is not None else '_'
            Mv = c.get('Mv')
            if c['rejected']:
                # M is not evaluated for a rejected call; take the operator's action from the keyword
                Mv = None if k.get('M') is None else np.array(k['M'] @ probe)
            pre = 'none' if Mv is None else 'unknown'
            if Mv is not None:
                order = [cyc] + [c2 for c2 in ('V', 'W', 'F') if c2 != cyc]
                for c2 in order:
                    if c2 == 'AMLI' and symtok == 'nonsymmetric':
                        continue
                    try:
                        if close(Mv, ref_precond(ml, probe, c2)):
                            pre = c2
                            break
                    except Exception:        # noqa: BLE001
                        continue
            kcb = k.get('callback')
            cbt = 'none' if kcb is None else ('user' if kcb is cb else 'wrapper')
            if 'residuals' not in k:
                rkw = '_'
            else:
                rkw = '1' if (k['residuals'] is caller_list and caller_list is not None) else ('0' if k['residuals'] is None else 'other')
            mx = k.get('maxiter')
            toks.append(','.join([tag, style, x0f, num('tol'), num('rtol'), num('atol'), str(mx), pre, cbt, rkw]))
        # preinit: the list was reset to one entry before the last (SciPy-convention) call
        pre_flag = 0
        if len(calls) == 2 and caller_list is not None:
            at = calls[1][2].get('list_at_entry')
            pre_flag = int(at is not None and len(at) == 1)
        obs = f'run;{warn};{pre_flag};{int(isinstance(out, tuple))};' + '|'.join(toks)
    # ---- direct assertions of the property on what was observed (independent of the model)
    # cycle types the accelerator does not allow are refused: AMLI is a nonlinear preconditioner, only the flexible
    # method (the name 'fgmres') tolerates it, and only on a matrix not marked non-Hermitian
    if cyc == 'AMLI':
        allowed = (akind == 'n' and aname == 'fgmres') and symtok != 'nonsymmetric'
        if not allowed and not isinstance(exc, ValueError):
            viol.append(f'an AMLI cycle was accepted although it is not allowed here (symmetry={symtok}): '
                        + ('no exception' if exc is None else f'{type(exc).__name__}'))
        if allowed and exc is not None:
            viol.append(f'AMLI with fgmres on a Hermitian problem raised {type(exc).__name__}: {str(exc)[:100]}')
    elif exc is not None and not (akind == 'n' and aname == 'no_such_solver' and isinstance(exc, AttributeError)):
        viol.append(f'raised {type(exc).__name__}: {str(exc)[:150]}')
    # CG needs a symmetric preconditioner: the call must warn exactly when the hierarchy is not flagged symmetric
    if akind == 'n' and aname == 'cg' and (exc is None or cyc == 'AMLI'):
        if bool(warn) != (not ml.symmetric_smoothing):
            viol.append(f'accel=\'cg\' on a hierarchy with symmetric_smoothing={ml.symmetric_smoothing}: '
                        + ('no warning about the non-symmetric preconditioner' if not warn else 'spurious warning'))
    elif warn:
        viol.append('warning about CG although the accelerator is not the name \'cg\'')
    if exc is None and calls:
        last_tag, last_r, last = calls[-1]
        k = last['kw']
        style_py = 'tol' in k
        got_tol = k.get('tol') if style_py else k.get('rtol')
        if got_tol is None or float(got_tol) != float(spec['tol']):
            viol.append(f'the accelerator received tolerance {got_tol!r} instead of the requested {spec["tol"]!r}')
        if not style_py and k.get('atol') not in (None, 0, 0.0):
            viol.append(f'the accelerator received atol={k.get("atol")!r} (loosens the requested relative tolerance)')
        if k.get('maxiter') != spec['maxiter']:
            viol.append(f'the accelerator received maxiter={k.get("maxiter")!r} instead of {spec["maxiter"]}')
        if (x0 is None) != (k.get('x0') is None) or (x0 is not None and not np.array_equal(np.ravel(k['x0']), np.ravel(x0))):
            if not (x0 is None and k.get('x0') is not None and not np.any(k['x0'])):
                viol.append('the accelerator did not receive the caller\'s x0')
        if last['A'] is not A0 and not (sp.issparse(last['A']) and (abs(last['A'] - A0)).nnz == 0):
            viol.append('the accelerator did not receive the finest-level matrix')
        if last['b'] is None or not np.array_equal(np.ravel(last['b']), np.ravel(b)):
            viol.append('the accelerator did not receive the right-hand side')
        Mv = last.get('Mv')
        want = None
        try:
            want = ref_precond(ml, probe, cyc)
        except Exception:                    # noqa: BLE001
            want = None
        if Mv is None or last['Mshape'] != A0.shape:
            viol.append('no preconditioner of the shape of A was handed to the accelerator')
        elif want is not None and not close(Mv, want):
            viol.append(f'M @ v differs from one {cyc}-cycle applied to v (relative difference '
                        f'{np.linalg.norm(np.ravel(Mv) - want) / (1e-300 + np.linalg.norm(want)):.2e})')
        # returned values pass through
        xo = out[0] if isinstance(out, tuple) else out
        if isinstance(out, tuple) != bool(spec['ri']):
            viol.append(f'return_info={spec["ri"]} but the call returned {"a tuple" if isinstance(out, tuple) else "a bare array"}')
        if not np.array_equal(np.ravel(xo), np.ravel(xret)):
            viol.append('the returned vector is not the accelerator\'s result')
        if isinstance(out, tuple) and out[1] != info:
            viol.append(f'the accelerator\'s status {info} was returned as {out[1]}')
        # callback and history
        evs = [e for e in events]
        if spec['cb']:
            want_seen = [v for kind, v in evs if (kind != 's' or not style_py)] if not style_py else [v for kind, v in evs if kind == 'v']
            ok = len(seen) == len(want_seen) and all(
                (np.isscalar(s) and np.isscalar(w) and s == w) or (not np.isscalar(s) and not np.isscalar(w) and np.array_equal(np.ravel(s), np.ravel(w)))
                for s, w in zip(seen, want_seen))
            if not ok:
                viol.append(f'the caller\'s callback saw {len(seen)} invocations / other arguments than the accelerator issued ({len(want_seen)})')
        run_line, run_obs = None, None
        start = np.zeros(n, dtype=b.dtype) if x0 is None else x0
        if style_py:
            run_args = f'native {info} {enc_rats(script_res)} {sum(1 for kind, _ in evs if kind == "v")}'
            if caller_list is not None and list(caller_list) != list(script_res):
                viol.append('PyAMG-convention accelerator: the caller\'s residual list does not hold what the accelerator wrote')
        else:
            norms = [float(np.linalg.norm(b - A0 @ start))]
            etoks, want_hist = [], None
            for kind, v in evs:
                if kind == 's':
                    etoks.append('s' + enc_rat(v))
                else:
                    norms.append(float(np.linalg.norm(b - A0 @ v)))
                    etoks.append(f'v{len(norms) - 1}')
            run_args = f'scipy {info} {enc_rats(norms)} {",".join(etoks) if etoks else "-"}'
            if caller_list is not None:
                want_hist, j = [norms[0]], 1
                for kind, v in evs:
                    if kind == 's':
                        want_hist.append(v)
                    else:
                        want_hist.append(norms[j])
                        j += 1
                got = [float(np.real(v)) if np.isscalar(v) else None for v in caller_list]
                bad = (len(got) != len(want_hist) or any(g is None or not np.isfinite(g) or abs(g - w) > 1e-10 * (1 + abs(w))
                                                        for g, w in zip(got, want_hist)))
                if bad:
                    viol.append(f'SciPy-convention accelerator: residual history {[round(g, 6) if g is not None else g for g in got][:6]} '
                                f'instead of initial residual + one entry per callback {[round(w, 6) for w in want_hist][:6]}')
        # the caller's observables for the model C08.accelRun
        j, stoks = 0, []
        for it in seen:
            if np.isscalar(it):
                stoks.append('s' + enc_rat(it))
            else:
                j += 1
                stoks.append(f'v{j}')
        run_line = 'c08_run ' + req + ' ' + run_args
        run_obs = (str(out[1]) if isinstance(out, tuple) else '_',
                   None if caller_list is None else [float(np.real(v)) if np.isscalar(v) else float('nan') for v in caller_list],
                   ','.join(stoks) if stoks else '-')
    else:
        run_line, run_obs = None, None
    for v in viol:
        ctx.violation(f'solve(accel={aname!r} [{akind}], cycle={spec["cycle"]!r}, b.shape={bb.shape}, x0.shape='
                      f'{None if xx0 is None else xx0.shape}): {v}', {'part': 'A', **spec})
    return 'c08_plan ' + req, obs, run_line, run_obs, ml


def run_agrees(model_reply, run_obs):
    """model reply `info;list;callback-args` vs the observed triple (list values with tolerance 1e-10)"""
    parts = model_reply.split(';')
    if len(parts) != 3:
        return False
    info_m, list_m, cb_m = parts
    info_o, list_o, cb_o = run_obs
    if info_m != info_o or cb_m != cb_o:
        return False
    if (list_m == '_') != (list_o is None):
        return False
    if list_o is None:
        return True
    try:
        lm = [float(dec_rat(t)) for t in dec_list(list_m)]
    except Exception:                         # noqa: BLE001
        return False
    return len(lm) == len(list_o) and all(np.isfinite(b) and abs(a - b) <= 1e-10 * (1 + abs(a)) for a, b in zip(lm, list_o))


def part_a(ctx, ncases):
    rng = ctx.np_rng
    pool = wiring_pool(ctx)
    # which hierarchies separate the cycle types
    for h in pool:
        ml = h['ml']
        n = ml.levels[0].A.shape[0]
        v = rand_vec(np.random.default_rng(1), n, np.iscomplexobj(ml.levels[0].A.data))
        try:
            r = {c: ref_precond(ml, v, c) for c in 'VWF'}
            h['separates'] = not (close(r['V'], r['W'], 1e-8) or close(r['V'], r['F'], 1e-8) or close(r['W'], r['F'], 1e-8))
        except Exception:                     # noqa: BLE001
            h['separates'] = False
    lines, expect, meta = [], [], []
    for t in range(ncases):
        h = pool[t % len(pool)]
        acc = A_ACCELS[int(rng.integers(len(A_ACCELS)))] if t >= len(A_ACCELS) * 2 else A_ACCELS[t % len(A_ACCELS)]
        cyc = A_CYCLES[int(rng.integers(len(A_CYCLES)))]
        if rng.random() < 0.5:
            cyc = str(rng.choice(['V', 'W', 'F']))
        if acc == ('n', 'fgmres') and rng.random() < 0.5:
            cyc = str(rng.choice(['AMLI', 'amli']))
        spec = {'matrix': h['matrix'], 'mseed': h['mseed'], 'ctor': h['ctor'], 'cseed': h['cseed'],
                'accel': list(acc), 'cycle': cyc, 'tol': float(rng.choice(A_TOLS)), 'maxiter': int(rng.choice(A_MAXITERS)),
                'x0': int(rng.random() < 0.6), 'cb': int(rng.random() < 0.6), 'res': int(rng.random() < 0.7),
                'ri': int(rng.random() < 0.5), 'vseed': int(rng.integers(2**31)),
                'column': int(rng.choice([0, 0, 0, 0, 0, 1, 2]))}
        line, obs, run_line, run_obs, _ = wiring_case(ctx, spec, ml=h['ml'])
        lines.append(line)
        expect.append(obs)
        meta.append((spec, 'plan', h['separates']))
        if run_line is not None:
            lines.append(run_line)
            expect.append(run_obs)
            meta.append((spec, 'run', h['separates']))
    # name tables of the model vs the installed modules
    lines.append('c08_tables')
    expect.append(None)
    meta.append((None, 'tables', True))
    outs = ctx.lean(lines)
    for line, o, e, (spec, what, sep) in zip(lines, outs, expect, meta):
        if what == 'tables':
            check_tables(ctx, o)
            continue
        ctx.case(key=_key(line), nontrivial=sep, sample={'request': line[:160], 'model': o[:160], 'impl': str(e)[:160]}
                 if ctx.evaluations % 97 == 0 else None)
        ctx.feat(f'A:{what}')
        if what == 'plan':
            ctx.feat('A:accel=' + ':'.join(spec['accel']))
            ctx.feat('A:outcome=' + o.split(';')[0])
            if o != e:
                ctx.corr('c08_plan', {'part': 'A', **spec}, o, e)
        elif not run_agrees(o, e):
            ctx.corr('c08_run', {'part': 'A', **spec}, o, str(e))


def check_tables(ctx, reply):
    """the model's name spaces = what hasattr / inspect.signature say about the installed modules"""
    from pyamg import krylov
    ks, ss = reply.split(';')
    kmodel = set(dec_list(ks))
    smodel = {t.split(':')[0]: t.split(':')[1] == '1' for t in dec_list(ss)}
    cands = set(kmodel) | set(smodel) | {'cg', 'gmres', 'fgmres', 'bicgstab', 'cr', 'cgnr', 'cgne', 'gmres_mgs', 'gmres_householder',
                                         'steepest_descent', 'minimal_residual', 'bicg', 'cgs', 'qmr', 'tfqmr', 'gcrotmk', 'lgmres',
                                         'minres', 'lsqr', 'lsmr'}
    for nm in sorted(cands):
        real_k = hasattr(krylov, nm) and callable(getattr(krylov, nm)) and not inspect.ismodule(getattr(krylov, nm))
        ctx.case(key='table:' + nm, nontrivial=True)
        if real_k != (nm in kmodel):
            ctx.corr('c08_tables', {'name': nm}, f'krylov has {nm}: {nm in kmodel}', f'{real_k}')
        f = getattr(sla, nm, None)
        if nm in smodel:
            ok = callable(f)
            if ok:
                ps = inspect.signature(f).parameters
                ok = ('rtol' in ps and 'M' in ps and 'callback' in ps and 'x0' in ps and 'maxiter' in ps and ('atol' in ps) == smodel[nm])
            if not ok:
                ctx.corr('c08_tables', {'name': nm}, f'scipy has {nm} with atol={smodel[nm]}', 'signature differs')


# ------------------------------------------------------------------------------------------------
# part B: real accelerated solves
# ------------------------------------------------------------------------------------------------

def measure(kind, A, b, x, M):
    """the residual measure of the accelerator class and its reference scale"""
    r = np.ravel(b) - A @ np.ravel(x)
    if kind == 'MR':
        nb = pnorm(b)
        return pnorm(M @ r), (1.0 if nb == 0.0 else pnorm(M @ np.ravel(b)))
    nb = pnorm(b)
    return pnorm(r), (1.0 if nb == 0.0 else nb)


def accel_class(akind, aname):
    base = aname.split('.')[-1]
    if (akind == 'n' or aname.startswith('krylov.')) and base in RR:
        return 'RR'
    if (akind == 'n' or aname.startswith('krylov.')) and base in MR:
        return 'MR'
    if base in SCIPY_TRUE_RES:
        return 'SP'
    return 'SX'            # tfqmr, minres: internal estimates


def solve_case(ctx, spec, ml=None):
    """one real accelerated solve + all judgements; returns a protocol line for the skeleton replay (or None)"""
    from pyamg import krylov
    if ml is None:
        A, kind = build_matrix(spec['matrix'], spec['mseed'])
        ml = build_hier(spec['ctor'], A, kind, spec['cseed'])
        if ml is None:
            return None
    A0 = ml.levels[0].A
    n = A0.shape[0]
    cplx = np.iscomplexobj(A0.data)
    rng = np.random.default_rng(spec['vseed'])
    b = rand_vec(rng, n, cplx)
    if spec.get('zero_b'):
        b = np.zeros(n, dtype=b.dtype)
    x0 = None
    if spec['x0'] == 1:
        x0 = rand_vec(rng, n, cplx)
    elif spec['x0'] == 2:                       # close to the solution: the initial guess may already meet the rule
        x0 = sla.spsolve(sp.csc_array(A0), b) + 1e-9 * rand_vec(rng, n, cplx)
    col = spec.get('column', 0)
    bb = b.reshape(-1, 1) if col == 1 else b
    xx0 = x0.reshape(-1, 1) if (col == 2 and x0 is not None) else x0
    akind, aname = spec['accel']
    accel = aname if akind == 'n' else get_callable(aname)
    cyc = spec['cycle']
    tol, maxiter = spec['tol'], spec['maxiter']
    cls = accel_class(akind, aname)
    case = {'part': 'B', **spec}
    label = (f'{spec["ctor"]} hierarchy of {spec["matrix"]} (n={n}, {len(ml.levels)} levels), accel={aname!r}, cycle={cyc!r}, tol={tol:g}, '
             f'maxiter={maxiter}, b.shape={bb.shape}, x0.shape={None if xx0 is None else xx0.shape}')
    seen, res = [], [777.0]

    def cb(x):
        seen.append(x if np.isscalar(x) else np.array(x, copy=True))
    sym = getattr(A0, 'symmetry', None)
    with warnings.catch_warnings(record=True):
        warnings.simplefilter('ignore')
        np.seterr(all='ignore')
        try:
            x, info = ml.solve(bb, x0=xx0, tol=tol, maxiter=maxiter, cycle=cyc, accel=accel, callback=cb, residuals=res,
                               return_info=True)
        except Exception as e:                # noqa: BLE001
            guard = isinstance(e, ValueError) and cyc.upper() == 'AMLI'
            if not guard:
                ctx.violation(f'{label}: raised {type(e).__name__}: {str(e)[:200]}', case)
            ctx.case(key=_key('B', sorted(spec.items(), key=str)), nontrivial=False)
            return None
        Mref = ref_operator(ml, cyc.upper())
        viol, hist_viol = [], []
        if cyc.upper() == 'AMLI' and not (akind == 'n' and aname == 'fgmres'):
            viol.append('an AMLI cycle was accepted for an accelerator other than the name \'fgmres\'')
        xf = np.ravel(x)
        start = np.zeros(n, dtype=b.dtype) if x0 is None else x0
        mkind = 'MR' if cls == 'MR' else 'RR'
        finite = bool(np.isfinite(xf).all())
        # rounding level of a recomputed residual: recurrences lose eps * (largest residual on the way)
        roundoff = 5e-15 * (pnorm(np.ravel(b) - A0 @ start) + sla.norm(sp.csr_array(A0), 1) * np.linalg.norm(xf[np.isfinite(xf)]) + pnorm(b))
        # --- honesty
        if info == 0:
            if not finite:
                viol.append('status 0 with a non-finite iterate')
            elif cls in ('RR', 'MR', 'SP'):
                m, scale = measure(mkind, A0, b, xf, Mref)
                thr = tol * scale
                if abs(m - thr) <= 1e-9 * thr:
                    ctx.near_skipped += 1
                elif m > thr * (1 + 1e-6) + 1e-13 * scale + roundoff:
                    viol.append(f'status 0 but the recomputed {"preconditioned " if mkind == "MR" else ""}residual {m:.3e} exceeds '
                                f'tol * reference = {thr:.3e} (ratio {m / thr if thr else np.inf:.3g})')
        # --- history
        ncb = len(seen)
        if len(res) != ncb + 1:
            hist_viol.append(f'residual history has {len(res)} entries for {ncb} callback invocations')
        if res and finite:
            m0, scale = measure(mkind, A0, b, start, Mref)
            r0 = float(np.real(res[0]))
            if not np.isfinite(r0) or abs(r0 - m0) > 1e-8 * (m0 + scale):
                hist_viol.append(f'residual history starts with {r0:.6e}, the initial {"preconditioned " if mkind == "MR" else ""}'
                                 f'residual is {m0:.6e}')
            if len(res) == ncb + 1:
                for k, it in enumerate(seen):
                    if np.isscalar(it):
                        continue
                    mk, _ = measure(mkind, A0, b, it, Mref)
                    rk = float(np.real(res[k + 1]))
                    slack = (1e-9 if cls in ('SP', 'SX') else 1e-6) * (mk + scale + m0)
                    if not np.isfinite(rk) or abs(rk - mk) > slack:
                        hist_viol.append(f'history entry {k + 1} is {rk:.6e}, the residual measure of the iterate handed to the '
                                         f'callback is {mk:.6e}')
                        break
        # --- the returned iterate is the last one the callback saw (when there was one)
        # --- identity with the direct call of the accelerator with an independent preconditioner
        f = getattr(krylov, aname) if (akind == 'n' and hasattr(krylov, aname)) else (getattr(sla, aname) if akind == 'n' else accel)
        res2, seen2 = [], []

        def cb2(x):
            seen2.append(1)
        try:
            if 'tol' in inspect.signature(f).parameters:
                x2, info2 = f(A0, b, x0=x0, tol=tol, maxiter=maxiter, M=Mref, residuals=res2, callback=cb2)
            else:
                kw = {'atol': 0} if 'atol' in inspect.signature(f).parameters else {}
                x2, info2 = f(A0, b, x0=x0, rtol=tol, maxiter=maxiter, M=Mref, callback=cb2, **kw)
                res2 = None
            x2 = np.ravel(x2)
            _, scale = measure(mkind, A0, b, start, Mref)
            thr = tol * scale
            near = any(np.isfinite(np.real(v)) and abs(float(np.real(v)) - thr) <= 1e-7 * thr for v in list(res2 or []) + list(res))
            if near:
                ctx.near_skipped += 1
            elif finite and np.isfinite(x2).all():
                if info2 != info or len(seen2) != ncb:
                    viol.append(f'differs from the direct call {aname}(A, b, x0, tol, maxiter, M=one {cyc.upper()}-cycle): status {info} / '
                                f'{ncb} iterations instead of {info2} / {len(seen2)}')
                else:
                    sc = np.linalg.norm(x2) + np.linalg.norm(xf)
                    d = np.linalg.norm(x2 - xf)
                    ctx.rel_err(d / (sc + 1e-300))
                    if d > 1e-7 * sc + 1e-12:
                        viol.append(f'differs from the direct call {aname}(A, b, x0, tol, maxiter, M=one {cyc.upper()}-cycle): '
                                    f'relative difference of the iterates {d / (sc + 1e-300):.2e}')
        except Exception as e:                # noqa: BLE001
            ctx.feat('B:direct-call-raised:' + type(e).__name__)
        # --- options do not change the iterate
        if spec.get('opt_check') and finite and aname != 'sla.gmres':     # (SciPy's gmres counts maxiter differently with a callback)
            try:
                x3 = ml.solve(bb, x0=xx0, tol=tol, maxiter=maxiter, cycle=cyc, accel=accel)
                if not isinstance(x3, np.ndarray) or not close(x3, xf, 1e-12):
                    viol.append('without callback / residuals / return_info the call returns a different iterate')
            except Exception as e:            # noqa: BLE001
                viol.append(f'without callback / residuals / return_info the call raises {type(e).__name__}: {str(e)[:100]}')
    for v in viol + hist_viol:
        ctx.violation(f'{label}: {v}', case)
    ctx.case(key=_key('B', sorted(spec.items(), key=str)), nontrivial=len(seen) >= 1,
             sample={'case': label, 'status': int(info), 'iterations': len(seen), 'history': [float(np.real(v)) for v in res[:4]]}
             if ctx.evaluations % 211 == 0 else None)
    ctx.feat('B:ctor=' + spec['ctor'])
    ctx.feat('B:accel=' + aname)
    ctx.feat('B:cycle=' + cyc.upper())
    ctx.feat('B:status=' + ('0' if info == 0 else ('neg' if info < 0 else 'maxiter')))
    # --- skeleton replay for native accelerators (C08.nativeSolve on the observed history)
    if akind == 'n' and aname in RR and aname != 'fgmres' and info >= 0 and finite and all(np.isfinite(np.real(v)) for v in res):
        _, scale = measure('RR', A0, b, start, Mref)
        thr = tol * scale
        if any(abs(float(np.real(v)) - thr) <= 1e-9 * thr for v in res):
            ctx.near_skipped += 1
            return None
        symtok = '_' if sym is None else str(sym)
        line = (f'c08_native {cyc} {symtok} {int(bool(ml.symmetric_smoothing))} n:{aname} {enc_rat(tol)} {maxiter} {int(x0 is not None)} 1 1 1 '
                f'{enc_rat(scale)} {enc_rats([float(np.real(v)) for v in res])}')
        return line, f'{int(info)};{len(res)};{len(seen)};{len(res) - 1}', case
    return None


B_NATIVE = [('n', a) for a in NATIVE]
B_SCIPY = [('n', a) for a in SCIPY_NAMES] + [('f', a) for a in SCIPY_CALLABLES]
B_NATIVE = B_NATIVE + [('f', a) for a in NATIVE_CALLABLES]


def part_b(ctx, nhier, per_hier):
    rng = ctx.np_rng
    replay = []
    for t in range(nhier):
        ctor = CTORS[t % len(CTORS)] if t < 6 * len(CTORS) else str(rng.choice(CTORS))
        ms_ = APPLIES[ctor]
        mname = ms_[(t // len(CTORS)) % len(ms_)] if t < 6 * len(CTORS) else str(rng.choice(ms_))
        ms, cs = int(rng.integers(2**31)), int(rng.integers(2**31))
        A, kind = build_matrix(mname, ms)
        try:
            ml = build_hier(ctor, A, kind, cs)
        except Exception as e:                # noqa: BLE001
            ctx.feat(f'B:setup-raised:{ctor}:{type(e).__name__}')
            ml = None
        if ml is None:
            continue
        herm_ok = kind != 'nonsym'
        for u in range(per_hier):
            pool = B_NATIVE if rng.random() < 0.6 else B_SCIPY
            acc = pool[int(rng.integers(len(pool)))]
            if u < len(B_NATIVE) + len(B_SCIPY) and t % 3 == 0:
                acc = (B_NATIVE + B_SCIPY)[(u + t) % (len(B_NATIVE) + len(B_SCIPY))]
            if acc[1] == 'minres' and not herm_ok:
                acc = ('n', 'lgmres')
            cyc = str(rng.choice(['V', 'W', 'F', 'v', 'f']))
            if acc == ('n', 'fgmres') and herm_ok and rng.random() < 0.4:
                cyc = 'AMLI'
            if acc[1] in ('cg', 'krylov.cg', 'sla.cg') and rng.random() < 0.03:
                cyc = 'AMLI'            # refused: ValueError
            cls = accel_class(*acc)
            col = int(rng.choice([0, 0, 0, 0, 0, 0, 1, 2]))
            spec = {'matrix': mname, 'mseed': ms, 'ctor': ctor, 'cseed': cs, 'accel': list(acc), 'cycle': cyc,
                    'tol': float(rng.choice([1e-3, 1e-5, 1e-8, 1e-10, 0.3])), 'maxiter': int(rng.choice([1, 2, 3, 5, 8, 15, 40])),
                    'x0': int(rng.choice([0, 1, 1, 2])), 'vseed': int(rng.integers(2**31)), 'column': col,
                    'zero_b': int(rng.random() < 0.04), 'opt_check': int(rng.random() < 0.25)}
            del cls
            r = solve_case(ctx, spec, ml=ml)
            if r is not None:
                replay.append(r)
    if replay:
        outs = ctx.lean([r[0] for r in replay])
        for (line, expect, case), o in zip(replay, outs):
            ctx.case(key=_key(line), nontrivial=True)
            ctx.feat('B:skeleton-replay')
            if o == 'short':
                # the model would have continued: the code stopped without the criterion being met and before maxiter
                o = 'short (the skeleton continues past the observed history)'
            if o != expect:
                ctx.corr('c08_native', case, o, expect)
                st = int(expect.split(';')[0])
                if st == 0:
                    ctx.violation(f'native accelerator {case["accel"][1]}: status 0 although no entry of the residual history is below '
                                  f'tol * ||b|| (skeleton replay gives {o})', case)


# ------------------------------------------------------------------------------------------------
# part D: native accelerators handed over as callables that select a documented non-default stopping criterion
#         (functools.partial(krylov.cg, criteria=...)): status 0 => the DOCUMENTED rule holds for the returned iterate,
#         recomputed from scratch with an independent transcription of the cycle
# ------------------------------------------------------------------------------------------------

D_RULES = {'rr': '||r|| < tol ||b||', 'rr+': '||r|| < tol (||b|| + ||A||_F ||x||)', 'MrMr': '||M r|| < tol ||M b||',
           'rMr': '<r, M r>^1/2 < tol'}
D_ACCELS = [('cg', 'rr'), ('cg', 'rr+'), ('cg', 'MrMr'), ('cg', 'rMr'), ('cg', 'MrMr'), ('cg', 'rMr'),
            ('bicgstab', 'rr+'), ('cr', 'rr+'), ('steepest_descent', 'rr+'), ('cgnr', 'rr+'), ('cgne', 'rr+')]
D_HIERS = [('rs', 'poisson1d'), ('sa', 'poisson1d'), ('rs', 'poisson2d'), ('sa', 'poisson2d'), ('sa', 'aniso'), ('rs', 'graphlap'),
           ('sa_jacobi', 'poisson1d'), ('rootnode', 'poisson2d'), ('sa', 'herm'), ('pairwise', 'poisson1d'), ('rs', 'aniso')]


def crit_case(ctx, spec, ml=None):
    import functools
    from pyamg import krylov
    if ml is None:
        A, kind = build_matrix(spec['matrix'], spec['mseed'], big=bool(spec['big']))
        ml = build_hier(spec['ctor'], A, kind, spec['cseed'])
        if ml is None:
            return
    A0 = ml.levels[0].A
    n = A0.shape[0]
    cplx = np.iscomplexobj(A0.data)
    rng = np.random.default_rng(spec['vseed'])
    b = rand_vec(rng, n, cplx)
    if spec['bkind'] == 1:                       # smooth right-hand side
        b = A0 @ np.ones(n, dtype=b.dtype) + 1.0
    x0 = rand_vec(rng, n, cplx) if spec['x0'] else None
    aname, crit = spec['accel'], spec['criteria']
    cyc, tol, maxiter = spec['cycle'], spec['tol'], spec['maxiter']
    case = {'part': 'D', **spec}
    label = (f'{spec["ctor"]} hierarchy of {spec["matrix"]} (n={n}, {len(ml.levels)} levels), accel=functools.partial(pyamg.krylov.'
             f'{aname}, criteria={crit!r}), cycle={cyc!r}, tol={tol:g}, maxiter={maxiter}, '
             f'{"smooth" if spec["bkind"] else "random"} b, x0 {"random" if spec["x0"] else "None"}')
    key = _key('D', sorted(spec.items(), key=str))
    res = []
    with warnings.catch_warnings(record=True):
        warnings.simplefilter('ignore')
        np.seterr(all='ignore')
        try:
            x, info = ml.solve(b, x0=x0, tol=tol, maxiter=maxiter, cycle=cyc, accel=functools.partial(getattr(krylov, aname), criteria=crit),
                               residuals=res, return_info=True)
        except Exception as e:                    # noqa: BLE001   (a criterion the accelerator does not offer)
            ctx.feat(f'D:raised:{aname}:{crit}:{type(e).__name__}')
            ctx.case(key=key, nontrivial=False)
            return
        Mref = ref_operator(ml, cyc.upper())
    xf = np.ravel(x)
    ctx.case(key=key, nontrivial=len(res) > 1)
    ctx.feat(f'D:{aname}:{crit}')
    ctx.feat('D:status=' + ('0' if info == 0 else ('neg' if info < 0 else 'maxiter')))
    if info != 0:
        return
    if not np.isfinite(xf).all():
        ctx.violation(f'{label}: status 0 with a non-finite iterate', case)
        return
    r = np.ravel(b) - A0 @ xf
    nb = pnorm(b) or 1.0
    nr = pnorm(r)
    normA1 = sla.norm(sp.csr_array(A0), 1)
    roundoff = 5e-14 * (normA1 * np.linalg.norm(xf) + nb + (0.0 if x0 is None else normA1 * np.linalg.norm(x0)))
    if crit == 'rr':
        m, thr, ro = nr, tol * nb, roundoff
    elif crit == 'rr+':
        normF = float(np.linalg.norm(np.ravel(sp.csr_array(A0).data)))
        m, thr, ro = nr, tol * (normF * float(np.linalg.norm(xf)) + nb), roundoff
    else:
        Mr, Mb = Mref @ r, Mref @ np.ravel(b)
        gain = max(1.0, pnorm(Mb) / nb, (pnorm(Mr) / nr) if nr else 1.0)          # observed amplification by M
        if crit == 'MrMr':
            m, thr, ro = pnorm(Mr), tol * (pnorm(Mb) or 1.0), 50 * gain * roundoff
        else:
            v = np.vdot(r, Mr)
            m, thr, ro = float(np.sqrt(max(np.real(v), 0.0))), tol, 50 * np.sqrt(gain) * roundoff + 1e-7 * tol
    if abs(m - thr) <= 1e-6 * thr:
        ctx.near_skipped += 1
    elif m > thr * (1 + 1e-4) + ro:
        ctx.violation(f'{label}: status 0 after {len(res) - 1} iterations, but the documented stopping rule {D_RULES[crit]} does not hold for '
                      f'the returned iterate: recomputed left side {m:.3e}, right side {thr:.3e} (ratio {m / thr:.3g})', case)


def part_d(ctx, nhier, per_hier):
    rng = np.random.default_rng([int(ctx.seed) & 0xffffffff, 0xC0811])
    for t in range(nhier):
        ctor, mname = D_HIERS[t % len(D_HIERS)] if t < 2 * len(D_HIERS) else D_HIERS[int(rng.integers(len(D_HIERS)))]
        ms, cs = int(rng.integers(2**31)), int(rng.integers(2**31))
        big = int(mname in ('poisson1d', 'poisson2d') and rng.random() < 0.6)
        A, kind = build_matrix(mname, ms, big=bool(big))
        try:
            ml = build_hier(ctor, A, kind, cs)
        except Exception as e:                # noqa: BLE001
            ctx.feat(f'D:setup-raised:{ctor}:{type(e).__name__}')
            ml = None
        if ml is None:
            continue
        for u in range(per_hier):
            aname, crit = D_ACCELS[(u + t) % len(D_ACCELS)] if u < 6 else D_ACCELS[int(rng.integers(len(D_ACCELS)))]
            spec = {'matrix': mname, 'mseed': ms, 'big': big, 'ctor': ctor, 'cseed': cs, 'accel': aname, 'criteria': crit,
                    'cycle': str(rng.choice(['V', 'V', 'W', 'v'])), 'tol': float(rng.choice([1e-3, 1e-4, 1e-6, 1e-8, 0.1])),
                    'maxiter': int(rng.choice([3, 8, 40, 200])), 'x0': int(rng.random() < 0.4), 'bkind': int(rng.random() < 0.4),
                    'vseed': int(rng.integers(2**31))}
            crit_case(ctx, spec, ml=ml)


# ------------------------------------------------------------------------------------------------
# part C: pyamg.solve (black box)
# ------------------------------------------------------------------------------------------------

FORMATS = ['csr', 'csr', 'bsr', 'csc', 'coo', 'dense', 'lil', 'csr_matrix']


def to_format(A, fmt):
    if fmt == 'csr':
        return i32(sp.csr_array(A)) if A.format != 'bsr' else A
    if fmt == 'bsr':
        if A.format == 'bsr':
            return A
        bs = 2 if A.shape[0] % 2 == 0 else 1
        B = sp.csr_array(A).tobsr((bs, bs))
        return i32(B)
    if fmt == 'csc':
        return i32(sp.csc_array(A))
    if fmt == 'coo':
        C = sp.coo_array(sp.csr_array(A))
        C.coords = tuple(c.astype(np.int32) for c in C.coords)
        return C
    if fmt == 'dense':
        return A.toarray()
    if fmt == 'lil':
        return sp.lil_array(sp.csr_array(A))
    if fmt == 'csr_matrix':
        return i32(sp.csr_matrix(sp.csr_array(A)))
    raise ValueError(fmt)


def bb_case(ctx, spec):
    import pyamg
    from pyamg import krylov
    A, kind = build_matrix(spec['matrix'], spec['mseed'], big=spec['big'])
    n = A.shape[0]
    cplx = kind == 'herm'
    rng = np.random.default_rng(spec['vseed'])
    Ain = to_format(A, spec['format'])
    Acsr = sp.csr_array(A)
    b = rand_vec(rng, n, cplx)
    bshape = (n, 1) if spec['bcol'] else (n,)
    bb = b.reshape(bshape)
    x0 = rand_vec(rng, n, cplx) if spec['x0'] else None
    tol, maxiter = spec['tol'], spec['maxiter']
    case = {'part': 'C', **spec}
    label = (f'pyamg.solve on {spec["matrix"]} (n={n}, {kind}, format {spec["format"]}), b.shape={bshape}, tol={tol:g}, '
             f'reuse={spec["reuse"]}, x0={"given" if spec["x0"] else "random"}')
    viol = []
    recs = {}

    def recorder(name):
        real = getattr(krylov, name)

        @functools.wraps(real)
        def f(*a, **k):
            recs.setdefault(name, []).append(dict(k))
            return real(*a, **k)
        return f
    with warnings.catch_warnings(record=True), contextlib.redirect_stdout(io.StringIO()):
        warnings.simplefilter('ignore')
        try:
            existing = None
            if spec['reuse']:
                np.random.seed(spec['npseed'])
                if spec['reuse'] == 1:      # solver returned by an earlier black-box call (other right-hand side)
                    _, existing = pyamg.solve(Ain, rand_vec(rng, n, cplx), tol=1e-2, maxiter=5, verb=False, return_solver=True)
                else:                       # solver built by pyamg.solver from a configuration with a small coarse grid
                    cfg = pyamg.solver_configuration(Ain, verb=False)
                    cfg['max_coarse'] = 10
                    existing = pyamg.solver(Ain, cfg)
            np.random.seed(spec['npseed'])
            res = [55.0] if spec['res'] else None
            with patched([(krylov, 'cg', recorder('cg')), (krylov, 'gmres', recorder('gmres'))]):
                out = pyamg.solve(Ain, bb, x0=x0, tol=tol, maxiter=maxiter, return_solver=bool(spec['ret']),
                                  existing_solver=existing, verb=False, residuals=res)
        except Exception as e:                # noqa: BLE001
            ctx.violation(f'{label}: raised {type(e).__name__}: {str(e)[:200]}', case)
            ctx.case(key=_key('C', sorted(spec.items(), key=str)), nontrivial=False)
            return None
        if spec['ret']:
            if not (isinstance(out, tuple) and len(out) == 2):
                viol.append('return_solver=True did not return (x, ml)')
                x, ml = out, existing
            else:
                x, ml = out
        else:
            x, ml = out, existing
            if isinstance(out, tuple):
                viol.append('return_solver=False returned a tuple')
                x = out[0]
        if ml is None:                      # rebuild the solver (same random stream) to obtain the preconditioner
            np.random.seed(spec['npseed'])
            ml = pyamg.solver(Ain, pyamg.solver_configuration(Ain, verb=False))
        if existing is not None and spec['ret'] and ml is not existing:
            viol.append('the existing solver was not the one used / returned')
        x = np.asarray(x)
        if x.shape != bshape:
            viol.append(f'solution has shape {x.shape}, the right-hand side has shape {bshape}')
        xf = np.ravel(x)
        sym = ml.levels[0].A.symmetry
        want_sym = 'nonsymmetric' if kind == 'nonsym' else 'hermitian'
        if existing is None and sym != want_sym:
            viol.append(f'a {kind} matrix was classified as {sym}')
        r = b - Acsr @ xf
        nb = np.linalg.norm(b)
        M = ref_operator(ml, 'V')
        if not np.isfinite(xf).all():
            viol.append('non-finite solution')
        elif kind != 'nonsym':
            rr = np.linalg.norm(r) / nb
            ctx.rel_err(0.0)
            if rr > tol * (1 + 1e-6):
                viol.append(f'relative residual {rr:.3e} exceeds the requested tolerance {tol:g} (Hermitian positive definite input)')
        else:
            prr = np.linalg.norm(M @ r) / np.linalg.norm(M @ b)
            if prr > tol * (1 + 1e-6):
                viol.append(f'preconditioned relative residual {prr:.3e} exceeds the requested tolerance {tol:g} (nonsymmetric M-matrix)')
        if res is not None and (len(res) < 1 or res[0] == 55.0):
            viol.append('the residual list was not populated')
    # ---- dispatch vs the model
    called = [(nm, k) for nm, ks in recs.items() for k in ks]
    obs = []
    for nm, k in called:
        x0k = k.get('x0')
        x0f = '1' if x0k is not None else '0'
        obs.append(','.join(['k:' + nm, 'pyamg' if 'tol' in k else 'scipy', x0f,
                             enc_rat(k['tol']) if k.get('tol') is not None else '_', '_', '_', str(k.get('maxiter')),
                             'V' if (k.get('M') is not None and close(k['M'] @ np.ravel(b), M @ np.ravel(b), 1e-6)) else 'unknown',
                             'none' if k.get('callback') is None else 'user',
                             '1' if (res is not None and k.get('residuals') is res) else ('0' if k.get('residuals') is None else 'other')]))
        if spec['x0'] and (x0k is None or not np.array_equal(np.ravel(x0k), x0)):
            viol.append('the caller\'s x0 did not reach the accelerator')
    if len(called) != 1:
        viol.append(f'the black-box call ran {len(called)} native accelerator calls (cg/gmres) instead of one')
    elif called[0][0] != ('gmres' if sym != 'hermitian' else 'cg'):
        viol.append(f'{called[0][0]} was used for a solver marked {sym}')
    for v in viol:
        ctx.violation(f'{label}: {v}', case)
    ex_tok = '_ _' if existing is None else f'{existing.levels[0].A.shape[0]} {existing.levels[0].A.symmetry}'
    # `hermitian` flag as the code detects it
    from pyamg.util.linalg import ishermitian
    herm = int(bool(ishermitian(sp.csr_array(Acsr), fast_check=True)))
    line = (f'c08_bb {ex_tok} {n} {herm} {int(bool(ml.symmetric_smoothing))} {enc_rat(tol)} {maxiter} {int(spec["x0"])} 0 '
            f'{int(spec["res"])} {int(spec["ret"])} {enc_ints(bshape)}')
    setup = '_' if existing is not None else sym
    observed = (f'run;{setup};{int(not spec["x0"])};{enc_ints(x.shape)};{int(isinstance(out, tuple))};'
                f'run;0;0;0;' + '|'.join(obs))
    ctx.case(key=_key('C', sorted(spec.items(), key=str)), nontrivial=(len(ml.levels) > 1 or existing is not None),
             sample={'case': label, 'levels': len(ml.levels), 'accel': called[0][0] if called else None} if ctx.evaluations % 7 == 0 else None)
    ctx.feat('C:format=' + spec['format'])
    ctx.feat('C:kind=' + kind)
    ctx.feat('C:levels=' + ('1' if len(ml.levels) == 1 else 'multi'))
    ctx.feat('C:reuse=' + str(spec['reuse']))
    return line, observed, case


def part_c(ctx, nsmall, nbig):
    rng = ctx.np_rng
    items = []
    small = ['convdiff', 'poisson2d', 'nsm', 'herm', 'elas', 'convdiff', 'aniso', 'nsm', 'graphlap', 'poisson1d']
    bigs = ['convdiff', 'poisson2d', 'nsm', 'aniso', 'herm', 'graphlap', 'poisson1d']
    for t in range(nsmall + nbig):
        big = t >= nsmall
        nm = bigs[(t - nsmall) % len(bigs)] if big else small[t % len(small)]
        fmt = FORMATS[int(rng.integers(len(FORMATS)))] if t >= len(FORMATS) else FORMATS[t]
        if nm == 'elas':
            fmt = str(rng.choice(['bsr', 'csr', 'dense']))
        spec = {'matrix': nm, 'mseed': int(rng.integers(2**31)), 'big': int(big), 'format': fmt, 'bcol': int(rng.random() < 0.4),
                'x0': int(rng.random() < 0.4), 'tol': float(rng.choice([1e-3, 1e-5, 1e-8, 1e-10])), 'maxiter': 400,
                'reuse': [1, 0, 2, 0, 1, 2, 0][t % 7] if t < 21 else int(rng.choice([0, 0, 1, 2])),
                'ret': int(rng.random() < 0.5), 'res': int(rng.random() < 0.6),
                'vseed': int(rng.integers(2**31)), 'npseed': int(rng.integers(2**31))}
        r = bb_case(ctx, spec)
        if r is not None:
            items.append(r)
    # error branch of the model: a reused solver of another size
    items.append(('c08_bb 7 hermitian 9 1 1 1/1000 400 0 0 0 0 9', None, {'part': 'C-size'}))
    outs = ctx.lean([it[0] for it in items])
    for (line, obs, case), o in zip(items, outs):
        if obs is None:
            bb_size_case(ctx, o)
            continue
        ctx.feat('C:model')
        if o != obs:
            ctx.corr('c08_bb', case, o, obs)


def bb_size_case(ctx, model_reply):
    import pyamg
    from pyamg.gallery import poisson
    ml = pyamg.smoothed_aggregation_solver(i32(poisson((7,), format='csr')))
    A = i32(poisson((9,), format='csr'))
    try:
        pyamg.solve(A, np.ones(9), existing_solver=ml, verb=False)
        got = 'run'
    except TypeError:
        got = 'raise;TypeError:size'
    except Exception as e:                    # noqa: BLE001
        got = 'raise;' + type(e).__name__
    ctx.case(key='C:size-mismatch', nontrivial=True)
    if got != model_reply:
        ctx.corr('c08_bb', {'part': 'C-size'}, model_reply, got)
        if got == 'run':
            ctx.violation('pyamg.solve accepted an existing solver whose finest matrix has another size', {'part': 'C-size'})


# ------------------------------------------------------------------------------------------------

def part_pylogic2(ctx):
    """extension E42: the accel branch of MultilevelSolver.solve and solver_configuration as GENERATED from the working tree
    (harness/py2lean2.py, Generated/PyLogic2.lean) vs the real functions executed against mock objects"""
    import extpy2

    def lean(c, lines):
        return c.lean(lines)
    batch = extpy2.Batch()
    extpy2.part_solve(ctx, ctx.scale(300, 6000), batch, True)
    extpy2.part_solver_configuration(ctx, ctx.scale(200, 4000), batch)
    batch.run(ctx, lean)


def part_pylogic3(ctx):
    """extension E57: MultilevelSolver.__solve (what the F-cycle does with cycles_per_level, the cycle types) as GENERATED from the
    working tree (harness/py2lean3_cycle.py) vs the real method executed against mock hierarchies (harness/extpy3_cycle.py)"""
    import extpy3_cycle

    def lean(c, lines):
        return c.lean(lines)
    extpy3_cycle.part_cycle(ctx, ctx.scale(120, 3000), lean)


def run(ctx):
    np.seterr(all='ignore')
    part_pylogic2(ctx)
    part_pylogic3(ctx)
    part_a(ctx, ctx.scale(220, 8000))
    part_b(ctx, ctx.scale(26, 1400), ctx.scale(14, 24))
    part_c(ctx, ctx.scale(8, 140), ctx.scale(5, 140))
    part_d(ctx, ctx.scale(22, 400), ctx.scale(8, 16))


def search(ctx):
    np.seterr(all='ignore')
    part_a(ctx, 400)
    part_b(ctx, 60, 20)
    part_c(ctx, 10, 6)
    part_d(ctx, 44, 10)


def replay(ctx, data):
    case = data['case']
    part = case.get('part')
    spec = {k: v for k, v in case.items() if k != 'part'}
    print('replaying', case)
    if part == 'A':
        line, obs, run_line, run_obs, _ = wiring_case(ctx, spec)
        outs = ctx.lean([line] + ([run_line] if run_line else []))
        print('  model   :', outs[0])
        print('  observed:', obs)
        if outs[0] != obs:
            ctx.corr('c08_plan', case, outs[0], obs)
        if run_line:
            print('  model (caller\'s observables):', outs[1])
            print('  observed                     :', run_obs)
            if not run_agrees(outs[1], run_obs):
                ctx.corr('c08_run', case, outs[1], str(run_obs))
    elif part == 'B':
        r = solve_case(ctx, spec)
        if r is not None:
            o = ctx.lean([r[0]])[0]
            print('  skeleton replay model:', o, ' observed:', r[1])
            if o != r[1]:
                ctx.corr('c08_native', case, o, r[1])
    elif part == 'C':
        r = bb_case(ctx, spec)
        if r is not None:
            o = ctx.lean([r[0]])[0]
            print('  model   :', o)
            print('  observed:', r[1])
            if o != r[1]:
                ctx.corr('c08_bb', case, o, r[1])
    elif part == 'D':
        crit_case(ctx, spec)
    elif part == 'C-size':
        bb_size_case(ctx, ctx.lean(['c08_bb 7 hermitian 9 1 1 1/1000 400 0 0 0 0 9'])[0])
    for v in ctx.violations[:8]:
        print('  ', v['what'])
