"""C05 -- a solver that reports symmetric smoothing yields a Hermitian (and definite) preconditioner.

correspondence : (T) the tables of smoothing.py (SYMMETRIC_RELAXATION, KRYLOV_RELAXATION, defaults, the
                 setup register with the keyword arguments of every setup function) vs the Lean model's tables;
                 (A) `ml.symmetric_smoothing` after `change_smoothers` / after the constructors' own call, the
                 names installed per level and the CG warning vs the Lean decision-table model
                 `PyamgV.C05.flag` (exact) on the enumerated decision domain;
                 (B) the dense matrix of `aspreconditioner('V'|'W')` vs the Lean cycle model
                 `PyamgV.C05.denseM` (exact rational / Gaussian-rational arithmetic, compared with tolerance
                 1e-9) on hand-built exact hierarchies and on hierarchies of the real constructors; the model
                 also decides exactly M = M^H, "post-smoother = adjoint of the pre-smoother on every level" and
                 "M equals the textbook operator Mop", the hypotheses / conclusions of the theorems.
                 (B') extension E36: the extended cycle model `PyamgV.C05Y.denseMY` (chebyshev / richardson with the coefficients
                 of the installed closures, block_jacobi / block_gauss_seidel with block size 2 and exactly inverted diagonal
                 blocks, jacobi_ne, gauss_seidel_ne, gauss_seidel_nr; mixed per-level lists) vs aspreconditioner on hand-built
                 exact hierarchies, with the model's exact Booleans "Q_post = Q_pre^H", "Q_post A = (Q_pre A)^H",
                 "A Q_post = (A Q_pre)^H", "M = M^H", "M positive definite".
search         : dense M of aspreconditioner('V'|'W') on small Hermitian problems (real and complex; Ruge-Stuben,
                 smoothed aggregation, root-node, pairwise, adaptive SA, BSR) for enumerated and random smoother pairs:
                 flag True => ||M - M^H||_F <= 1e-10 ||M||_F and lambda_min(M) > 0; the CG warning fires iff the
                 flag is False.
"""
import hashlib
import inspect
import itertools
import json
import warnings

import numpy as np
import scipy.sparse as sp

import gen
from common import enc_ints, enc_rats, enc_crats, enc_rat, frac

META = {
    'rule': 'decision table: every ordered pair of the smoother "atoms" (all 21 registry names and None x sweeps x iterations x '
            'omega/degree/blocksize/withrho/f_/c_iterations variants, plus unknown names and keywords the setup functions reject) '
            'as single entries (str / tuple / one-element list), per-level lists of lengths 1-4 (every position of a mismatching '
            'entry, every combination of 8 specifications where the tail of the longer list meets the repeated last entry of the '
            'shorter one, random mixtures) against hierarchies with 1-4 levels, and the constructors\' own presmoother/postsmoother '
            'arguments; non-trivial = at least one smoothing level; distinct = distinct (pre, post, levels) rows. '
            'cycles: (hierarchy, pre, post, V|W) with n >= 2 unknowns and 2-6 levels (hand-built exact integer/dyadic hierarchies, '
            'real and complex; Ruge-Stuben, SA, root-node, pairwise, adaptive SA, BSR hierarchies of SPD matrices); a fixed core of '
            '65 (constructor, matrix, pair) cases runs whatever the seed; distinct by content hash. '
            'extended cycles (E36): hand-built exact hierarchies (2-4 levels, real and complex) with per-level lists over chebyshev, '
            'richardson, block_jacobi / block_gauss_seidel (blocksize 2 where it divides the level size), jacobi_ne, gauss_seidel_ne, '
            'gauss_seidel_nr and smoothers of the first model, partner or near-miss post-smoothers; non-trivial = n >= 2',
    'search_only': [
        'smoothers outside both cycle models (Schwarz, strength-based Schwarz, withrho=True rescaling, BSR level matrices, explicit '
        'Dinv arguments, cf_/fc_block_jacobi): M = M^H and definiteness are decided by the dense-M search on the real code only; '
        'their flag logic is still model-compared row by row (Chebyshev, Richardson, block size > 1 and the normal-equation '
        'smoothers are inside the extended cycle model of E36)',
        'complex Hermitian matrices: the adjointness / definiteness theorems of the first rounds are stated over ordered fields; the '
        'complex executed model is covered by the order-free refinement chain and the Hermitian adjointness theory over fields with '
        'involution (flag_denseM_hermitian_checked_crat); definiteness for complex data is decided by the search on the real code',
        'positive definiteness: for Gauss-Seidel / SOR (0 < omega < 2, any sweep mode) and damped Jacobi under omega A < 2 D it is '
        'proved from the parameters (flag_cycle_spd: strict finest smoother, non-expansive rest, Galerkin hierarchy, energy-exact '
        'coarsest solve; real symmetric case) and the exact model matrix is required to be positive definite on such instances; for '
        'the other families (polynomial, block, cf/fc Jacobi, complex data) precond_psd / precond_pd still reduce it to an energy '
        'reduction that is observed (lambda_min(M) > 0 on the real code)',
        'the CG warning: the consumer `accel == "cg" and not symmetric_smoothing` is a one-line model (cgWarns); the real '
        'solve(accel="cg") is observed to warn iff the flag is False (V and W cycles)',
    ],
    'partial': [
        'levelOk_partner / partner_adjoint / flag_cycle_symmetric cover hierarchies whose installed smoothers are gauss_seidel, sor, '
        'jacobi, cf_/fc_jacobi (no spectral rescaling), block_gauss_seidel / block_jacobi with block size 1, or None; E36 adds '
        'levelOk_partnerY / partnerY_adjoint / flag_cycle_symmetricY for chebyshev, richardson (poly_pair), block_jacobi / '
        'block_gauss_seidel with any block size (blockJacobi_pair, blockSweep_pair, blockSweep_symmetric) at the operator level: the '
        'step operators of a family are level data with the hypothesis that they are symmetric; the executed array smoothers are '
        'proved to be these operators for the polynomial family (executed_poly_smoother) and for block Gauss-Seidel / block Jacobi on '
        'the BSR copy (executed_bgs_smoother, executed_bjac_smoother, executed_bgs_pair; hypotheses Dinv_i B_ii = I, symmetric inverse '
        'blocks, bsrLin B symmetric: not discharged by a proved Boolean checker, and csr -> bsr conversion is not proved to preserve '
        'the operator); the executed recursion denseMY over the extended smoothers has no refinement theorem -- the exact Booleans the '
        'driver computes on every instance (adjoint pairs, M = M^H) are the cross-check. Schwarz and spectral rescaling have no '
        'adjointness theorem',
        'normal-equation smoothers: no symmetric-M theorem exists because the statement is false (finding '
        'ne-nr-smoothers-flagged-symmetric; kernel-evaluated 2x2 counterexamples jacobi_ne_counterexample, '
        'gauss_seidel_ne_counterexample, gauss_seidel_nr_counterexample); what is proved instead is which adjoint they have: '
        'ne_sweep_err_adj / jacobi_ne_err_selfadj (error propagators adjoint for the Euclidean form), nr_sweep_res_adj (residual '
        'propagators), and the model Booleans erradj / resadj are required to hold on every flagged NE / NR instance',
        'flag_cycle_spd (definiteness from parameters) is an operator-level theorem over the abstract recursion cyc with the '
        'hypotheses WFL, WFFlag, WFH\' (Galerkin coarse operators, R adjoint to P in the energy sense, energy-exact coarsest solve); it '
        'is not transported to the executed matrix denseM by a refinement theorem: the driver decides positive definiteness of the '
        'exact model matrix per instance (symmetric elimination) instead; damped Jacobi needs the matrix bound omega A < 2 D '
        '(JacBound), which is a hypothesis, not derived from diagonal dominance',
        'real case: the executable array model of the cycle (denseM, compared with the real M) is proved to be the matrix of the '
        'textbook operator MopL/Mop over smOp (denseM_is_textbook_operator, denseM_is_Mop) and to be symmetric when the flag is True '
        '(flag_denseM_symmetric; hypotheses: matching shapes, one stored non-zero diagonal entry per row, symmetric level matrices, '
        'R = P^T as CSR operators); these hypotheses are discharged by the Boolean checker c05Check evaluated by the driver on the '
        'concrete CSR data of every hierarchy (op ext_c05_symh; soundness: shaped_of_B, lvlOK_of_B, installed_of_B, symH_of_check; '
        'flag_denseM_symmetric_checked: flag True and c05Check true => denseM symmetric, no undecided hypothesis), and every exactly '
        'Hermitian generated hierarchy is required to pass it; complex (Gaussian-rational) case: the same chain re-proved over an '
        'arbitrary field (namespace PyamgV.CF: field_denseM_is_textbook_operator) and over a field with involution '
        '(flag_denseM_hermitian_checked_crat: flag True and c05Check CRat.conj true => the executed complex denseM satisfies '
        'M i j = conj (M j i)); the exact per-instance comparisons computed in Lean (M equals the Mop formula, post-smoother matrix = '
        'conjugate transpose of the pre-smoother matrix, M = M^H) are kept as cross-checks of model and theorems',
    ],
    'assumptions': [
        'R = P^H, A Hermitian on every level, non-singular coarsest matrix solved exactly (pinv/splu/lu/cholesky): checked per '
        'instance on the real hierarchy, instances that fail are skipped and counted',
        'rounding: the dense M of the real code is compared with the exact model within 1e-9 relative (Frobenius); symmetry of the '
        'real M is judged at 1e-10 relative; lambda_min(M) > 1e-11 lambda_max(M)',
        'definiteness is required only for positive definite A and when every installed smoother is non-expansive in the energy norm '
        '(||I - QA||_A <= 1, measured on the real smoothers when lambda_min(M) <= 0), the hypothesis of precond_psd / precond_pd; '
        'omega is drawn from the documented range (0, 2)',
    ],
}

TOL_SYM = 1e-10
STATS = {'asym': 0.0, 'asym_case': None, 'model': 0.0}
TOL_MODEL = 1e-9
WARN_TEXT = 'non-symmetric multigrid preconditioner'

NE_NAMES = ('gauss_seidel_ne', 'gauss_seidel_nr', 'jacobi_ne')


def lean(ctx, lines):
    """ctx.lean with a few retries: while another property's Lean files are being rebuilt the shared driver
    (`lean --run Main.lean`) can fail to load for a moment"""
    import time
    from common import InfraError
    for attempt in range(6):
        try:
            return ctx.lean(lines)
        except InfraError as ex:
            if 'lean driver failed' not in str(ex) or attempt == 5:
                raise
            time.sleep(10)


def _key(*a):
    return hashlib.sha1(repr(a).encode()).hexdigest()


# ------------------------------------------------------------------------------------------------
# specifications: (name | None, kwargs) ; encoding for the Lean driver and for JSON replays
# ------------------------------------------------------------------------------------------------

def unpack(spec):
    if isinstance(spec, (tuple, list)):
        return spec[0], dict(spec[1])
    return spec, {}


def as_list(s):
    return list(s) if isinstance(s, list) else [s]


def enc_val(v):
    if v is None:
        return 'N'
    if isinstance(v, (bool, np.bool_)):
        return 'n1' if v else 'n0'
    if isinstance(v, (int, float, np.integer, np.floating)):
        return 'n' + enc_rat(v)
    if isinstance(v, str):
        return 's' + v
    return 'o' + type(v).__name__ + str(id(v))


def enc_spec(spec):
    nm, kw = unpack(spec)
    return '~'.join(['_' if nm is None else nm] + [f'{k}={enc_val(v)}' for k, v in kw.items()])


def enc_specs(specs):
    return '|'.join(enc_spec(s) for s in as_list(specs))


def json_specs(specs):
    return [[unpack(s)[0], unpack(s)[1]] for s in as_list(specs)]


def from_json_specs(js):
    return [(nm, dict(kw)) if kw else nm for nm, kw in js]


def level_pair(pre, post, i):
    pre, post = as_list(pre), as_list(post)
    return unpack(pre[min(i, len(pre) - 1)]), unpack(post[min(i, len(post) - 1)])


# ------------------------------------------------------------------------------------------------
# the atoms of the decision domain
# ------------------------------------------------------------------------------------------------

def atoms(full):
    A = [None, 'none']
    sw = ['forward', 'backward', 'symmetric']
    for nm in ('gauss_seidel', 'block_gauss_seidel', 'schwarz', 'strength_based_schwarz'):
        A.append(nm)
        for s in sw:
            A.append((nm, {'sweep': s}))
        A.append((nm, {'sweep': 'forward', 'iterations': 2}))
        A.append((nm, {'sweep': 'backward', 'iterations': 2}))
        A.append((nm, {'iterations': 1, 'sweep': 'backward'}))
    A.append(('block_gauss_seidel', {'sweep': 'backward', 'blocksize': 1}))
    A.append(('block_gauss_seidel', {'sweep': 'forward', 'blocksize': 2}))
    A.append(('block_gauss_seidel', {'sweep': 'backward', 'blocksize': 2}))
    for nm in ('sor', 'gauss_seidel_ne', 'gauss_seidel_nr'):
        A.append(nm)
        for s in sw:
            A.append((nm, {'sweep': s}))
            A.append((nm, {'sweep': s, 'omega': 0.75}))
        A.append((nm, {'sweep': 'backward', 'omega': 1.25}))
        A.append((nm, {'sweep': 'backward', 'omega': 0.75, 'iterations': 2}))
        A.append((nm, {'sweep': 'forward', 'omega': 0.75, 'iterations': 2}))
    for nm in ('jacobi', 'block_jacobi', 'jacobi_ne'):
        A += [nm, (nm, {'omega': 0.75}), (nm, {'omega': 0.5}), (nm, {'iterations': 2}), (nm, {'iterations': 1}),
              (nm, {'withrho': False}), (nm, {'omega': 0.75, 'withrho': False}), (nm, {'omega': 1.0})]
    A += [('block_jacobi', {'blocksize': 2}), ('block_jacobi', {'blocksize': 1})]
    A += ['richardson', ('richardson', {'omega': 0.75}), ('richardson', {'iterations': 2})]
    A += ['chebyshev', ('chebyshev', {'degree': 2}), ('chebyshev', {'degree': 3}), ('chebyshev', {'iterations': 2}),
          ('chebyshev', {'lower_bound': 0.125})]
    for nm in ('cf_jacobi', 'fc_jacobi', 'cf_block_jacobi', 'fc_block_jacobi'):
        A += [nm, (nm, {'f_iterations': 2}), (nm, {'c_iterations': 2}), (nm, {'iterations': 2}),
              (nm, {'omega': 0.75}), (nm, {'f_iterations': 2, 'c_iterations': 2, 'iterations': 2})]
        if full:
            A += [(nm, {'withrho': True}), (nm, {'f_iterations': 1}), (nm, {'omega': 0.75, 'f_iterations': 2})]
    for nm in ('cg', 'gmres', 'cgne', 'cgnr'):
        A += [nm, (nm, {'maxiter': 2})]
    # keywords the setup functions do not take / unknown names: change_smoothers raises
    A += [('gauss_seidel', {'omega': 1.0}), ('jacobi', {'sweep': 'forward'}), ('cg', {'iterations': 2}), 'gauss', ('sor', {'degree': 2})]
    if full:
        A += [('sor', {'sweep': 'symmetric', 'omega': 1.25}), ('gauss_seidel', {'sweep': 'symmetric', 'iterations': 2}),
              ('jacobi', {'omega': 0.75, 'iterations': 2}), ('chebyshev', {'degree': 2, 'iterations': 2}),
              ('schwarz', {'sweep': 'symmetric', 'iterations': 2}), ('richardson', {'omega': 0.75, 'iterations': 2})]
    return A


def flip(spec):
    """the natural partner of a specification: same options, sweep reversed, cf <-> fc"""
    nm, kw = unpack(spec)
    kw = dict(kw)
    if 'sweep' in kw:
        kw['sweep'] = {'forward': 'backward', 'backward': 'forward'}.get(kw['sweep'], kw['sweep'])
    elif nm in ('gauss_seidel', 'block_gauss_seidel', 'schwarz', 'strength_based_schwarz', 'sor', 'gauss_seidel_ne', 'gauss_seidel_nr'):
        kw['sweep'] = 'backward'
    if isinstance(nm, str) and nm[:3] in ('cf_', 'fc_'):
        nm = ('fc_' if nm[:3] == 'cf_' else 'cf_') + nm[3:]
    return (nm, kw) if kw else nm


# ------------------------------------------------------------------------------------------------
# real code: flag, installed names, warning
# ------------------------------------------------------------------------------------------------

def real_flag(ml, pre, post):
    """'true' / 'false' as set by change_smoothers, 'reject' when it raises ValueError/TypeError"""
    from pyamg.relaxation.smoothing import change_smoothers
    try:
        change_smoothers(ml, pre, post)
    except (ValueError, TypeError):
        return 'reject'
    except Exception as ex:           # a setup function failed for a reason of its own (outside C05): not a flag value
        return 'raised:' + type(ex).__name__
    return 'true' if ml.symmetric_smoothing else 'false'


def installed_names(ml):
    out = []
    for lvl in ml.levels[:-1]:
        a = getattr(lvl.presmoother, '__name__', '?')
        b = getattr(lvl.postsmoother, '__name__', '?')
        out.append(('_' if a == 'none' else a) + '/' + ('_' if b == 'none' else b))
    return ','.join(out) if out else '-'


def cg_warns(ml, rng):
    n = ml.levels[0].A.shape[0]
    cyc = 'VW'[int(rng.integers(2))]
    b = rng.integers(-3, 4, size=n).astype(ml.levels[0].A.dtype)
    b[0] += 1
    with warnings.catch_warnings(record=True) as w:
        warnings.simplefilter('always')
        try:
            ml.solve(b, accel='cg', maxiter=2, tol=1e-8, cycle=cyc)
        except Exception:      # a non-SPD preconditioner may break CG; only the warning matters here
            pass
    return any(WARN_TEXT in str(x.message) for x in w)


_BASE = {}


def base_solver(nl):
    """Ruge-Stuben hierarchy (with CF splittings) of the 1-D Poisson matrix with exactly nl+1 levels"""
    import pyamg
    if nl not in _BASE:
        A = pyamg.gallery.poisson((24,), format='csr')
        ml = pyamg.ruge_stuben_solver(A, max_levels=nl + 1, max_coarse=1)
        assert len(ml.levels) == nl + 1, [l.A.shape for l in ml.levels]
        _BASE[nl] = ml
    return _BASE[nl]


# ------------------------------------------------------------------------------------------------
# part T: tables
# ------------------------------------------------------------------------------------------------

def part_tables(ctx):
    from pyamg.relaxation import smoothing as S
    out = lean(ctx, ['c05_tables'])[0].split(' ')
    lst = lambda xs: ','.join('_' if x is None else str(x) for x in xs) if xs else '-'
    reg = S._setup_call
    names = ['gauss_seidel', 'jacobi', 'schwarz', 'strength_based_schwarz', 'block_jacobi', 'block_gauss_seidel',
             'richardson', 'sor', 'chebyshev', 'jacobi_ne', 'gauss_seidel_ne', 'gauss_seidel_nr', 'cf_jacobi', 'fc_jacobi',
             'cf_block_jacobi', 'fc_block_jacobi', 'gmres', 'cg', 'cgne', 'cgnr', 'none', None]
    regs = []
    for nm in names:
        try:
            f = reg(nm)
            keys = [p for p in inspect.signature(f).parameters][1:]
        except Exception as ex:
            keys = ['<' + type(ex).__name__ + '>']
        regs.append(('_' if nm is None else nm) + ':' + (','.join(keys) if keys else '-'))
    impl = [lst(S.SYMMETRIC_RELAXATION), lst(S.KRYLOV_RELAXATION), str(S.DEFAULT_SWEEP), str(S.DEFAULT_NITER), ';'.join(regs)]
    for what, m, i in zip(('SYMMETRIC_RELAXATION', 'KRYLOV_RELAXATION', 'DEFAULT_SWEEP', 'DEFAULT_NITER', 'setup register'), out, impl):
        ctx.case(key='table:' + what, nontrivial=True, sample={'table': what, 'model': m[:120], 'impl': i[:120]})
        if m != i:
            ctx.corr('table ' + what, {'kind': 'table', 'table': what}, m, i)


# ------------------------------------------------------------------------------------------------
# part A: decision table
# ------------------------------------------------------------------------------------------------

def table_rows(ctx):
    rng = ctx.np_rng
    full = not ctx.quick
    At = atoms(full)
    rows = []
    # (1) every ordered pair of atoms as single entries
    for a, b in itertools.product(At, At):
        if ctx.quick:
            na, nb = unpack(a)[0], unpack(b)[0]
            fam = lambda n: None if n is None else n.replace('fc_', 'cf_')
            if fam(na) != fam(nb) and rng.random() < 0.85:        # unequal families: mostly the same branch
                continue
        for nl in ((1, 3) if ctx.quick else (0, 1, 2, 3)):
            if ctx.quick and nl == 3 and rng.random() < 0.6:
                continue
            rows.append((a if rng.random() < 0.5 else [a], b if rng.random() < 0.5 else [b], nl))
    # (2) lists: every position of one mismatching / one differing entry
    good = [(('gauss_seidel', {'sweep': 'forward'}), ('gauss_seidel', {'sweep': 'backward'})),
            ('jacobi', 'jacobi'),
            (('sor', {'sweep': 'symmetric', 'omega': 0.75}), ('sor', {'sweep': 'symmetric', 'omega': 0.75})),
            ('cf_jacobi', 'fc_jacobi'), (None, None)]
    bads = [('jacobi', ('gauss_seidel', {'sweep': 'backward'})),
            (('gauss_seidel', {'sweep': 'forward'}), ('gauss_seidel', {'sweep': 'forward'})),
            (('jacobi', {'iterations': 2}), 'jacobi'),
            (('sor', {'sweep': 'symmetric', 'omega': 0.75}), ('sor', {'sweep': 'symmetric', 'omega': 1.25})),
            ('cg', 'cg'), (('cf_jacobi', {'f_iterations': 2}), 'fc_jacobi')]
    for lp, lq, nl in itertools.product((1, 2, 3, 4), (1, 2, 3, 4), (0, 1, 2, 3)):
        for g in range(len(good) if full else 2):
            gp, gq = good[(g + lp + lq) % len(good)]
            rows.append(([gp] * lp, [gq] * lq, nl))
            for side, k in [('p', k) for k in range(lp)] + [('q', k) for k in range(lq)]:
                for bp, bq in (bads if full else [bads[int(rng.integers(len(bads)))]]):
                    P, Q = [gp] * lp, [gq] * lq
                    if side == 'p':
                        P[k] = bp
                        if k < lq and rng.random() < 0.3:
                            Q[k] = bq          # a consistent-but-bad pair at position k
                    else:
                        Q[k] = bq
                    rows.append((P, Q, nl))
    # (2b) lists of different length: the tail of the longer list meets the repeated last entry of the shorter one --
    # every combination of a compact set of specifications there, the levels before it being fine
    S = [('gauss_seidel', {'sweep': 'forward'}), ('gauss_seidel', {'sweep': 'backward'}), ('gauss_seidel', {'sweep': 'symmetric'}),
         'jacobi', ('jacobi', {'iterations': 2}), ('sor', {'sweep': 'forward', 'omega': 0.75}), ('sor', {'sweep': 'backward', 'omega': 0.75}),
         ('sor', {'sweep': 'backward', 'omega': 1.25})]
    for ls, ll in ((1, 2), (1, 3), (2, 3), (2, 4)):
        for k in range(ls, ll):
            for x, y in itertools.product(S, S):
                both_gs = unpack(x)[0] == 'gauss_seidel' and unpack(y)[0] == 'gauss_seidel'
                if ctx.quick and not both_gs and rng.random() < 0.5:
                    continue
                short = [flip(S[0])] * (ls - 1) + [y]
                long_ = [S[0]] * (ls - 1) + [flip(y)] + [flip(y)] * (ll - ls)
                long_[k] = x
                for nl in ((2, 3) if ls == 1 else (3,)):
                    rows.append((long_, short, nl))
                    rows.append((short, long_, nl))
    # (3) random mixtures, biased towards matching partners
    for _ in range(ctx.scale(350, 12000)):
        lp, lq = int(rng.integers(1, 4)), int(rng.integers(1, 4))
        P = [At[int(rng.integers(len(At)))] for _ in range(lp)]
        Q = []
        for i in range(lq):
            r = rng.random()
            src = P[min(i, lp - 1)]
            Q.append(flip(src) if r < 0.55 else src if r < 0.7 else At[int(rng.integers(len(At)))])
        rows.append((P, Q, int(rng.integers(0, 4))))
    return rows


_JUDGE = {}


def judge_solvers(nl):
    """2-D problems with exactly nl smoothing levels on which a wrongly kept flag shows (the 1-D table problem is too kind:
    its coarse-grid correction is nearly exact)"""
    import pyamg
    if nl not in _JUDGE:
        out = []
        A = pyamg.gallery.poisson((8, 8), format='csr')
        for ctor in (pyamg.ruge_stuben_solver, pyamg.smoothed_aggregation_solver):
            ml = ctor(A, max_levels=nl + 1, max_coarse=1)
            if len(ml.levels) == nl + 1:
                out.append(ml)
        _JUDGE[nl] = out
    return _JUDGE[nl]


def judge_flag_disagreement(ctx, pre, post, nl, m, r):
    """the model and the code disagree on a table row: does the real code violate the property there?"""
    if r != 'true' or nl < 1:
        return          # a flag that is False (or an exception) never violates C05 by itself
    if ctx.features['table:judged disagreements'] >= 60:
        return
    ctx.feat('table:judged disagreements')
    for ml in judge_solvers(nl):
        if real_flag(ml, pre, post) != 'true':
            continue
        for cyc in 'VW':
            a = asym(dense_M(ml, cyc))
            if a > TOL_SYM:
                A = ml.levels[0].A
                ctx.violation(f'change_smoothers reports symmetric_smoothing=True for pre={json_specs(pre)} post={json_specs(post)} on '
                              f'{nl + 1} levels ({[l.A.shape[0] for l in ml.levels]}), but the {cyc}-cycle preconditioner has '
                              f'||M - M^H||_F/||M||_F = {a:.3e}',
                              {'kind': 'table', 'pre': json_specs(pre), 'post': json_specs(post), 'nl': nl, 'cycle': cyc},
                              fkey=finding_key(pre, post, nl, 'asym'))
                return


def part_table(ctx):
    rows = table_rows(ctx)
    rng = ctx.np_rng
    lines, real, inst, warn = [], [], [], []
    for pre, post, nl in rows:
        ml = base_solver(nl)
        r = real_flag(ml, pre, post)
        real.append(r)
        inst.append(installed_names(ml) if r != 'reject' else None)
        warn.append(None)
        if r != 'reject' and nl >= 1 and rng.random() < (0.04 if ctx.quick else 0.1):
            warn[-1] = cg_warns(ml, rng)
        lines.append(f'c05_flag {enc_specs(pre)} {enc_specs(post)} {nl}')
        lines.append(f'c05_installed {enc_specs(pre)} {enc_specs(post)} {nl}')
    outs = lean(ctx, lines)
    for t, (pre, post, nl) in enumerate(rows):
        m, mi = outs[2 * t], outs[2 * t + 1].replace('none', '_')     # None and 'none' both install setup_none
        r = real[t]
        ctx.case(key=_key('tab', lines[2 * t]), nontrivial=nl >= 1,
                 sample={'row': lines[2 * t][:200], 'model': m, 'impl': r} if t % 997 == 0 else None)
        ctx.feat('table:' + r)
        ctx.feat(f'table:lens {len(as_list(pre))}/{len(as_list(post))} nl={nl}')
        case = {'kind': 'table', 'pre': json_specs(pre), 'post': json_specs(post), 'nl': nl}
        if m != r:
            ctx.corr('change_smoothers flag', case, m, r)
            judge_flag_disagreement(ctx, pre, post, nl, m, r)
        elif r != 'reject' and inst[t] != mi:
            ctx.corr('smoothers installed per level', case, mi, inst[t])
        if warn[t] is not None:
            ctx.feat('warning:checked')
            if warn[t] != (r == 'false'):
                ctx.violation(f'solve(accel="cg") {"warns" if warn[t] else "does not warn"} although symmetric_smoothing is {r} '
                              f'(pre={json_specs(pre)} post={json_specs(post)}, {nl + 1} levels)', {**case, 'warn': True})


def part_ctor_flags(ctx):
    """the flag as left by the constructors' own change_smoothers call (public path)"""
    import pyamg
    rng = ctx.np_rng
    At = [a for a in atoms(False) if unpack(a)[1].get('blocksize', 1) == 1]     # level sizes here are not all even
    A1 = pyamg.gallery.poisson((20,), format='csr')
    A2 = pyamg.gallery.poisson((5, 5), format='csr')
    ctors = [('ruge_stuben_solver', A1, {}), ('smoothed_aggregation_solver', A2, {}), ('rootnode_solver', A2, {}),
             ('pairwise_solver', A2, {}), ('smoothed_aggregation_solver', A1, {'symmetry': 'symmetric'})]
    rows, lines, real, inst = [], [], [], []
    for _ in range(ctx.scale(120, 1500)):
        nm, A, kw = ctors[int(rng.integers(len(ctors)))]
        lp, lq = int(rng.integers(1, 3)), int(rng.integers(1, 3))
        P = [At[int(rng.integers(len(At)))] for _ in range(lp)]
        Q = [flip(P[min(i, lp - 1)]) if rng.random() < 0.7 else At[int(rng.integers(len(At)))] for i in range(lq)]
        if nm != 'ruge_stuben_solver' and any(isinstance(unpack(s)[0], str) and unpack(s)[0][:3] in ('cf_', 'fc_') for s in P + Q):
            continue        # CF relaxation needs a splitting: classical hierarchies only
        if lp == 1 and rng.random() < 0.5:
            P = P[0]
        if lq == 1 and rng.random() < 0.5:
            Q = Q[0]
        # (smoothed_aggregation_solver / rootnode_solver raise IndexError for max_levels=1 whatever the smoothers: not C05)
        ml_kw = dict(kw, max_levels=int(rng.integers(1 if nm in ('ruge_stuben_solver', 'pairwise_solver') else 2, 5)), max_coarse=1,
                     presmoother=P, postsmoother=Q)
        try:
            # the number of levels is a property of the constructor, not of the smoothers: ask for it without them
            nl = len(getattr(pyamg, nm)(A, **{k: v for k, v in ml_kw.items() if k not in ('presmoother', 'postsmoother')}).levels) - 1
        except Exception as ex:
            ctx.feat(f'ctor-flag:{nm} raises {type(ex).__name__} without any smoother argument (skipped)')
            continue
        try:
            ml = getattr(pyamg, nm)(A, **ml_kw)
            r = 'true' if ml.symmetric_smoothing else 'false'
            names = installed_names(ml)
        except (ValueError, TypeError):
            ml, r, names = None, 'reject', None
        rows.append((nm, P, Q, nl))
        real.append(r)
        inst.append(names)
        lines.append(f'c05_flag {enc_specs(P)} {enc_specs(Q)} {nl}')
        lines.append(f'c05_installed {enc_specs(P)} {enc_specs(Q)} {nl}')
    outs = lean(ctx, lines)
    for t, (nm, P, Q, nl) in enumerate(rows):
        m, mi, r = outs[2 * t], outs[2 * t + 1].replace('none', '_'), real[t]
        ctx.case(key=_key('ctor', nm, lines[2 * t]), nontrivial=nl >= 1)
        ctx.feat('ctor-flag:' + nm)
        case = {'kind': 'ctor-flag', 'ctor': nm, 'pre': json_specs(P), 'post': json_specs(Q), 'nl': nl}
        if m != r:
            ctx.corr(f'{nm}(presmoother, postsmoother).symmetric_smoothing', case, m, r)
        elif r != 'reject' and inst[t] != mi:
            ctx.corr(f'{nm}: smoothers installed per level', case, mi, inst[t])


# ------------------------------------------------------------------------------------------------
# dense preconditioner, oracles
# ------------------------------------------------------------------------------------------------

def dense_M(ml, cyc):
    A = ml.levels[0].A
    n = A.shape[0]
    Mop = ml.aspreconditioner(cycle=cyc)
    I = np.eye(n, dtype=A.dtype)
    return np.column_stack([np.asarray(Mop.matvec(I[:, j].copy())).ravel() for j in range(n)])


def asym(M):
    nrm = np.linalg.norm(M)
    if not np.isfinite(nrm):
        return float('inf')
    return float(np.linalg.norm(M - M.conj().T) / nrm) if nrm > 0 else 0.0


def eig_range(M):
    ev = np.linalg.eigvalsh((M + M.conj().T) / 2)
    return float(ev.min()), float(ev.max())


def hierarchy_hermitian(ml):
    """R = P^H and A = A^H on every level (exactly), as the property assumes"""
    for i, lvl in enumerate(ml.levels):
        A = sp.csr_array(lvl.A)
        if abs(A - A.conj().T).max() > 1e-12 * max(1.0, abs(A).max()):
            return False
        if i < len(ml.levels) - 1:
            R, P = sp.csr_array(lvl.R), sp.csr_array(lvl.P)
            if R.shape != P.shape[::-1]:
                return False
            D = R - P.conj().T
            if D.nnz and abs(D).max() > 1e-14 * max(1.0, abs(P).max()):
                return False
    return True


def contraction_norms(ml):
    """||I - Q A||_A of the installed pre- and post-smoother on every smoothing level (measured on the real smoothers)"""
    out = []
    for lvl in ml.levels[:-1]:
        A = lvl.A
        Ad = sp.csr_array(A).toarray()
        n = Ad.shape[0]
        w, V = np.linalg.eigh(Ad)
        if w.min() <= 0:
            out.append((np.inf, np.inf))
            continue
        Ah = (V * np.sqrt(w)) @ V.conj().T
        Ahi = (V / np.sqrt(w)) @ V.conj().T
        pair = []
        for sm in (lvl.presmoother, lvl.postsmoother):
            Q = np.zeros((n, n), dtype=Ad.dtype)
            for j in range(n):
                x = np.zeros(n, dtype=Ad.dtype)
                b = np.zeros(n, dtype=Ad.dtype)
                b[j] = 1
                sm(A, x, b)
                Q[:, j] = x
            E = np.eye(n) - Q @ Ad
            pair.append(float(np.linalg.norm(Ah @ E @ Ahi, 2)))
        out.append(tuple(pair))
    return out


def finding_key(pre, post, nl, what):
    """classification of a violating input against the recorded findings (by the shape of the input only)"""
    pairs = [level_pair(pre, post, i) for i in range(max(nl, 1))]
    if what == 'asym':
        # finding 4b: the normal-equation smoothers are listed/treated as symmetric although A Q is not Hermitian
        if any(a[0] == b[0] and a[0] in NE_NAMES for a, b in pairs):
            return 'ne-nr-smoothers-flagged-symmetric'
    if what == 'semidefinite':
        # no smoothing at all on the finest level: M = P M_c R has rank < n
        (a, b) = pairs[0]
        if a[0] is None and b[0] is None:
            return 'no-finest-smoothing-semidefinite'
    return None


def judge_real(ctx, ml, pre, post, case, cycles='VW', M_cache=None, pd=True):
    """the property on the real solver `ml` (smoothers installed): returns the dense M per cycle"""
    out = {}
    flag = bool(ml.symmetric_smoothing)
    nl = len(ml.levels) - 1
    for cyc in cycles:
        M = M_cache[cyc] if M_cache and cyc in M_cache else dense_M(ml, cyc)
        out[cyc] = M
        if not flag:
            continue
        if not np.isfinite(M).all():
            ctx.violation(f'symmetric_smoothing=True but the {cyc}-cycle preconditioner is not finite', {**case, 'cycle': cyc})
            continue
        a = asym(M)
        ctx.rel_err(min(a, 1.0) if a <= TOL_SYM else 0.0)
        if STATS['asym'] < a <= TOL_SYM and not any(unpack(x)[0] in NE_NAMES for x in as_list(pre) + as_list(post)):
            STATS['asym'], STATS['asym_case'] = a, (case.get('ctor', case.get('kind')), case.get('pre'), case.get('post'), cyc, M.shape[0])
        if a > TOL_SYM:
            ctx.violation(f'symmetric_smoothing=True (A Hermitian, R = P^H) but the {cyc}-cycle preconditioner is not Hermitian: '
                          f'||M - M^H||_F/||M||_F = {a:.3e} (pre={case.get("pre")}, post={case.get("post")})',
                          {**case, 'cycle': cyc}, fkey=finding_key(pre, post, nl, 'asym'), detail={'asym': a})
            continue
        if pd:
            if 'A_pd' not in out:
                wA = np.linalg.eigvalsh(sp.csr_array(ml.levels[0].A).toarray())
                out['A_pd'] = bool(wA.min() > 1e-10 * wA.max())
                if not out['A_pd']:
                    ctx.feat('definiteness not required: A is only semidefinite')
            if not out['A_pd']:
                continue
            lo, hi = eig_range(M)
            if not lo > 1e-11 * hi:
                norms = contraction_norms(ml)
                if any(v > 1 + 1e-9 for pair in norms for v in pair):
                    # an installed smoother increases the energy norm of some error (e.g. unscaled Jacobi on a matrix that is
                    # not diagonally dominant): no cycle built on it can be definite -- parameter choice, not the flag's subject
                    ctx.feat('definiteness not required: an installed smoother is not non-expansive in the energy norm')
                    continue
                k = finding_key(pre, post, nl, 'semidefinite') if abs(lo) <= 1e-9 * hi else None
                ctx.violation(f'symmetric_smoothing=True and A positive definite, but the {cyc}-cycle preconditioner is not positive '
                              f'definite: lambda_min = {lo:.3e}, lambda_max = {hi:.3e}; energy norms of the smoothers per level {norms} '
                              f'(pre={case.get("pre")}, post={case.get("post")})', {**case, 'cycle': cyc}, fkey=k)
    return out


# ------------------------------------------------------------------------------------------------
# hierarchies
# ------------------------------------------------------------------------------------------------

def _csr(M, dtype):
    return gen.int32csr(sp.csr_array(np.array(M, dtype=dtype)))


def hand_levels(rng, cplx, nlev, n0=None):
    """exact hierarchy: small-integer SPD matrix, 0/1 (or dyadic) interpolation, Galerkin products computed in
    integer/dyadic arithmetic (exact in binary64). Returns dense [A_0, P_0, A_1, P_1, ..., A_last] and splittings."""
    n = int(n0 or rng.integers(5, 10))
    kind = rng.choice(['path', 'grid', 'graph'])
    if kind == 'path':
        W = np.zeros((n, n))
        for i in range(n - 1):
            W[i, i + 1] = W[i + 1, i] = rng.integers(1, 3)
    elif kind == 'grid':
        m = 3 if n >= 9 else 2
        k = max(2, n // m)
        n = m * k
        W = np.zeros((n, n))
        for i in range(m):
            for j in range(k):
                p = i * k + j
                if j + 1 < k:
                    W[p, p + 1] = W[p + 1, p] = 1
                if i + 1 < m:
                    W[p, p + k] = W[p + k, p] = 1
    else:
        W = np.triu((rng.random((n, n)) < 0.45) * rng.integers(1, 3, size=(n, n)), 1).astype(float)
        for i in range(n - 1):
            if W[i, i + 1] == 0:
                W[i, i + 1] = 1          # connected graph + one positive shift: positive definite
        W = W + W.T
    shift = rng.choice([0.0, 1.0, 2.0], size=n)
    shift[int(rng.integers(n))] += 1.0
    A = np.diag(W.sum(1) + shift) - W
    if cplx:
        ph = np.array([1, 1j, -1, -1j])[rng.integers(0, 4, size=n)]
        A = (ph[:, None] * A.astype(complex)) * ph.conj()[None, :]
    mats, splits = [A], []
    cur = A
    for _ in range(nlev - 1):
        m = cur.shape[0]
        if m <= 1:
            break
        # aggregates of 1-3 consecutive nodes; the first node of each aggregate is its C-point
        sizes = []
        while sum(sizes) < m:
            sizes.append(int(min(rng.integers(1, 4), m - sum(sizes))))
        if len(sizes) == m:
            sizes = [2] + sizes[2:] if m >= 2 else sizes
        nc = len(sizes)
        P = np.zeros((m, nc), dtype=cur.dtype)
        split = np.zeros(m, dtype=bool)
        pos = 0
        for j, s in enumerate(sizes):
            split[pos] = True
            for q in range(s):
                w = 1.0 if q == 0 or rng.random() < 0.6 else 0.5
                P[pos + q, j] = w * ((1j if (cplx and rng.random() < 0.4) else 1))
            pos += s
        # a little overlap (dyadic linear interpolation) now and then
        if nc >= 2 and rng.random() < 0.5:
            i = int(rng.integers(m))
            j = int(rng.integers(nc))
            if P[i, j] == 0 and not split[i]:
                P[i, j] = 0.5
        Ac = P.conj().T @ cur @ P
        mats += [P, Ac]
        splits.append(split)
        cur = Ac
    return mats, splits


def build_ml(mats, splits, coarse_solver='pinv', R_override=None):
    from pyamg.multilevel import MultilevelSolver
    dt = complex if any(np.iscomplexobj(M) for M in mats) else float
    levels = []
    nlev = (len(mats) + 1) // 2
    for i in range(nlev):
        L = MultilevelSolver.Level()
        L.A = _csr(mats[2 * i], dt)
        if i < nlev - 1:
            L.P = _csr(mats[2 * i + 1], dt)
            L.R = _csr(np.array(mats[2 * i + 1]).conj().T, dt)
            L.splitting = np.array(splits[i], dtype=bool)
        levels.append(L)
    return MultilevelSolver(levels, coarse_solver=coarse_solver)


def enc_csr(A, cplx, with_n=True):
    A = sp.csr_array(A)
    ev = enc_crats if cplx else enc_rats
    s = f'{enc_ints(A.indptr)} {enc_ints(A.indices)} {ev(A.data)}'
    return f'{A.shape[0]} {s}' if with_n else s


def cyc_line(ml, pre, post, cyc, cplx):
    toks = ['c05_cyc', 'c' if cplx else 'r', cyc, enc_specs(pre), enc_specs(post)]
    for lvl in ml.levels[:-1]:
        split = getattr(lvl, 'splitting', None)
        C = np.nonzero(split)[0] if split is not None and np.asarray(split).dtype == bool else []
        toks += [enc_csr(lvl.A, cplx), enc_csr(lvl.P, cplx, with_n=False), str(lvl.R.shape[0]),
                 enc_csr(lvl.R, cplx, with_n=False), enc_ints(C)]
    toks.append(enc_csr(ml.levels[-1].A, cplx))
    return ' '.join(toks)


def symh_line(ml, pre, post, cplx):
    """the proved Boolean checker c05Check (Proofs/ExtC05BridgeCheck.lean) on the same concrete hierarchy data"""
    toks = cyc_line(ml, pre, post, 'V', cplx).split(' ')
    return ' '.join(['ext_c05_symh', toks[1]] + toks[3:])


def dec_mat(s, cplx):
    rows = []
    for r in s.split(';'):
        if cplx:
            rows.append([complex(float(frac_s(a)), float(frac_s(b))) for a, b in (t.split('|') for t in r.split(','))])
        else:
            rows.append([float(frac_s(t)) for t in r.split(',')])
    return np.array(rows)


def frac_s(t):
    from fractions import Fraction
    return Fraction(t)


# ------------------------------------------------------------------------------------------------
# part B: the cycle model against the real cycle
# ------------------------------------------------------------------------------------------------

MODELLED = ('gauss_seidel', 'sor', 'jacobi', 'block_gauss_seidel', 'block_jacobi', 'cf_jacobi', 'fc_jacobi', None)


def modelled_spec(rng, allow_cf, partner_of=None, good=True):
    """a specification inside the cycle model; `partner_of` -> its adjoint partner (good) or a near miss"""
    if partner_of is not None:
        nm, kw = unpack(partner_of)
        kw = dict(kw)
        if good:
            return flip((nm, kw))
        r = rng.random()
        if r < 0.3 and 'omega' in kw:
            kw['omega'] = float(rng.choice([0.5, 0.75, 1.25]))
        elif r < 0.5:
            kw['iterations'] = int(kw.get('iterations', 1)) + 1
        elif r < 0.7 and nm in ('gauss_seidel', 'sor', 'block_gauss_seidel'):
            pass                  # same sweep on both sides
        else:
            return modelled_spec(rng, allow_cf)
        return (nm, kw) if kw else nm
    nm = MODELLED[int(rng.integers(len(MODELLED)))]
    if nm in ('cf_jacobi', 'fc_jacobi') and not allow_cf:
        nm = 'gauss_seidel'
    kw = {}
    if nm is None:
        return None
    if rng.random() < 0.4:
        kw['iterations'] = int(rng.integers(1, 3))
    if nm in ('gauss_seidel', 'sor', 'block_gauss_seidel') and rng.random() < 0.85:
        kw['sweep'] = str(rng.choice(['forward', 'backward', 'symmetric']))
    if nm == 'sor' and rng.random() < 0.8:
        kw['omega'] = float(rng.choice([0.5, 0.75, 1.0, 1.25, 1.5]))
    if nm in ('jacobi', 'block_jacobi'):
        kw['withrho'] = False
        if rng.random() < 0.7:
            kw['omega'] = float(rng.choice([0.25, 0.5, 0.75]))
    if nm in ('block_gauss_seidel', 'block_jacobi') and rng.random() < 0.5:
        kw['blocksize'] = 1
    if nm in ('cf_jacobi', 'fc_jacobi'):
        if rng.random() < 0.5:
            kw['f_iterations'] = int(rng.integers(1, 3))
        if rng.random() < 0.5:
            kw['c_iterations'] = int(rng.integers(1, 3))
        if rng.random() < 0.6:
            kw['omega'] = float(rng.choice([0.5, 0.75]))
    return (nm, kw) if kw else nm


def modelled_lists(rng, allow_cf):
    lp, lq = int(rng.integers(1, 4)), int(rng.integers(1, 4))
    P = [modelled_spec(rng, allow_cf) for _ in range(lp)]
    allgood = rng.random() < 0.7
    Q = [modelled_spec(rng, allow_cf, partner_of=P[min(i, lp - 1)], good=allgood or rng.random() < 0.6) for i in range(lq)]
    if allgood and lq < lp:
        # a shorter post list repeats its last entry: make the tail of pre agree with it
        for i in range(lq, lp):
            P[i] = flip(Q[-1])
    return P, Q


def jmat(M):
    M = np.asarray(M)
    if np.iscomplexobj(M):
        return [[[float(z.real), float(z.imag)] for z in row] for row in M]
    return M.tolist()


def part_cycles(ctx, n_hand, n_ctor):
    rng = ctx.np_rng
    jobs = []
    for t in range(n_hand):
        cplx = (t % 3 == 2)
        nlev = int(rng.choice([2, 3, 3, 4, 4]))
        mats, splits = hand_levels(rng, cplx, nlev)
        if len(mats) < 3:
            continue
        cs = 'pinv' if cplx else str(rng.choice(['pinv', 'pinv', 'splu', 'cholesky']))
        ml = build_ml(mats, splits, coarse_solver=cs)
        P, Q = modelled_lists(rng, allow_cf=True)
        jobs.append((ml, P, Q, cplx, {'kind': 'hand', 'mats': [jmat(M) for M in mats], 'splits': [s.tolist() for s in splits],
                                      'coarse_solver': cs}, True))
    for t in range(n_ctor):
        cplx = (t % 4 == 3)
        kind = str(rng.choice(['poisson1d', 'poisson2d', 'laplacian']))
        n = int(rng.integers(6, 15))
        A = spd(rng, n, kind, cplx)
        which = 'sa' if cplx else str(rng.choice(['rs', 'sa', 'rootnode', 'pairwise']))
        max_levels = int(rng.integers(2, 5))
        try:
            ml = make_solver(which, A, cplx, max_levels, 1)
        except Exception:
            ctx.feat('cycle:constructor-raised')
            continue
        if len(ml.levels) < 2 or not hierarchy_hermitian(ml):
            ctx.feat('cycle:skipped (one level or R != P^H)')
            continue
        P, Q = modelled_lists(rng, allow_cf=(which == 'rs'))
        jobs.append((ml, P, Q, cplx, {'kind': 'ctor', 'ctor': which, 'A': jmat(sp.csr_array(A).toarray()), 'max_levels': max_levels,
                                      'max_coarse': 1, 'extra': {}}, False))
    lines, meta = [], []
    for ml, P, Q, cplx, case, exact in jobs:
        r = real_flag(ml, P, Q)
        if r == 'reject' or r.startswith('raised'):
            ctx.feat('cycle:' + r)
            continue
        Ms = {cyc: dense_M(ml, cyc) for cyc in 'VW'}
        i0 = len(lines)
        lines.append(f'c05_flag {enc_specs(P)} {enc_specs(Q)} {len(ml.levels) - 1}')
        for cyc in 'VW':
            lines.append(cyc_line(ml, P, Q, cyc, cplx))
        lines.append(symh_line(ml, P, Q, cplx))
        meta.append((i0, ml, P, Q, cplx, case, exact, Ms, r))
    outs = lean(ctx, lines)
    for i0, ml, P, Q, cplx, case, exact, Ms, r in meta:
        mflag = outs[i0]
        nl = len(ml.levels) - 1
        if mflag != r:
            ctx.corr('change_smoothers flag (cycle part)', {**case, 'pre': json_specs(P), 'post': json_specs(Q)}, mflag, r)
        # the proved path (flag_denseM_symmetric_checked, complex: flag_denseM_hermitian_checked_crat): flag True and c05Check true
        # => the model matrix is symmetric / Hermitian
        symh = outs[i0 + 3].split(' ')
        ctx.feat(f'cycle:c05Check:{"complex" if cplx else "real"}:{symh[0]}' + (f':parts={symh[1]}' if len(symh) > 1 and symh[0] != 'true' else ''))
        for k, cyc in enumerate('VW'):
            o = outs[i0 + 1 + k]
            M = Ms[cyc]
            n = M.shape[0]
            cj = {**case, 'complex': cplx, 'pre': json_specs(P), 'post': json_specs(Q), 'cycle': cyc}
            ctx.case(key=_key('cyc', lines[i0 + 1 + k]), nontrivial=n >= 2,
                     sample={'hierarchy': [l.A.shape[0] for l in ml.levels], 'pre': json_specs(P), 'post': json_specs(Q), 'cycle': cyc,
                             'model': o[-40:], 'flag': r} if (i0 + k) % 199 == 0 else None)
            ctx.feat(f'cycle:{case["kind"]}:{"complex" if cplx else "real"}:{cyc}:levels={len(ml.levels)}')
            if o in ('unmodelled', 'singular', 'bad-op'):
                ctx.feat('cycle:' + o)
                if o != 'singular':
                    ctx.corr('c05_cyc', cj, o, 'a dense matrix')
                continue
            ms, herm, adj, mop, hh = o.split(' ')
            Mm = dec_mat(ms, cplx)
            err = float(np.linalg.norm(Mm - M) / max(np.linalg.norm(Mm), 1e-300)) if Mm.shape == M.shape else float('inf')
            if err <= TOL_MODEL:
                ctx.rel_err(err)
                STATS['model'] = max(STATS['model'], err)
            else:
                ctx.corr(f'aspreconditioner({cyc!r}) dense matrix', cj, f'rel.diff {err:.3e}; model row0 {Mm[0][:4]}', f'impl row0 {M[0][:4]}')
            if exact and mop != 'true':     # (the textbook operator uses the Galerkin product R A P, exact on hand-built hierarchies only)
                ctx.corr('model consistency: denseM = Mop formula', cj, o[-30:], 'true')
            if hh == 'true' and adj == 'true' and herm != 'true':
                ctx.corr('model consistency: adjoint pairs => M Hermitian (Mop_sym)', cj, o[-30:], 'herm=true')
            if hh == 'true' and mflag == 'true' and adj != 'true':
                ctx.corr('model consistency: flag => adjoint pairs (levelOk_adjoint)', cj, o[-30:], 'adj=true')
            if exact and hh != 'true':
                ctx.corr('hand-built hierarchy is not exactly Hermitian in the model', cj, o[-30:], 'hh=true')
            if k == 0 and (exact or hh == 'true') and symh[0] != 'true':
                # every exactly-Hermitian hierarchy must pass the checker whose soundness is proved (shapes, distinct C-points,
                # one stored non-zero diagonal per row, in-range indices, Hermitian dense copies, installed smoothers)
                ctx.corr('exactly Hermitian hierarchy fails the proved checker c05Check (ext_c05_symh)', cj, ' '.join(symh), 'true')
            if symh[0] == 'true' and mflag == 'true' and herm != 'true':
                ctx.corr('model consistency: flag True and c05Check => M Hermitian (flag_denseM_symmetric_checked / flag_denseM_hermitian_checked_crat)', cj, o[-30:], 'herm=true')
            ctx.feat(f'cycle:flag={r} model-herm={herm}')
            # the property on the real code, with the M already computed (smoothers are still installed on this solver)
            if r == 'true':
                judge_real(ctx, ml, P, Q, cj, cycles=cyc, M_cache={cyc: M})


# ------------------------------------------------------------------------------------------------
# part B': the extended cycle model (extension E36): polynomial family, block size 2, normal-equation smoothers
# ------------------------------------------------------------------------------------------------

Y_FAMILIES = ('chebyshev', 'richardson', 'block_jacobi', 'block_gauss_seidel', 'jacobi_ne', 'gauss_seidel_ne', 'gauss_seidel_nr')
Y_SWEEP = ('block_gauss_seidel', 'gauss_seidel_ne', 'gauss_seidel_nr')


def y_spec(rng, nm):
    """a specification of one of the families of the extended cycle model (Model/ExtC05YCycle.lean)"""
    kw = {}
    if rng.random() < 0.35:
        kw['iterations'] = int(rng.integers(1, 3))
    if nm == 'chebyshev':
        if rng.random() < 0.6:
            kw['degree'] = int(rng.integers(1, 4))
        if rng.random() < 0.3:
            kw['lower_bound'], kw['upper_bound'] = 0.125, 1.0625
    elif nm == 'richardson':
        if rng.random() < 0.6:
            kw['omega'] = float(rng.choice([0.5, 0.75, 1.0]))
    elif nm == 'block_jacobi':
        kw.update(blocksize=2, withrho=False, omega=float(rng.choice([0.25, 0.5, 0.75])))
    elif nm == 'block_gauss_seidel':
        kw['blocksize'] = 2
    elif nm == 'jacobi_ne':
        kw.update(withrho=False, omega=float(rng.choice([0.25, 0.5])))
    elif nm in ('gauss_seidel_ne', 'gauss_seidel_nr') and rng.random() < 0.6:
        kw['omega'] = float(rng.choice([0.5, 1.0, 1.5]))
    if nm in Y_SWEEP and rng.random() < 0.9:
        kw['sweep'] = str(rng.choice(['forward', 'backward', 'symmetric']))
    return (nm, kw) if kw else nm


def y_partner(rng, spec, good):
    nm, kw = unpack(spec)
    if good or nm is None:
        return flip(spec)
    kw = dict(kw)
    r = rng.random()
    if nm == 'chebyshev' and r < 0.5:
        kw['degree'] = int(kw.get('degree', 3)) % 3 + 1
    elif 'omega' in kw and r < 0.5:
        kw['omega'] = float(kw['omega']) / 2
    elif nm in Y_SWEEP and r < 0.8:
        pass                                  # the same sweep on both sides
    else:
        kw['iterations'] = int(kw.get('iterations', 1)) + 1
    return (nm, kw) if kw else nm


def y_lists(rng, sizes):
    """per-level lists over the families of the extended model; block size 2 only where it divides the level size"""
    nl = len(sizes)
    same = rng.random() < 0.4
    fam0 = Y_FAMILIES[int(rng.integers(len(Y_FAMILIES)))]
    allgood = rng.random() < 0.7
    P, Q = [], []
    for i in range(nl):
        nm = fam0 if same else Y_FAMILIES[int(rng.integers(len(Y_FAMILIES)))]
        if nm in ('block_jacobi', 'block_gauss_seidel') and sizes[i] % 2:
            nm = 'chebyshev' if nm == 'block_jacobi' else 'gauss_seidel'
        if rng.random() < 0.15:
            spec = modelled_spec(rng, allow_cf=False)
        elif nm == 'gauss_seidel':
            spec = ('gauss_seidel', {'sweep': str(rng.choice(['forward', 'symmetric']))})
        else:
            spec = y_spec(rng, nm)
        P.append(spec)
        Q.append(y_partner(rng, spec, allgood or rng.random() < 0.6))
    if same and all(json.dumps(json_specs([x])) == json.dumps(json_specs([P[0]])) for x in P) \
            and all(json.dumps(json_specs([x])) == json.dumps(json_specs([Q[0]])) for x in Q) and rng.random() < 0.5:
        P, Q = P[:1], Q[:1]
    return P, Q


def y_oracle(ml, pre, post, i):
    """the coefficient table of level i: what setup_chebyshev / setup_richardson computed (read from the installed closures)"""
    ents = []
    lvl = ml.levels[i]
    for (nm, kw), fn in zip(level_pair(pre, post, i), (lvl.presmoother, lvl.postsmoother)):
        if nm not in ('chebyshev', 'richardson'):
            continue
        nl_ = inspect.getclosurevars(fn).nonlocals
        if nm == 'chebyshev':
            coef = [float(c) for c in np.asarray(nl_['coefficients']).ravel()]
            args = [enc_val(kw[k]) if k in kw else 'N' for k in ('lower_bound', 'upper_bound', 'degree')]
        else:
            coef = [float(nl_['omega'])]
            args = [enc_val(kw.get('omega', 1))]
        ents.append(f'{nm}:{";".join(args)}:{enc_rats(coef)}')
    return '@'.join(ents) if ents else '-'


def cyc_line_y(ml, pre, post, cyc, cplx):
    toks = ['ext_c05y_cyc', 'c' if cplx else 'r', cyc, enc_specs(pre), enc_specs(post)]
    for i, lvl in enumerate(ml.levels[:-1]):
        split = getattr(lvl, 'splitting', None)
        C = np.nonzero(split)[0] if split is not None and np.asarray(split).dtype == bool else []
        toks += [enc_csr(lvl.A, cplx), enc_csr(lvl.P, cplx, with_n=False), str(lvl.R.shape[0]),
                 enc_csr(lvl.R, cplx, with_n=False), enc_ints(C), y_oracle(ml, pre, post, i)]
    toks.append(enc_csr(ml.levels[-1].A, cplx))
    return ' '.join(toks)


def y_is_ne(specs):
    return any(unpack(x)[0] in NE_NAMES for x in as_list(specs))


def part_cycles_y(ctx, n_hand):
    """the extended cycle model `PyamgV.C05Y.denseMY` against aspreconditioner on hand-built exact hierarchies; the model's exact
    Booleans are the hypotheses / conclusions of the E36 theorems: adjoint pairs (energy sense) for the polynomial and block
    families, Euclidean adjointness of error / residual propagators for the normal-equation families, positive definiteness when
    the finest pre- or post-smoother has strict parameters (flag_cycle_spd)"""
    rng = ctx.np_rng
    lines, meta = [], []
    for t in range(n_hand):
        cplx = (t % 4 == 3)
        nlev = int(rng.choice([2, 3, 3, 4]))
        mats, splits = hand_levels(rng, cplx, nlev, n0=int(rng.choice([4, 6, 6, 8, 8, 9])))
        if len(mats) < 3:
            continue
        ml = build_ml(mats, splits, coarse_solver='pinv')
        sizes = [l.A.shape[0] for l in ml.levels[:-1]]
        P, Q = y_lists(rng, sizes)
        reseed(ctx)
        r = real_flag(ml, P, Q)
        case = {'kind': 'hand', 'mats': [jmat(M) for M in mats], 'splits': [s.tolist() for s in splits], 'coarse_solver': 'pinv',
                'complex': cplx, 'pre': json_specs(P), 'post': json_specs(Q)}
        if r == 'reject' or r.startswith('raised'):
            ctx.feat('cycleY:' + r)
            continue
        try:
            Ms = {cyc: dense_M(ml, cyc) for cyc in 'VW'}
        except Exception as ex:
            ctx.feat(f'cycleY:cycle raised {type(ex).__name__}')
            continue
        i0 = len(lines)
        lines.append(f'c05_flag {enc_specs(P)} {enc_specs(Q)} {len(ml.levels) - 1}')
        for cyc in 'VW':
            lines.append(cyc_line_y(ml, P, Q, cyc, cplx))
        meta.append((i0, ml, P, Q, cplx, case, Ms, r))
    outs = lean(ctx, lines) if lines else []
    for i0, ml, P, Q, cplx, case, Ms, r in meta:
        mflag = outs[i0]
        if mflag != r:
            ctx.corr('change_smoothers flag (extended cycle part)', case, mflag, r)
        ne = y_is_ne(P) or y_is_ne(Q)
        for k, cyc in enumerate('VW'):
            o = outs[i0 + 1 + k]
            M = Ms[cyc]
            n = M.shape[0]
            cj = {**case, 'cycle': cyc}
            ctx.case(key=_key('cycY', lines[i0 + 1 + k]), nontrivial=n >= 2,
                     sample={'hierarchy': [l.A.shape[0] for l in ml.levels], 'pre': case['pre'], 'post': case['post'], 'cycle': cyc,
                             'model': o[-60:], 'flag': r} if (i0 + k) % 97 == 0 else None)
            for nm in sorted({str(unpack(x)[0]) for x in as_list(P) + as_list(Q)}):
                ctx.feat('cycleY:smoother ' + nm)
            if o in ('unmodelled', 'singular', 'bad-op'):
                ctx.feat('cycleY:' + o)
                if o != 'singular':
                    ctx.corr('ext_c05y_cyc', cj, o, 'a dense matrix')
                continue
            ms, herm, adj, eadj, radj, hh, mne, strict, pd = o.split(' ')
            Mm = dec_mat(ms, cplx)
            err = float(np.linalg.norm(Mm - M) / max(np.linalg.norm(Mm), 1e-300)) if Mm.shape == M.shape else float('inf')
            if err <= TOL_MODEL:
                ctx.rel_err(err)
                STATS['model'] = max(STATS['model'], err)
            else:
                ctx.corr(f'aspreconditioner({cyc!r}) dense matrix (extended model)', cj, f'rel.diff {err:.3e}; model row0 {Mm[0][:4]}',
                         f'impl row0 {M[0][:4]}')
            ctx.feat(f'cycleY:{"complex" if cplx else "real"}:{cyc}:flag={r} ne={mne} herm={herm} adj={adj} erradj={eadj} resadj={radj} strict={strict} pd={pd}')
            if hh != 'true':
                ctx.corr('hand-built hierarchy is not exactly Hermitian in the model', cj, o[-60:], 'hh=true')
                continue
            if (mne == 'true') != ne:
                ctx.corr('normal-equation smoother installed (model vs specification)', cj, mne, str(ne).lower())
            # theorems of Proofs/ExtC05YFlag.lean: flag True and no normal-equation smoother => adjoint pairs => M Hermitian
            if mflag == 'true' and mne != 'true' and adj != 'true':
                ctx.corr('model consistency: flag => adjoint pairs (levelOk_partnerY, partnerY_adjoint)', cj, o[-60:], 'adj=true')
            if adj == 'true' and herm != 'true':
                ctx.corr('model consistency: adjoint pairs => M Hermitian (Mop_sym)', cj, o[-60:], 'herm=true')
            # ne_sweep_err_adj / jacobi_ne_err_selfadj / nr_sweep_res_adj: flagged normal-equation pairs have Euclidean-adjoint
            # error (NE) or residual (NR) propagators on every level
            if mflag == 'true' and all(unpack(x)[0] in ('jacobi_ne', 'gauss_seidel_ne') for x in as_list(P) + as_list(Q)) and eadj != 'true':
                ctx.corr('model consistency: flagged NE pairs have Euclidean-adjoint error propagators (ne_sweep_err_adj)', cj, o[-60:], 'erradj=true')
            if mflag == 'true' and all(unpack(x)[0] == 'gauss_seidel_nr' for x in as_list(P) + as_list(Q)) and radj != 'true':
                ctx.corr('model consistency: flagged NR pairs have Euclidean-adjoint residual propagators (nr_sweep_res_adj)', cj, o[-60:], 'resadj=true')
            # flag_cycle_spd: strict finest smoother (Gauss-Seidel / SOR, 0 < omega < 2) on an SPD Galerkin hierarchy whose other
            # smoothers are non-expansive => M positive definite; required of the model when every installed smoother is Gauss-Seidel / SOR
            if (not cplx and mflag == 'true' and strict == 'true' and pd != 'true'
                    and all(unpack(x)[0] in ('gauss_seidel', 'sor', None) and 0 < unpack(x)[1].get('omega', 1.0) < 2 for x in as_list(P) + as_list(Q))):
                ctx.corr('model consistency: strict Gauss-Seidel/SOR smoothing => M positive definite (flag_cycle_spd)', cj, o[-60:], 'pd=true')
            if r == 'true':
                judge_real(ctx, ml, P, Q, cj, cycles=cyc, M_cache={cyc: M})


# ------------------------------------------------------------------------------------------------
# part C: search on the real constructors
# ------------------------------------------------------------------------------------------------

def make_solver(which, A, cplx, max_levels, max_coarse, pre=None, post=None, **extra):
    import pyamg
    kw = dict(max_levels=max_levels, max_coarse=max_coarse, **extra)
    if pre is not None:
        kw['presmoother'] = pre
        kw['postsmoother'] = post
    if which == 'rs':
        return pyamg.ruge_stuben_solver(A, **kw)
    if which == 'sa':
        return pyamg.smoothed_aggregation_solver(A, symmetry='hermitian', **kw)
    if which == 'sa-sym':
        return pyamg.smoothed_aggregation_solver(A, symmetry='symmetric', **kw)
    if which == 'rootnode':
        return pyamg.rootnode_solver(A, symmetry='hermitian', **kw)
    if which == 'pairwise':
        return pyamg.pairwise_solver(A, **kw)
    if which == 'adaptive':
        # (np.random is seeded by the caller; the constructor installs `prepostsmoother` through change_smoothers itself)
        kw.pop('presmoother', None)
        kw.pop('postsmoother', None)
        return pyamg.aggregation.adaptive_sa_solver(A, num_candidates=1, symmetry='hermitian', pdef=True, **kw)[0]
    if which == 'sa-bsr':
        Ab = sp.bsr_array(A, blocksize=(2, 2))
        Ab.indptr = Ab.indptr.astype(np.int32)
        Ab.indices = Ab.indices.astype(np.int32)
        n = A.shape[0]
        B = np.zeros((n, 2), dtype=A.dtype)
        B[0::2, 0] = 1
        B[1::2, 1] = 1
        return pyamg.smoothed_aggregation_solver(Ab, B=B, symmetry='hermitian', **kw)
    raise ValueError(which)


def search_pairs(rng, which, full):
    """smoother pairs for the numeric search: mostly flagged symmetric"""
    sw_pairs = [('forward', 'backward'), ('backward', 'forward'), ('symmetric', 'symmetric')]
    out = []
    for nm in ('gauss_seidel', 'block_gauss_seidel', 'schwarz', 'strength_based_schwarz', 'sor', 'gauss_seidel_ne', 'gauss_seidel_nr'):
        for s1, s2 in sw_pairs:
            for it in (1, 2):
                base = {'iterations': it} if it != 1 else {}
                vars_ = [{}]
                if nm == 'sor':
                    vars_ = [{}, {'omega': 0.75}, {'omega': 1.25}, {'omega': 1.0}, {'omega': 1.75}]
                if nm in ('gauss_seidel_ne', 'gauss_seidel_nr'):
                    if it == 2 or s1 == 'backward':
                        continue                   # (recorded finding: keep its share of the search small)
                    vars_ = [{}]
                if nm == 'block_gauss_seidel':
                    vars_ = [{}, {'blocksize': 2}, {'blocksize': 1}]
                for v in vars_:
                    out.append(((nm, {**base, **v, 'sweep': s1}), (nm, {**base, **v, 'sweep': s2})))
    for nm in ('jacobi', 'block_jacobi', 'jacobi_ne'):
        for kw in ({}, {'omega': 0.75}, {'omega': 4.0 / 3.0}, {'iterations': 2}, {'omega': 0.5, 'withrho': False}, {'omega': 0.75, 'iterations': 3}):
            if nm == 'jacobi_ne' and kw:
                continue
            out.append(((nm, dict(kw)) if kw else nm, (nm, dict(kw)) if kw else nm))
    out.append((('block_jacobi', {'blocksize': 2}), ('block_jacobi', {'blocksize': 2})))
    out.append((('block_jacobi', {'blocksize': 2, 'omega': 0.75, 'iterations': 2}), ('block_jacobi', {'blocksize': 2, 'omega': 0.75, 'iterations': 2})))
    for kw in ({}, {'omega': 0.75}, {'iterations': 2}):
        out.append((('richardson', dict(kw)), ('richardson', dict(kw))))
    for kw in ({}, {'degree': 1}, {'degree': 2}, {'degree': 4}, {'iterations': 2}, {'lower_bound': 0.125, 'upper_bound': 1.0625}):
        out.append((('chebyshev', dict(kw)), ('chebyshev', dict(kw))))
    out.append((None, None))
    if which == 'rs':
        for a, b in (('cf_jacobi', 'fc_jacobi'), ('fc_jacobi', 'cf_jacobi'), ('cf_block_jacobi', 'fc_block_jacobi'), ('fc_block_jacobi', 'cf_block_jacobi')):
            for kw in ({}, {'omega': 0.75}, {'f_iterations': 2}, {'c_iterations': 2, 'iterations': 2}, {'omega': 0.5, 'f_iterations': 2, 'c_iterations': 3}):
                out.append(((a, dict(kw)) if kw else a, (b, dict(kw)) if kw else b))
        out.append((('cf_jacobi', {'omega': 1.0}), ('fc_jacobi', {'omega': 0.5})))     # reported nonsymmetric since 47b225a
    # flagged nonsymmetric (warning path) and Krylov
    out += [('gauss_seidel', 'gauss_seidel'), (('sor', {'omega': 0.75, 'sweep': 'forward'}), ('sor', {'omega': 1.25, 'sweep': 'backward'})),
            ('jacobi', ('gauss_seidel', {'sweep': 'symmetric'})), (('cg', {'maxiter': 2}), ('cg', {'maxiter': 2})), ('gmres', 'gmres'),
            (('jacobi', {'iterations': 2}), 'jacobi'), (('chebyshev', {'degree': 2}), ('chebyshev', {'degree': 3}))]
    return out


def per_level_lists(rng, pairs, k):
    """per-level lists of differing length assembled from pairs"""
    out = []
    for _ in range(k):
        lp, lq = int(rng.integers(1, 4)), int(rng.integers(1, 4))
        m = max(lp, lq)
        sel = [pairs[int(rng.integers(len(pairs)))] for _ in range(m)]
        P = [sel[i][0] for i in range(lp)]
        Q = [sel[i][1] for i in range(lq)]
        # keep the repeated last entry consistent most of the time
        if rng.random() < 0.7:
            if lp < lq:
                Q[lp:] = [sel[lp - 1][1]] * (lq - lp)
            elif lq < lp:
                P[lq:] = [sel[lq - 1][0]] * (lp - lq)
        out.append((P, Q))
    return out


def spd(rng, n, kind, cplx):
    """gen.spd_matrix, re-drawn until it really is positive definite (its 'laplacian' family can leave a node isolated
    and unshifted, i.e. a zero row: AMG setup on such a matrix is not C05's subject)"""
    for _ in range(20):
        A = gen.spd_matrix(rng, n, kind=kind, complex_=cplx)
        w = np.linalg.eigvalsh(sp.csr_array(A).toarray())
        if w.min() > 1e-8 * w.max():
            return A
    return gen.spd_matrix(rng, n, kind='poisson1d', complex_=cplx)


def search_matrices(ctx, k, nmax):
    rng = ctx.np_rng
    out = []
    for t in range(k):
        cplx = (t % 3 == 1)
        kind = ['poisson1d', 'poisson2d', 'laplacian', 'random'][t % 4]
        n = int(rng.integers(4, nmax + 1))
        if kind in ('poisson1d', 'poisson2d') and t % 8 in (0, 5):
            n = int(rng.integers(20, 37))          # deep hierarchies: W differs from V from four levels on
        A = spd(rng, n, kind, cplx)
        out.append((A, kind, cplx))
    return out


def part_search(ctx, n_mat, n_cfg, nmax=20):
    rng = ctx.np_rng
    for A, kind, cplx in search_matrices(ctx, n_mat, nmax):
        if ctx.time_left() < 90 and not ctx.quick:
            ctx.feat('search:stopped early by the time budget')
            break
        n = A.shape[0]
        opts = ['sa', 'rootnode', 'adaptive'] if cplx else ['rs', 'sa', 'sa-sym', 'rootnode', 'pairwise', 'adaptive']
        if n % 2 == 0:
            opts.append('sa-bsr')
        which = opts[int(rng.integers(len(opts)))]
        max_levels = int(rng.choice([2, 3, 4, 5])) if n < 20 else int(rng.choice([4, 5, 6]))
        extra = {}
        if rng.random() < 0.3:
            extra['coarse_solver'] = str(rng.choice(['splu', 'lu', 'cholesky'])) if not cplx else 'lu'
        mc = int(rng.choice([1, 2]))
        np_seed = int(rng.integers(2 ** 31))
        np.random.seed(np_seed)
        try:
            ml = make_solver(which, A, cplx, max_levels, mc, **extra)
        except Exception as ex:
            ctx.feat(f'search:constructor {which} raised {type(ex).__name__}')
            continue
        if len(ml.levels) < 2:
            ctx.feat('search:single level')
            continue
        if not hierarchy_hermitian(ml):
            ctx.feat(f'search:skipped {which} (R != P^H or A_c not Hermitian)')
            continue
        wc = np.linalg.eigvalsh(sp.csr_array(ml.levels[-1].A).toarray())
        if not wc.min() > 1e-8 * wc.max():
            ctx.feat(f'search:skipped {which} (coarsest matrix singular: rank-deficient P, no exact coarsest solve)')
            continue
        pairs = search_pairs(rng, which, not ctx.quick)
        sel = [pairs[int(i)] for i in rng.choice(len(pairs), size=min(n_cfg, len(pairs)), replace=False)]
        cfgs = [(p, q) for p, q in sel] + per_level_lists(rng, pairs, max(1, n_cfg // 4))
        Ad = sp.csr_array(A).toarray()
        for P, Q in cfgs:
            r = real_flag(ml, P, Q)
            case = {'kind': 'search', 'ctor': which, 'matrix': kind, 'complex': cplx, 'max_levels': max_levels, 'extra': extra,
                    'max_coarse': mc, 'np_seed': np_seed, 'A': jmat(Ad),
                    'pre': json_specs(P), 'post': json_specs(Q), 'levels': [l.A.shape[0] for l in ml.levels]}
            if r == 'reject' or r.startswith('raised'):
                ctx.feat('search:setup ' + (r if r != 'reject' else 'rejected (e.g. block size does not divide)'))
                if r != 'reject' and 'C05DEBUG' in __import__('os').environ:
                    print('SETUP RAISED', r, case['pre'], case['post'], case['levels'], which, kind, np.array2string(Ad, max_line_width=200))
                continue
            names = sorted({str(unpack(s)[0]) for s in as_list(P) + as_list(Q)})
            ctx.case(key=_key('search', Ad.tobytes(), which, max_levels, json.dumps(case['pre']), json.dumps(case['post'])),
                     nontrivial=True, sample={k: case[k] for k in ('ctor', 'matrix', 'complex', 'pre', 'post', 'levels')} if ctx.evaluations % 499 == 0 else None)
            ctx.feat(f'search:{which}:{"complex" if cplx else "real"}:flag={r}')
            for nm in names:
                ctx.feat('search:smoother ' + nm)
            ctx.feat(f'search:levels={len(ml.levels)}')
            try:
                judge_real(ctx, ml, P, Q, case)
            except Exception as ex:
                ctx.violation(f'cycle with pre={case["pre"]} post={case["post"]} raised {type(ex).__name__}: {ex}', case)
                continue
            if rng.random() < 0.25:
                w = cg_warns(ml, rng)
                ctx.feat('warning:checked')
                if w != (r == 'false'):
                    ctx.violation(f'solve(accel="cg") {"warns" if w else "does not warn"} although symmetric_smoothing is {r} '
                                  f'(pre={case["pre"]}, post={case["post"]})', {**case, 'warn': True})


# ------------------------------------------------------------------------------------------------
# entry points
# ------------------------------------------------------------------------------------------------

def part_recorded(ctx):
    """the input shapes of the recorded findings, on one fixed problem each run (so that they are always re-observed)"""
    import pyamg
    A = pyamg.gallery.poisson((4, 4), format='csr')
    ml = pyamg.ruge_stuben_solver(A, max_levels=3, max_coarse=1)
    Ad = A.toarray()
    for P, Q in [('jacobi_ne', 'jacobi_ne'),
                 (('gauss_seidel_ne', {'sweep': 'forward'}), ('gauss_seidel_ne', {'sweep': 'backward'})),
                 (('gauss_seidel_nr', {'sweep': 'symmetric'}), ('gauss_seidel_nr', {'sweep': 'symmetric'})),
                 (('cf_jacobi', {'omega': 1.0}), ('fc_jacobi', {'omega': 0.5})),
                 (None, None)]:
        r = real_flag(ml, P, Q)
        case = {'kind': 'search', 'ctor': 'rs', 'matrix': 'poisson2d', 'complex': False, 'max_levels': 3, 'extra': {}, 'max_coarse': 1,
                'A': jmat(Ad), 'pre': json_specs(P), 'post': json_specs(Q), 'levels': [l.A.shape[0] for l in ml.levels]}
        ctx.case(key=_key('recorded', case['pre'], case['post']), nontrivial=True)
        ctx.feat('recorded-finding shapes')
        judge_real(ctx, ml, P, Q, case)


def reseed(ctx):
    """the spectral-radius estimates behind withrho / Richardson / Chebyshev start from np.random vectors"""
    np.random.seed(int(ctx.np_rng.integers(2 ** 31)))


def part_fixed(ctx):
    """a fixed core of (constructor, matrix, smoother pair) cases evaluated in every run, whatever the seed: deep real and
    complex hierarchies, BSR storage, each family of symmetric pairs"""
    import pyamg
    core = [(('gauss_seidel', {'sweep': 'forward'}), ('gauss_seidel', {'sweep': 'backward'})),
            (('gauss_seidel', {'sweep': 'backward', 'iterations': 2}), ('gauss_seidel', {'sweep': 'forward', 'iterations': 2})),
            (('gauss_seidel', {'sweep': 'symmetric'}), ('gauss_seidel', {'sweep': 'symmetric'})),
            (('sor', {'sweep': 'symmetric', 'omega': 0.75}), ('sor', {'sweep': 'symmetric', 'omega': 0.75})),
            (('sor', {'sweep': 'forward', 'omega': 1.25}), ('sor', {'sweep': 'backward', 'omega': 1.25})),
            (('block_gauss_seidel', {'sweep': 'forward'}), ('block_gauss_seidel', {'sweep': 'backward'})),
            (('block_gauss_seidel', {'sweep': 'symmetric', 'blocksize': 2}), ('block_gauss_seidel', {'sweep': 'symmetric', 'blocksize': 2})),
            (('block_gauss_seidel', {'sweep': 'backward', 'blocksize': 2}), ('block_gauss_seidel', {'sweep': 'forward', 'blocksize': 2})),
            (('jacobi', {'omega': 0.75}), ('jacobi', {'omega': 0.75})), (('block_jacobi', {'blocksize': 2}), ('block_jacobi', {'blocksize': 2})),
            ('richardson', 'richardson'), (('chebyshev', {'degree': 2}), ('chebyshev', {'degree': 2})),
            (('schwarz', {'sweep': 'forward'}), ('schwarz', {'sweep': 'backward'})),
            (('strength_based_schwarz', {'sweep': 'symmetric'}), ('strength_based_schwarz', {'sweep': 'symmetric'})),
            ([('gauss_seidel', {'sweep': 'forward'}), ('jacobi', {'omega': 0.75})],
             [('gauss_seidel', {'sweep': 'backward'}), ('jacobi', {'omega': 0.75}), ('jacobi', {'omega': 0.75})])]
    cf = [(('cf_jacobi', {'f_iterations': 2, 'omega': 0.75}), ('fc_jacobi', {'f_iterations': 2, 'omega': 0.75})),
          (('fc_block_jacobi', {'c_iterations': 2, 'iterations': 2}), ('cf_block_jacobi', {'c_iterations': 2, 'iterations': 2}))]
    A2 = gen.int32csr(pyamg.gallery.poisson((6, 6), format='csr'))
    A1 = gen.int32csr(pyamg.gallery.poisson((24,), format='csr'))
    ph = np.array([1, 1j, -1, -1j])[np.arange(24) % 4]
    A1c = gen.int32csr(sp.csr_array(sp.diags_array(ph) @ A1.astype(complex) @ sp.diags_array(ph.conj())))
    ph2 = np.array([1, 1j, -1, -1j])[(np.arange(16) * 3) % 4]
    A2c = gen.int32csr(sp.csr_array(sp.diags_array(ph2) @ pyamg.gallery.poisson((4, 4), format='csr').astype(complex) @ sp.diags_array(ph2.conj())))
    problems = [('rs', A2, False, 5, 1, core + cf), ('sa', A1c, True, 5, 1, core), ('sa-bsr', A2, False, 4, 2, core[:11]),
                ('sa-bsr', A2c, True, 4, 2, core[:11]), ('rootnode', A1, False, 5, 1, core[:6]),
                ('rs', gen.int32csr(pyamg.gallery.poisson((32,), format='csr')), False, 4, 1, core[5:10])]      # even level sizes: blocks of 2
    for which, A, cplx, max_levels, mc, pairs in problems:
        reseed(ctx)
        ml = make_solver(which, A, cplx, max_levels, mc)
        if len(ml.levels) < 2 or not hierarchy_hermitian(ml):
            ctx.corr('fixed core: hierarchy', {'kind': 'fixed', 'ctor': which}, 'R = P^H on >= 2 levels', str([l.A.shape for l in ml.levels]))
            continue
        Ad = sp.csr_array(A).toarray()
        for P, Q in pairs:
            r = real_flag(ml, P, Q)
            case = {'kind': 'search', 'ctor': which, 'matrix': 'fixed', 'complex': cplx, 'max_levels': max_levels, 'extra': {}, 'max_coarse': mc,
                    'A': jmat(Ad), 'pre': json_specs(P), 'post': json_specs(Q), 'levels': [l.A.shape[0] for l in ml.levels]}
            ctx.case(key=_key('fixed', which, cplx, case['pre'], case['post']), nontrivial=True)
            ctx.feat(f'fixed core:{which}:{"complex" if cplx else "real"}:levels={len(ml.levels)}:flag={r}')
            if r == 'reject' and any(unpack(x)[1].get('blocksize') == 2 for x in as_list(P)):
                continue          # an odd level size
            if r != 'true':
                ctx.corr('fixed core: symmetric pair not reported symmetric', case, 'true', r)
                continue
            judge_real(ctx, ml, P, Q, case)


def run(ctx):
    reseed(ctx)
    part_tables(ctx)
    part_fixed(ctx)
    part_recorded(ctx)
    part_table(ctx)
    part_ctor_flags(ctx)
    part_cycles(ctx, ctx.scale(36, 800), ctx.scale(20, 400))
    part_cycles_y(ctx, ctx.scale(30, 500))
    part_search(ctx, ctx.scale(18, 300), ctx.scale(14, 40), nmax=ctx.scale(18, 26))
    ctx.feat(f'largest accepted ||M - M^H||/||M|| of a flagged-True cycle: {STATS["asym"]:.1e} (tolerance {TOL_SYM:.0e})')
    ctx.feat(f'largest accepted |model M - real M|/|M|: {STATS["model"]:.1e} (tolerance {TOL_MODEL:.0e})')


def search(ctx):
    reseed(ctx)
    part_search(ctx, 120, 40, nmax=24)


def _cm(x):
    x = np.array(x)
    if x.ndim == 3:
        return x[..., 0] + 1j * x[..., 1]
    return x


def replay(ctx, data):
    reseed(ctx)
    case = data['case']
    kind = case.get('kind')
    print('replaying', kind, 'pre =', case.get('pre'), 'post =', case.get('post'))
    P, Q = from_json_specs(case['pre']), from_json_specs(case['post'])
    if kind in ('table', 'ctor-flag'):
        ml = base_solver(case['nl'])
        r = real_flag(ml, P, Q)
        m = lean(ctx, [f'c05_flag {enc_specs(P)} {enc_specs(Q)} {case["nl"]}'])[0]
        print('  real flag', r, ' model flag', m)
        if r == 'true':
            judge_real(ctx, ml, P, Q, case)
            judge_flag_disagreement(ctx, P, Q, case['nl'], m, r)
        if r != 'reject':
            w = cg_warns(ml, ctx.np_rng)
            print('  cg warns:', w)
            if w != (r == 'false'):
                ctx.violation(f'warning {w} with flag {r}', case)
    elif kind == 'hand':
        mats = [_cm(M) for M in case['mats']]
        ml = build_ml(mats, [np.array(s, dtype=bool) for s in case['splits']], coarse_solver=case.get('coarse_solver', 'pinv'))
        r = real_flag(ml, P, Q)
        print('  real flag', r)
        judge_real(ctx, ml, P, Q, case)
    else:
        A = gen.int32csr(sp.csr_array(_cm(case['A'])))
        if 'np_seed' in case:
            np.random.seed(case['np_seed'])
        ml = make_solver(case['ctor'], A, case.get('complex', False), case['max_levels'], case['max_coarse'], **case.get('extra', {}))
        r = real_flag(ml, P, Q)
        print('  levels', [l.A.shape[0] for l in ml.levels], 'real flag', r)
        if r != 'reject':
            judge_real(ctx, ml, P, Q, case)
            w = cg_warns(ml, ctx.np_rng)
            print('  cg warns:', w)
            if w != (r == 'false'):
                ctx.violation(f'warning {w} with flag {r}', case)
    for v in ctx.violations[:5]:
        print('  ', v['what'][:300])
