"""C06 -- Krylov solvers: status, residual history and callback tell the truth.

correspondence : the seven recurrence solvers (cg, cr, cgne, cgnr, bicgstab, steepest_descent,
                 minimal_residual) through their public functions vs the Lean models of
                 Model/C06Krylov.lean run on Rat / Gaussian rationals (status, history length, every
                 history entry, every callback iterate, returned x; tolerance 1e-9 relative because the
                 code works in binary64; decisions closer than 1e-6 to a threshold are skipped);
                 the GMRES family vs the Lean control model `gmresCtl` (inner/outer/restart counters)
                 fed with the criterion evaluated on the iterates the code reported; and (extension E16)
                 gmres_mgs / gmres_householder / fgmres / gmres as complete runs vs the Lean models of
                 Model/ExtC06Gmres.lean executed in binary64 (op ext_c06_gmres, real case): status, every
                 entry of `residuals`, every callback iterate, x (tolerance 1e-8 relative; runs in which a
                 decision falls within 1e-6 of its threshold or at rounding level are skipped and counted);
                 (extension E43) the same complete-run comparison on COMPLEX systems vs the pair models of
                 Model/ExtCGGmres.lean (op ext_cg_full: conjugated inner products, zlartg rotations, complex _mysign,
                 np.abs of the Givens estimate) executed on pairs of binary64 numbers, same tolerances.
search         : all eleven public solvers on real/complex well-conditioned systems n = 1..12 as dense
                 array / CSR / CSC / BSR / LinearOperator, with and without HPD preconditioner, every
                 documented criterion, x0 in {none, zero, random, large, exact, near-exact}, zero b,
                 tol, maxiter, restart/restrt; judged by an independent dense NumPy oracle of the
                 property (criterion recomputed from x, history entry k = residual norm of iterate k,
                 callback count, last callback is the returned x, prefix runs with maxiter = k return
                 callback iterate k, inputs byte-identical afterwards, results independent of whether
                 residuals/callback are passed).
                 wave 4: (a) the same option grid with right-hand sides / start residuals b - A x0 that contain
                 exact zeros (c e_k, zero first entry, zero leading / trailing block, sparse; x0 omitted, zero or
                 integer with b = A x0 + v), plus scaled cyclic shifts (zero diagonal) for the GMRES family;
                 (b) long runs n = 42..110 on ill-conditioned systems (1-D Poisson / convection-diffusion, diagonally
                 rescaled, prescribed spectrum 1..1e3), preconditioner != I, tol 1e-13/1e-14 and maxiter in
                 {48..51, 56, 57, 100, 101, 104, 105} resp. restart/maxiter around 40 / n, so that the rarely taken
                 residual updates (recomputed every 8th iteration in cg/cr/cgne/cgnr, by recurrence every 50th in
                 steepest_descent/minimal_residual),
                 the restart boundaries and the min(n, 40) default are reached without convergence; every history
                 entry is compared with the recomputed (preconditioned where documented) residual norm of the
                 callback iterate (tolerance 1e-6 relative + 1e-11 scaled; observed on the pinned tree <= 1e-5 of
                 that tolerance).
"""
import hashlib
import time
import warnings

import numpy as np
import scipy.sparse as sp
from scipy.sparse.linalg import LinearOperator

from common import enc_rats, enc_crats, dec_list, dec_rat, dec_crat, float_bits

META = {
    'rule': 'case = (solver, criterion, real/complex, operator kind of A and M, x0 kind, tol, maxiter, restart, matrix); '
            'matrices: HPD (integer Q Q^H + cI, random, 1-D Poisson, complex phase-rotated) for cg/cr/steepest_descent/'
            'minimal_residual, additionally nonsymmetric diagonally dominant for cgne/cgnr/bicgstab/GMRES, n = 1..12; '
            'non-trivial = the solver performed at least one iteration or had to recognise a converged x0 / zero b; '
            'distinct = distinct (solver, options, input) tuples; wave 4 adds b / start residuals with exact zeros (unit vectors, '
            'zero leading / trailing entries, sparse) for every solver and long non-converging runs (n = 42..110, condition '
            '1e3..1e5, M != I, maxiter around the multiples of the recompute intervals 8 and 50, GMRES restart / min(n,40))',
    'search_only': [
        'x finite for finite nonsingular input (floating point, outside the exact-field models)',
        'A, b, x0, M not modified (byte comparison before/after; arrays behind sparse matrices and LinearOperators included)',
        'GMRES family with reorth=True, the stagnation exit (an abstract predicate in the models), '
        'callback iterate k equals the x returned with maxiter = k: dense oracle, tolerance (the real- and, since extension '
        'E43, the complex-arithmetic runs are modelled completely in Lean and proved truthful for an exact square root: '
        'gmres_mgs_truthful, gmres_householder_truthful, fgmres_truthful, their _vec_ forms, and complex_gmres_mgs_truthful, '
        'complex_gmres_householder_truthful, complex_fgmres_truthful with their _vec_ / _pairs_ forms)',
        'the n == 1 shortcuts of bicgstab and the GMRES family (known findings) are outside the solver theorems',
        'LinearOperator / sparse-format / column-vector handling of make_system; results independent of whether '
        'residuals / callback are passed',
    ],
    'partial': [
        'gmres_control_spec: decides status/counter/history-length clauses of gmres_mgs, gmres_householder, fgmres and the '
        'dispatcher from the control flow alone (status 0 is returned only after the explicitly recomputed residual passed)',
        'gmres_mgs_truthful / gmres_householder_truthful / fgmres_truthful (extension E16): all C06 clauses for the complete '
        'executable models, including "the recorded Givens estimate |g[inner+1]| is the residual norm of the iterate handed '
        'to the callback" (Arnoldi/Givens invariant, no breakdown hypothesis), in exact arithmetic with an exact square '
        'root, real scalars, threshold tol*||Mb|| > 0; binary64 runs are compared / searched, not proved',
        'complex_gmres_mgs_truthful / complex_gmres_householder_truthful / complex_fgmres_truthful (extension E43): the same '
        'for the complex models (pairs (re, im) over an ordered field with an exact square root, or any field with an '
        'involution and an exact square root of its non-negative reals): the recorded estimate |g[inner+1]| (np.abs) is the '
        '2-norm of the (preconditioned) residual of the callback iterate, by the rotated-basis invariant of the complex '
        'Givens rotations (zlartg contract proved for the formula of the model: c real, c^2+|s|^2 = 1, second entry zeroed), '
        'conjugated MGS / complex Householder reflections with _mysign; no breakdown hypothesis (a recorded estimate is '
        '>= threshold > 0); binary64 pair runs are compared with the code, not proved',
        'cgnr_truthful is stated for the criterion the code tests (M A^H r for MrMr / rMr), see known finding '
        'cgnr-normal-residual-criterion',
    ],
    'assumptions': [
        'binary64 rounding is outside the models: model and code are compared with relative tolerance 1e-9 (observed <= 1e-12) on '
        'well-conditioned integer/dyadic systems n <= 5; threshold decisions closer than 1e-6 (relative) are skipped and counted',
        'status 0 => criterion is judged with slack 1e-8*threshold + 1e-13*(|A|_F max(|x|,|x0|) + |b|)|M|_F for the drift of '
        'recursively updated residuals; history entries with 1e-6 relative + 1e-11 absolute (scaled)',
        'the preconditioner is Hermitian positive definite, the systems are well conditioned (condition number <= ~100)',
        'complete GMRES models (ext_c06_gmres) are executed in binary64 like the code: agreement to 1e-8 relative (x, callback '
        'iterates) resp. 1e-8*(entry + initial residual) + 1e-11*scale (history); the stagnation test is evaluated on x_new - x_old; '
        'the complex pair models (ext_cg_full) likewise, with complex division a*conj(b)/|b|^2 and |z| = sqrt(re^2+im^2) where '
        'NumPy/LAPACK use scaled variants (differences at rounding level, inside the same tolerances)',
    ],
}


REC = ['cg', 'cr', 'cgne', 'cgnr', 'bicgstab', 'steepest_descent', 'minimal_residual']
GM = ['gmres', 'gmres_mgs', 'gmres_householder', 'fgmres']
ALL = REC + GM
CRITS = {'cg': ['rr', 'rr+', 'MrMr', 'rMr'], 'cr': ['rr', 'rr+', 'MrMr'], 'cgne': ['rr', 'rr+', 'MrMr', 'rMr'],
         'cgnr': ['rr', 'rr+', 'MrMr', 'rMr'], 'bicgstab': ['rr', 'rr+'],
         'steepest_descent': ['rr', 'rr+', 'MrMr', 'rMr'], 'minimal_residual': [None],
         'gmres': [None], 'gmres_mgs': [None], 'gmres_householder': [None], 'fgmres': [None]}
NEEDS_HPD = ('cg', 'cr', 'steepest_descent', 'minimal_residual')
PRECOND_HIST = ('minimal_residual', 'gmres', 'gmres_mgs', 'gmres_householder')   # documented: preconditioned history


def _key(*a):
    return hashlib.sha1(repr(a).encode()).hexdigest()


def _enc(a):
    a = np.asarray(a)
    if np.iscomplexobj(a):
        return {'re': a.real.tolist(), 'im': a.imag.tolist()}
    return a.astype(float).tolist()


def _dec(o, cplx):
    if isinstance(o, dict):
        return np.array(o['re'], dtype=float) + 1j * np.array(o['im'], dtype=float)
    a = np.array(o, dtype=float)
    return a.astype(complex) if cplx else a


# ------------------------------------------------------------------------------------------------
# generators
# ------------------------------------------------------------------------------------------------

def _rint(rng, shape, lo, hi, cplx):
    a = rng.integers(lo, hi + 1, size=shape).astype(float)
    if cplx:
        a = a + 1j * rng.integers(lo, hi + 1, size=shape)
    return a


def gen_matrix(rng, n, cplx, hpd, exact):
    """well-conditioned test matrix; `exact` = small integer entries (exact in binary64 and cheap over Rat)"""
    if n == 1:
        v = float(rng.integers(1, 5)) if hpd else float(rng.choice([-3, -1, 2, 4]))
        if cplx and not hpd:
            v = v + 1j * float(rng.integers(-2, 3))
        return np.array([[v]], dtype=complex if cplx else float), 'scalar'
    k = int(rng.integers(0, 4))
    if hpd:
        if exact or k == 0:
            Q = _rint(rng, (n, n), -1, 1, cplx)
            return Q @ Q.conj().T + (n + int(rng.integers(0, 3))) * np.eye(n), 'int-hpd'
        if k == 1:
            A = 2 * np.eye(n) - np.eye(n, k=1) - np.eye(n, k=-1)
            if cplx:
                ph = np.exp(2j * np.pi * rng.random(n))
                A = (ph[:, None] * A) * ph.conj()[None, :]
            return A.astype(complex if cplx else float), 'poisson1d'
        Q = rng.standard_normal((n, n)) + (1j * rng.standard_normal((n, n)) if cplx else 0)
        return Q @ Q.conj().T / n + np.eye(n) * float(rng.uniform(0.5, 2.0)), 'rand-hpd'
    if exact or k == 0:
        R = _rint(rng, (n, n), -1, 1, cplx)
        np.fill_diagonal(R, 0)
        return R + (n + 1 + int(rng.integers(0, 3))) * np.eye(n), 'int-dd'
    if k == 1:
        A = 2.5 * np.eye(n) - 1.5 * np.eye(n, k=1) - 0.5 * np.eye(n, k=-1)     # convection-diffusion like
        return A.astype(complex if cplx else float), 'convdiff'
    R = rng.uniform(-1, 1, (n, n)) + (1j * rng.uniform(-1, 1, (n, n)) if cplx else 0)
    return R + (n * float(rng.uniform(0.8, 1.5))) * np.eye(n) * (1j if (cplx and k == 3) else 1), 'rand-dd'


def gen_precond(rng, Ad, cplx, exact):
    n = Ad.shape[0]
    k = int(rng.integers(0, 3))
    if exact:
        if k == 0 or n == 1:
            return np.diag(rng.choice([0.25, 0.5, 1.0, 2.0], size=n)).astype(Ad.dtype), 'diag'
        Q = _rint(rng, (n, n), -1, 1, cplx)
        np.fill_diagonal(Q, 0)
        Q = np.triu(Q, 1)
        return (np.eye(n) * 4 + Q + Q.conj().T).astype(Ad.dtype) / 4.0 if n <= 3 else np.diag(rng.choice([0.5, 1.0, 2.0], size=n)).astype(Ad.dtype), 'near-id'
    if k == 0:
        return np.diag(1.0 / np.abs(np.diag(Ad))).astype(Ad.dtype), 'jacobi'
    if k == 1:
        S = rng.standard_normal((n, n)) + (1j * rng.standard_normal((n, n)) if cplx else 0)
        return (np.eye(n) + 0.05 * (S @ S.conj().T)).astype(Ad.dtype), 'near-id'
    return np.diag(rng.uniform(0.5, 2.0, size=n)).astype(Ad.dtype), 'diag'


def make_case(rng, solver, exact=False, nmax=12, cplx=None):
    """one input; `exact`: integer/dyadic data, small n, few iterations (cheap for the rational models)"""
    cplx = bool(rng.integers(0, 2)) if cplx is None else cplx
    n = int(rng.integers(1, ((4 if cplx else 5) if exact else nmax) + 1))
    if rng.random() < 0.08:
        n = 1
    hpd = solver in NEEDS_HPD or rng.random() < 0.3
    Ad, fam = gen_matrix(rng, n, cplx, hpd, exact)
    crit = CRITS[solver][int(rng.integers(0, len(CRITS[solver])))]
    mk = str(rng.choice(['none', 'none', 'dense', 'csr', 'linop']))
    if mk == 'none':
        Md, mfam = None, 'none'
    else:
        Md, mfam = gen_precond(rng, Ad, cplx, exact)
        sc = float(rng.choice([0.0625, 1.0, 1.0, 16.0]))       # ||M b|| far from ||b||: the 'MrMr' tests differ from 'rr'
        if sc != 1.0:
            Md, mfam = Md * sc, mfam + '*s'
    ak = str(rng.choice(['dense', 'dense', 'csr', 'csr', 'csc', 'bsr', 'linop']))
    if crit == 'rr+' and ak == 'linop' and rng.random() < 0.9:
        ak = 'csr'
    # right-hand side and x0
    xk = str(rng.choice(['none', 'zero', 'random', 'large', 'large', 'exact', 'near', 'zerob', 'zerob-x0']))
    if exact:
        xs = _rint(rng, n, -3, 3, cplx)
    else:
        xs = rng.standard_normal(n) + (1j * rng.standard_normal(n) if cplx else 0)
    b = Ad @ xs
    x0 = None
    if xk == 'zero':
        x0 = np.zeros(n, dtype=Ad.dtype)
    elif xk == 'random':
        x0 = _rint(rng, n, -3, 3, cplx) if exact else rng.standard_normal(n) + (1j * rng.standard_normal(n) if cplx else 0)
    elif xk == 'large':
        x0 = (_rint(rng, n, -3, 3, cplx) if exact else rng.standard_normal(n) + (1j * rng.standard_normal(n) if cplx else 0)) * float(rng.choice([1e3, 2.0 ** 20, 1e6]))
    elif xk == 'exact':
        x0 = xs.copy()
    elif xk == 'near':
        x0 = xs + (2.0 ** -int(rng.integers(8, 30))) * (_rint(rng, n, -1, 1, cplx) if exact else rng.standard_normal(n))
    elif xk == 'zerob':
        b = np.zeros(n, dtype=Ad.dtype)
    elif xk == 'zerob-x0':
        b = np.zeros(n, dtype=Ad.dtype)
        x0 = _rint(rng, n, -3, 3, cplx).astype(Ad.dtype)
    if exact:
        tol = float(rng.choice([0.5, 0.125, 2.0 ** -10, 2.0 ** -20, 2.0 ** -40]))
        maxiter = [None, 1, 2, 3, 4, 6][int(rng.integers(0, 6))]
        if (solver in ('steepest_descent', 'minimal_residual') or (solver == 'cr' and Md is not None)) and (maxiter is None or maxiter > 4):
            maxiter = 4          # no finite termination: the exact rationals double in length with every iteration
    else:
        tol = float(rng.choice([1e-5, 1e-5, 1e-8, 1e-10, 1e-3, 0.3, 1e-14]))
        maxiter = [None, None, 1, 2, 3, 5, n, 2 * n + 3, 40][int(rng.integers(0, 9))]
    case = {'solver': solver, 'crit': crit, 'cplx': cplx, 'n': n, 'fam': fam, 'A': _enc(Ad), 'b': _enc(b),
            'x0': None if x0 is None else _enc(x0), 'M': None if Md is None else _enc(Md), 'akind': ak, 'mkind': mk,
            'mfam': mfam, 'xkind': xk, 'bcol': bool(rng.random() < 0.2), 'tol': tol, 'maxiter': maxiter,
            'prefill': bool(rng.random() < 0.3), 'x0col': bool(rng.random() < 0.15), 'restart': None, 'restrt': False, 'orthog': None,
            'default_tol': bool((not exact) and tol == 1e-5 and rng.random() < 0.5)}
    if solver in GM:
        case['restart'] = [None, None, 1, 2, 3, n, n + 3][int(rng.integers(0, 7))]
        case['maxiter'] = [None, 1, 2, 3, n, n + 2][int(rng.integers(0, 6))]
        case['restrt'] = bool(case['restart'] is not None and rng.random() < 0.2)
        if solver == 'gmres':
            case['orthog'] = str(rng.choice(['householder', 'mgs']))
    return case


# ------------------------------------------------------------------------------------------------
# running the real code
# ------------------------------------------------------------------------------------------------

class _Ops:
    pass


def build_ops(case):
    """dense reference data + the objects handed to the solver + snapshots for the 'not modified' clause"""
    cplx = case['cplx']
    o = _Ops()
    o.Ad = np.atleast_2d(_dec(case['A'], cplx))
    o.n = n = o.Ad.shape[0]
    o.b = _dec(case['b'], cplx).ravel()
    o.x0 = None if case['x0'] is None else _dec(case['x0'], cplx).ravel()
    o.Md = None if case['M'] is None else np.atleast_2d(_dec(case['M'], cplx))
    o.watch = []

    def wrap(D, kind, name):
        D = D.copy()
        if kind == 'dense':
            o.watch.append((name, D))
            return D
        if kind in ('csr', 'csc', 'bsr'):
            S = {'csr': sp.csr_array, 'csc': sp.csc_array, 'bsr': sp.bsr_array}[kind](D)
            o.watch.extend([(name + '.data', S.data), (name + '.indices', S.indices), (name + '.indptr', S.indptr)])
            return S
        o.watch.append((name + ' (array behind the LinearOperator)', D))
        DH = D.conj().T.copy()
        return LinearOperator((n, n), matvec=lambda v: D @ v, rmatvec=lambda v: DH @ v, dtype=D.dtype)

    o.A = wrap(o.Ad, case['akind'], 'A')
    o.M = None if o.Md is None else wrap(o.Md, case['mkind'], 'M')
    o.b_in = o.b.reshape(-1, 1).copy() if case['bcol'] else o.b.copy()
    o.watch.append(('b', o.b_in))
    o.x0_in = None if o.x0 is None else (o.x0.reshape(-1, 1).copy() if case.get('x0col') else o.x0.copy())
    if o.x0_in is not None:
        o.watch.append(('x0', o.x0_in))
    o.snap = [a.tobytes() for _, a in o.watch]
    return o


def call_solver(case, o, maxiter='case', with_hist=True):
    """returns dict(exc | x, info, res, cbs)"""
    from pyamg import krylov
    f = getattr(krylov, case['solver'])
    kw = {}
    if o.x0_in is not None:
        kw['x0'] = o.x0_in
    if not case.get('default_tol'):
        kw['tol'] = case['tol']
    if case['crit'] is not None:
        kw['criteria'] = case['crit']
    mi = case['maxiter'] if maxiter == 'case' else maxiter
    if mi is not None:
        kw['maxiter'] = mi
    if o.M is not None:
        kw['M'] = o.M
    if case['solver'] in GM:
        if case['restart'] is not None:
            kw['restrt' if case['restrt'] else 'restart'] = case['restart']
        if case['orthog']:
            kw['orthog'] = case['orthog']
    res = [-7.0, -7.0] if case['prefill'] else []
    cbs = []
    if with_hist in (True, 'res'):
        kw['residuals'] = res
    if with_hist in (True, 'cb'):
        kw['callback'] = lambda xk: cbs.append(np.array(xk, copy=True))
    with warnings.catch_warnings():
        warnings.simplefilter('ignore')
        show = warnings.showwarning
        warnings.showwarning = lambda *a, **k: None     # the solvers re-enable their own warnings ('always')
        try:
            with np.errstate(all='ignore'):
                x, info = f(o.A, o.b_in, **kw)
        except Exception as ex:       # noqa: BLE001 - the property says every call returns (x, status)
            return {'exc': f'{type(ex).__name__}: {ex}'}
        finally:
            warnings.showwarning = show
    return {'x': np.asarray(x), 'info': info, 'res': [float(np.real(v)) for v in res], 'cbs': cbs, 'res_raw': res}


def eff_maxiter(case, n):
    """iterations after which the solver gives up (documented defaults and clamps)"""
    s, mi = case['solver'], case['maxiter']
    if s in ('cg', 'cr', 'minimal_residual'):
        return int(1.3 * n) + 2 if mi is None else mi
    if s == 'steepest_descent':
        return n if mi is None else mi
    if s == 'bicgstab':
        return n + 5 if mi is None else mi
    if s in ('cgne', 'cgnr'):
        if mi is None or mi > 1.3 * n:
            return int(np.ceil(1.3 * n)) + 2
        return mi
    r = case['restart']
    if r:
        return min(r, n) * (mi if mi else 1)
    return min(n, 40) if mi is None else min(mi, n)


# ------------------------------------------------------------------------------------------------
# the oracle of the property
# ------------------------------------------------------------------------------------------------

def _norm(v):
    return float(np.linalg.norm(v))


def criterion(case, o, x, variant='doc'):
    """documented stopping criterion recomputed from x: (value, threshold, rounding scale)"""
    s, crit, tol = case['solver'], case['crit'], case['tol']
    Md = np.eye(o.n) if o.Md is None else o.Md
    r = o.b - o.Ad @ x
    nb = _norm(o.b)
    nb1 = nb if nb != 0 else 1.0
    nA, nM = _norm(o.Ad), _norm(Md)
    base = nA * max(_norm(x), _norm(x0_vec(o))) + nb     # rounding of x += ... happens at the size of the larger of x0, x
    if s in PRECOND_HIST or crit == 'MrMr':
        rr = o.Ad.conj().T @ r if (s == 'cgnr' and variant == 'code') else r
        nMb = _norm(Md @ o.b)
        if nMb == 0 or (s in PRECOND_HIST and nb == 0):
            nMb = 1.0                  # "if ||b|| = 0, then set ||b|| = 1 for these tests"
        return _norm(Md @ rr), tol * nMb, nM * base * (nA if rr is not r else 1.0)
    if s == 'fgmres' or crit == 'rr':
        return _norm(r), tol * nb1, base
    if crit == 'rr+':
        return _norm(r), tol * (nb1 + nA * _norm(x)), base
    if crit == 'rMr':
        rr = o.Ad.conj().T @ r if (s == 'cgnr' and variant == 'code') else r
        v = float(np.real(np.vdot(rr, Md @ rr)))
        return float(np.sqrt(max(v, 0.0))), tol, np.sqrt(nM) * base * (nA if rr is not r else 1.0)
    raise AssertionError(crit)


def hist_value(case, o, x):
    Md = np.eye(o.n) if o.Md is None else o.Md
    r = o.b - o.Ad @ x
    nA, nM = _norm(o.Ad), _norm(Md)
    base = nA * max(_norm(x), _norm(x0_vec(o))) + _norm(o.b)
    if case['solver'] in PRECOND_HIST:
        return _norm(Md @ r), nM * base
    return _norm(r), base


def x0_vec(o):
    return np.zeros(o.n, dtype=o.Ad.dtype) if o.x0 is None else o.x0.astype(o.Ad.dtype)


def judge(case, o, out, ctx=None):
    """all violations of the property visible in one run: list of (kind, text)"""
    V = []
    s, n = case['solver'], o.n
    if 'exc' in out:
        if case['crit'] == 'rr+' and case['akind'] == 'linop' and ('||A||_F' in out['exc'] or "attribute 'A'" in out['exc']):
            if ctx is not None:
                ctx.feat('rr+ rejected for a LinearOperator (no Frobenius norm): explicit input validation')
            return []
        return [('exception', f'raised {out["exc"]}')]
    x, info, res, cbs = out['x'], out['info'], out['res'], out['cbs']
    if x.shape not in ((n,), (n, 1)):
        return [('shape', f'x has shape {x.shape} for n = {n}')]
    x = x.ravel()
    x0 = x0_vec(o)
    if not isinstance(info, (int, np.integer)):
        V.append(('status-type', f'status {info!r} is not an integer'))
        return V
    finite = bool(np.all(np.isfinite(x)))
    if not finite:
        V.append(('nonfinite', f'x is not finite ({x[:3]}) for finite, nonsingular input; status {info}'))
    # inputs untouched
    for (name, a), before in zip(o.watch, o.snap):
        if a.tobytes() != before:
            V.append(('modified', f'{name} was modified by the call'))
    # history shape
    if case['prefill'] and res[:2] == [-7.0, -7.0] and len(res) >= 2:
        V.append(('hist-len', 'entries present in the caller\'s residuals list before the call are kept in the history'))
    ncb = len(cbs)
    if len(res) != ncb + 1:
        V.append(('hist-len', f'{len(res)} residual entries for {ncb} callback invocations (expected iterations + 1)'))
    if not all(np.isfinite(res)):
        V.append(('hist-nonfinite', f'residual history contains non-finite entries {res[-3:]}'))
    if info > 0:
        if info != ncb:
            V.append(('status-count', f'positive status {info} but {ncb} iterations were performed (callbacks)'))
        em = eff_maxiter(case, n)
        if info != em and ncb != em:
            # GMRES family: the inner loop may stop on the Givens estimate while the true residual is just above
            v, thr, sc = criterion(case, o, x)
            if not (s in GM and v <= thr * (1 + 1e-6) + 1e-12 * sc):
                V.append(('status-maxiter', f'positive status {info} after {ncb} iterations, but the iteration limit is {em}'))
    if not finite:
        return V
    # converged x0 must come back unchanged
    v0, thr0, sc0 = criterion(case, o, x0)
    slack0 = 1e-6 * thr0 + 1e-12 * sc0
    untouched = info == 0 and ncb == 0 and len(res) == 1 and np.array_equal(x, x0)
    cgnr_variant = s == 'cgnr' and case['crit'] in ('MrMr', 'rMr')
    if v0 < thr0 - slack0:
        bad = []
        if info != 0:
            bad.append(f'status {info}')
        if not np.array_equal(x, x0):
            bad.append(f'x differs from x0 by {float(np.max(np.abs(x - x0))):.3g}')
        if len(res) != 1:
            bad.append(f'{len(res)} residual entries')
        if ncb != 0:
            bad.append(f'{ncb} callbacks')
        if bad:
            note = ''
            if cgnr_variant:
                vc, thc, scc = criterion(case, o, x0, 'code')
                if not vc < thc - (1e-6 * thc + 1e-12 * scc):
                    note = ' [the code tests the normal-equations residual M A^H r, which does not (clearly) meet it]'
            V.append(('x0-converged', f'x0 already meets the criterion ({v0:.3g} < {thr0:.3g}) but: ' + ', '.join(bad) + note))
    # status 0 => documented criterion for the returned x
    if info == 0:
        v, thr, sc = criterion(case, o, x)
        slack = 1e-8 * thr + 1e-13 * sc
        if not v <= thr + slack:
            note = ''
            if cgnr_variant:
                vc, thc, scc = criterion(case, o, x, 'code')
                if vc <= thc + 1e-8 * thc + 1e-13 * scc:
                    note = ' [the normal-equations residual M A^H r, which the code tests instead, meets it]'
            if s == 'bicgstab' and case['crit'] == 'rr+' and ncb >= 1:
                xp = cbs[-2].ravel() if ncb >= 2 else x0
                nb = _norm(o.b)
                thp = case['tol'] * ((nb if nb != 0 else 1.0) + _norm(o.Ad) * _norm(xp))
                if v <= thp + 1e-8 * thp + 1e-13 * sc and _norm(xp) > _norm(x):
                    note = ' [halfstep exit: the threshold of the previous iterate was used]'
            V.append(('status0-crit', f'status 0 but the documented criterion fails for the returned x: {v:.6g} >= {thr:.6g}'
                      f' ({case["crit"] or "MrMr/rr"}, tol {case["tol"]:g}, {"no iteration" if untouched else str(ncb) + " iterations"}){note}'))
    # every history entry belongs to its iterate; the last one to the returned x
    iters = [x0] + [c.ravel() for c in cbs]
    if len(res) == len(iters):
        for k, (rk, xk) in enumerate(zip(res, iters)):
            if not np.all(np.isfinite(xk)):
                V.append(('cb-nonfinite', f'callback iterate {k} is not finite'))
                break
            hv, hs = hist_value(case, o, xk)
            tolk = 1e-6 * hv + 1e-11 * (hs + res[0])
            if abs(rk - hv) > tolk:
                which = 'initial residual' if k == 0 else f'entry {k}'
                V.append(('hist-entry', f'residual history {which} is {rk:.8g} but the '
                          f'{"preconditioned " if s in PRECOND_HIST else ""}residual norm of iterate {k} is {hv:.8g}'))
                break
    elif res:
        hv, hs = hist_value(case, o, x)
        if abs(res[-1] - hv) > 1e-6 * hv + 1e-11 * (hs + abs(res[0])) and info >= 0:
            V.append(('hist-last', f'last residual entry {res[-1]:.8g} does not belong to the returned x (residual norm {hv:.8g})'))
    if info >= 0 and ncb > 0 and not np.array_equal(cbs[-1].ravel(), x):
        V.append(('cb-last', f'the last callback argument differs from the returned x by {float(np.max(np.abs(cbs[-1].ravel() - x))):.3g}'))
    if info >= 0 and ncb == 0 and not np.array_equal(x, x0):
        V.append(('cb-count', f'x differs from x0 (by {float(np.max(np.abs(x - x0))):.3g}) but the callback was never invoked'))
    return V


def fkey_of(case, kind, text, o):
    """narrow classification of findings already reported: decided from the input shape / call site only"""
    s, crit = case['solver'], case['crit']
    if o.n == 1 and s in GM and kind in ('hist-len', 'x0-converged', 'cb-count', 'hist-last'):
        return 'gmres-n1-shortcut'          # `if n == 1: return b/entry, 0` before anything is recorded
    if o.n == 1 and s == 'bicgstab' and kind in ('hist-len', 'cb-count', 'hist-last'):
        return 'bicgstab-n1-shortcut'       # same shortcut after the initial test
    # (repaired in /repo, therefore no key: cgne/cgnr on a LinearOperator [7722057], 'MrMr' with b = 0 [7a985a1],
    #  bicgstab half-step exit with 'rr+' [437af86] -- their input shapes are still generated)
    if s == 'cgnr' and crit in ('MrMr', 'rMr') and kind in ('status0-crit', 'x0-converged') and 'normal-equations' in text:
        return 'cgnr-normal-residual-criterion'   # tests M A^H r where the docstring says M r
    return None


# ------------------------------------------------------------------------------------------------
# search on the real code
# ------------------------------------------------------------------------------------------------

def check_case(ctx, case, extra=True):
    o = build_ops(case)
    out = call_solver(case, o)
    V = judge(case, o, out, ctx)
    s = case['solver']
    ran = 'exc' not in out
    ncb = len(out['cbs']) if ran else 0
    ctx.case(key=_key(sorted((k, repr(v)) for k, v in case.items())), nontrivial=ran and (ncb > 0 or case['xkind'] in ('exact', 'near', 'zerob')),
             sample={k: case[k] for k in ('solver', 'crit', 'cplx', 'n', 'fam', 'akind', 'mkind', 'xkind', 'tol', 'maxiter', 'restart')}
             if ctx.evaluations % 997 == 0 else None)
    for f in ('solver', 'crit', 'akind', 'mkind', 'xkind', 'fam'):
        ctx.feat(f'{f}:{case[f]}')
    ctx.feat('dtype:' + ('complex' if case['cplx'] else 'real'))
    if ran:
        ctx.feat('exit:' + ('0-initial' if (out['info'] == 0 and ncb == 0) else '0' if out['info'] == 0 else 'maxiter' if out['info'] > 0 else 'negative'))
    if ran and extra and not V:
        # (a) same answer, same history, same callback sequence when only one of residuals / callback (or none) is passed
        if ctx.evaluations % 3 == 0:
            mode = (False, 'res', 'cb')[(ctx.evaluations // 3) % 3]
            what = {False: 'without residuals/callback', 'res': 'with residuals only', 'cb': 'with callback only'}[mode]
            o2 = build_ops(case)
            out2 = call_solver(case, o2, with_hist=mode)
            if 'exc' in out2:
                V.append(('exception', f'{what}: raised {out2["exc"]}'))
            elif out2['info'] != out['info'] or not np.array_equal(out2['x'].ravel(), out['x'].ravel(), equal_nan=True):
                V.append(('nohist-differs', f'{what} the call returns status {out2["info"]} and an x differing by '
                          f'{float(np.max(np.abs(out2["x"].ravel() - out["x"].ravel()))):.3g} (with both: status {out["info"]})'))
            elif mode == 'res' and out2['res'] != out['res']:
                V.append(('nohist-differs', f'{what} the residual history differs ({len(out2["res"])} vs {len(out["res"])} entries)'))
            elif mode == 'cb' and (len(out2['cbs']) != ncb or any(not np.array_equal(a, c) for a, c in zip(out2['cbs'], out['cbs']))):
                V.append(('nohist-differs', f'{what} the callback sequence differs ({len(out2["cbs"])} vs {ncb} calls)'))
        # (b) the k-th callback iterate is what the solver returns when stopped after k iterations
        if ncb >= 2 and out['info'] >= 0 and ctx.evaluations % 2 == 0:
            if s in REC:
                k = 1 + (ctx.evaluations // 2) % (ncb - 1)
                if eff_maxiter({**case, 'maxiter': k}, o.n) != k:
                    k = 1                      # cgne/cgnr replace maxiter > 1.3 n
                o3 = build_ops(case)
                out3 = call_solver(case, o3, maxiter=k)
                if 'exc' in out3:
                    V.append(('exception', f'maxiter={k}: raised {out3["exc"]}'))
                elif out3['info'] not in (0, k) or len(out3['cbs']) != k:
                    V.append(('prefix', f'maxiter={k}: status {out3["info"]} after {len(out3["cbs"])} callbacks'))
                elif not np.array_equal(out3['x'].ravel(), out['cbs'][k - 1].ravel()):
                    V.append(('prefix', f'callback iterate {k} differs from the x returned with maxiter={k} by '
                              f'{float(np.max(np.abs(out3["x"].ravel() - out["cbs"][k - 1].ravel()))):.3g}'))
            elif not case['restart']:
                k = 1 + (ctx.evaluations // 2) % (ncb - 1)
                o3 = build_ops(case)
                out3 = call_solver(case, o3, maxiter=k)
                if 'exc' in out3:
                    V.append(('exception', f'maxiter={k}: raised {out3["exc"]}'))
                elif out3['info'] >= 0:
                    d = float(np.max(np.abs(out3['x'].ravel() - out['cbs'][k - 1].ravel())))
                    sc = float(np.max(np.abs(out['cbs'][k - 1]))) + float(np.max(np.abs(x0_vec(o))))
                    if d > 1e-7 * sc + 1e-12:
                        V.append(('prefix', f'callback iterate {k} differs from the x returned with maxiter={k} by {d:.3g}'))
    for kind, text in V:
        ctx.violation(f'{s}({_describe(case)}): {text}', {'case': case, 'kind': kind}, fkey=fkey_of(case, kind, text, o))
    return o, out, V


def _describe(c):
    parts = [f'n={c["n"]}', 'complex' if c['cplx'] else 'real', f'A:{c["akind"]}', f'M:{c["mkind"]}', f'x0:{c["xkind"]}',
             f'tol={c["tol"]:g}', f'maxiter={c["maxiter"]}']
    if c['crit']:
        parts.insert(0, f'criteria={c["crit"]!r}')
    if c['solver'] in GM:
        parts.append(f'restart={c["restart"]}')
    if c['orthog']:
        parts.append(f'orthog={c["orthog"]}')
    return ', '.join(parts)


def search_part(ctx, count, nmax=12):
    rng = ctx.np_rng
    for t in range(count):
        s = ALL[t % len(ALL)]
        check_case(ctx, make_case(rng, s, exact=False, nmax=nmax))
        if ctx.time_left() < 5 or (ctx.quick and not ctx.deep and time.time() - ctx.t0 > 50):
            ctx.feat('search stopped by the time budget')
            break


# ------------------------------------------------------------------------------------------------
# correspondence with the Lean models
# ------------------------------------------------------------------------------------------------

def _mat_line(D, cplx):
    enc = enc_crats if cplx else enc_rats
    return ';'.join(enc(row) for row in D)


def _near_threshold(case, o, out):
    """a decision of the code was within 1e-6 (relative) of its threshold: the exact model may decide differently"""
    for xk in [x0_vec(o)] + [c.ravel() for c in out['cbs']]:
        for var in ('doc', 'code'):
            v, thr, sc = criterion(case, o, xk, var)
            if abs(v - thr) <= 1e-6 * thr + 1e-11 * sc:
                return True
    return False


def model_part(ctx, count):
    rng = ctx.np_rng
    items = []
    from fractions import Fraction

    def add(case):
        o, out, V = check_case(ctx, case, extra=False)
        if 'exc' in out:
            return out
        cplx = case['cplx']
        Md = np.eye(o.n, dtype=o.Ad.dtype) if o.Md is None else o.Md
        enc = enc_crats if cplx else enc_rats
        tol2 = Fraction(case['tol']) ** 2
        mi = eff_maxiter(case, o.n) if case['maxiter'] is None else case['maxiter']
        line = (f'c06_run {case["solver"]} {"c" if cplx else "r"} {_mat_line(o.Ad, cplx)} {_mat_line(Md, cplx)} {enc(o.b)} '
                f'{enc(x0_vec(o))} {case["crit"] or "rr"} {tol2.numerator}/{tol2.denominator} {mi}')
        items.append((line, case, o, out))
        return out

    for t in range(count):
        s = REC[t % len(REC)]
        case = make_case(rng, s, exact=True)
        case['akind'] = str(rng.choice(['dense', 'csr']))
        case['default_tol'] = False
        out = add(case)
        # boundary: the iteration limit equal to the number of iterations the run needed
        if 'exc' not in out and out['info'] == 0 and len(out['cbs']) >= 1 and case['maxiter'] != len(out['cbs']):
            add({**case, 'maxiter': len(out['cbs'])})
    replies = ctx.lean([it[0] for it in items])
    for (line, case, o, out), rep in zip(items, replies):
        s = case['solver']
        ctx.feat('model:' + s)
        parts = rep.split(' ')
        if len(parts) != 4:
            ctx.corr('c06_run ' + s, {'case': case}, rep, 'unparsable reply')
            continue
        cplx = case['cplx']
        dec = (lambda t: complex(float(dec_crat(t)[0]), float(dec_crat(t)[1]))) if cplx else (lambda t: float(dec_rat(t)))
        mstatus = int(parts[0])
        mres2 = [float(dec_rat(t)) for t in dec_list(parts[1])]
        mx = np.array([dec(t) for t in dec_list(parts[2])])
        mlog = [] if parts[3] == '-' else [np.array([dec(t) for t in dec_list(v)]) for v in parts[3].split(';')]
        if mstatus == -98:
            ctx.feat('model:division-by-zero')      # 0/0 in the code: judged by the search oracle (finiteness)
            continue
        x, info, res, cbs = out['x'].ravel(), int(out['info']), out['res'], out['cbs']
        impl = f'status {info}, {len(res)} residuals, {len(cbs)} callbacks, x {x[:4]}'
        model = f'status {mstatus}, {len(mres2)} residuals, {len(mlog)} callbacks, x {mx[:4]}'
        ok = mstatus == info and len(mres2) == len(res) and len(mlog) == len(cbs)
        if not ok:
            if _near_threshold(case, o, out):
                ctx.near_skipped += 1
                continue
            ctx.corr('c06_run ' + s, {'case': case, 'line': line[:300]}, model, impl, 'status / history length / callback count')
            continue
        sc = float(np.max(np.abs(mx))) + float(np.max(np.abs(x0_vec(o)))) + 1e-300
        bad = None
        if np.max(np.abs(mx - x)) > 1e-9 * sc:
            bad = f'x differs by {float(np.max(np.abs(mx - x))):.3g}'
        for k, (a, c) in enumerate(zip(mlog, cbs)):
            if bad is None and np.max(np.abs(a - c.ravel())) > 1e-9 * sc:
                bad = f'callback iterate {k + 1} differs by {float(np.max(np.abs(a - c.ravel()))):.3g}'
        r0 = np.sqrt(mres2[0]) if mres2 else 0.0
        hs = hist_value(case, o, x)[1]
        for k, (a2, c) in enumerate(zip(mres2, res)):
            if bad is None and abs(np.sqrt(a2) - c) > 1e-9 * (np.sqrt(a2) + r0) + 1e-11 * hs:
                bad = f'residual entry {k}: model {np.sqrt(a2):.10g}, code {c:.10g}'
        ctx.rel_err(float(np.max(np.abs(mx - x))) / sc)
        if bad:
            ctx.corr('c06_run ' + s, {'case': case, 'line': line[:300]}, model, impl, bad)
            # a disagreement is not yet a violation: the property oracle already judged this very run in check_case


def gmres_ctl_part(ctx, count, nmax=8):
    """GMRES family: control flow (counters, restart, early inner exit) vs the Lean control model"""
    rng = ctx.np_rng
    items = []
    for t in range(count):
        s = GM[t % len(GM)]
        case = make_case(rng, s, exact=False, nmax=nmax)
        o, out, V = check_case(ctx, case, extra=False)
        if 'exc' in out or not np.all(np.isfinite(out['x'])):
            continue
        bits, near = [], False
        for c in out['cbs']:
            v, thr, sc = criterion(case, o, c.ravel())
            near |= abs(v - thr) <= 1e-6 * thr + 1e-11 * sc
            bits.append('1' if v < thr else '0')
        v0, thr0, sc0 = criterion(case, o, x0_vec(o))
        near |= abs(v0 - thr0) <= 1e-6 * thr0 + 1e-11 * sc0
        if near:
            ctx.near_skipped += 1
            continue
        ncb = len(out['cbs'])
        stag = ['0'] * ncb
        if out['info'] == -1 and ncb:
            stag[-1] = '1'
        b = ''.join(bits) or '0'
        opt = lambda v: '_' if v is None else str(v)
        line = (f'c06_gctl 0 {o.n} {opt(case["restart"])} {opt(case["maxiter"])} '
                f'{1 if v0 < thr0 else 0} {b} {b} {"".join(stag) or "0"}')
        items.append((line, case, o, out))
    replies = ctx.lean([it[0] for it in items])
    for (line, case, o, out), rep in zip(items, replies):
        ctx.feat('model:gmres-control')
        ncb = len(out['cbs'])
        if rep == 'short':
            impl = f'{out["info"]} {len(out["res"])} {ncb}'
            if not (out['info'] == 0 and ncb == 0 and len(out['res']) == (2 if case['prefill'] else 0)):
                ctx.corr('c06_gctl', {'case': case, 'line': line}, 'n == 1 shortcut: status 0, nothing recorded', impl)
            continue
        p = rep.split(' ')
        model = (int(p[0]), int(p[2]), int(p[2]) + 1)
        impl = (int(out['info']), ncb, len(out['res']))
        # the model reports niter (p[1]) as positive status
        if model[0] > 0:
            model = (int(p[1]), model[1], model[2])
        if model != impl:
            ctx.corr('c06_gctl', {'case': case, 'line': line}, f'(status, callbacks, residual entries) = {model}', f'{impl}')


def _fbits(v):
    return ','.join(str(float_bits(t)) for t in np.asarray(v, dtype=float).ravel())


def _unbits(tok):
    import struct
    if tok == '-':
        return np.zeros(0)
    return np.array([struct.unpack('<d', struct.pack('<Q', int(t)))[0] for t in tok.split(',')])


def _cbits(v):
    """complex vector as interleaved re, im bit patterns (op ext_cg_full)"""
    v = np.asarray(v, dtype=complex).ravel()
    return ','.join(f'{float_bits(z.real)},{float_bits(z.imag)}' for z in v)


def _uncbits(tok):
    f = _unbits(tok)
    return f[0::2] + 1j * f[1::2]


def gmres_full_part(ctx, count, nmax=8, cplx=False):
    """GMRES family, complete runs (extension E16): status, iteration count, every entry of `residuals`, every callback
    iterate and the returned x vs the Lean models of Model/ExtC06Gmres.lean run in binary64 (op ext_c06_gmres); real case.
    cplx=True (extension E43): complex systems vs the pair models of Model/ExtCGGmres.lean (op ext_cg_full: zlartg
    rotations, conjugated inner products, complex _mysign), same tolerances"""
    rng = ctx.np_rng
    kinds = {'gmres_mgs': 'mgs', 'gmres_householder': 'hh', 'fgmres': 'fg'}
    opname = 'ext_cg_full' if cplx else 'ext_c06_gmres'
    rp = (lambda a: np.asarray(a)) if cplx else (lambda a: np.asarray(a).real)
    items = []
    for t in range(count):
        s = GM[t % len(GM)]
        case = make_case(rng, s, exact=False, nmax=nmax, cplx=cplx)
        if rng.random() < 0.35:
            case['tol'] = float(rng.choice([0.5, 0.1, 1e-2, 1e-3]))      # early inner exits and several cycles
            case['default_tol'] = False
        o, out, V = check_case(ctx, case, extra=False)
        if 'exc' in out or not np.all(np.isfinite(out['x'])):
            continue
        kind = kinds.get(s) or ('mgs' if case['orthog'] == 'mgs' else 'hh')
        Md = np.eye(o.n) if o.Md is None else o.Md
        tol = 1e-5 if case.get('default_tol') else case['tol']
        opt = lambda v: '_' if v is None else str(v)
        if cplx:
            line = (f'ext_cg_full {kind} {";".join(_cbits(r) for r in o.Ad)} {";".join(_cbits(r) for r in Md)} '
                    f'{_cbits(o.b)} {_cbits(x0_vec(o))} {float_bits(tol)} {opt(case["restart"])} {opt(case["maxiter"])}')
        else:
            line = (f'ext_c06_gmres {kind} {";".join(_fbits(r) for r in o.Ad.real)} {";".join(_fbits(r) for r in Md.real)} '
                    f'{_fbits(o.b.real)} {_fbits(x0_vec(o).real)} {float_bits(tol)} {opt(case["restart"])} {opt(case["maxiter"])}')
        items.append((line, case, o, out, kind))
    replies = ctx.lean([it[0] for it in items])
    for (line, case, o, out, kind), rep in zip(items, replies):
        ctx.feat('model:gmres-full-' + ('complex-' if cplx else '') + kind)
        x, info, res, cbs = rp(out["x"].ravel()), int(out['info']), out['res'], [rp(c.ravel()) for c in out["cbs"]]
        pub = {'case': case, 'line': line[:300]}
        if rep == 'short':
            if not (o.n == 1 and info == 0 and not cbs and len(res) == (2 if case['prefill'] else 0)):
                ctx.corr(opname, pub, 'n == 1 shortcut / rejected', f'status {info}, {len(res)} residuals, {len(cbs)} callbacks')
            continue
        p = rep.split(' ')
        if len(p) != 5:
            ctx.corr(opname, pub, rep[:200], 'unparsable reply')
            continue
        unv = _uncbits if cplx else _unbits
        mstatus, mhist, mx = int(p[0]), _unbits(p[2]), unv(p[3])
        mlog = [] if p[4] == '-' else [unv(v) for v in p[4].split(';')]
        impl = f'status {info}, {len(res)} residuals, {len(cbs)} callbacks, x {x[:4]}'
        model = f'status {mstatus}, {len(mhist)} residuals, {len(mlog)} callbacks, x {mx[:4]}'
        if not (mstatus == info and len(mhist) == len(res) and len(mlog) == len(cbs)):
            # a decision (early exit, convergence, stagnation) taken at rounding level / next to its threshold?
            near = False
            _, thr, sc = criterion(case, o, x)
            for h in list(res) + [float(v) for v in mhist]:
                near |= (not np.isfinite(h)) or abs(h - thr) <= 1e-6 * thr + 1e-11 * sc
            its = [rp(x0_vec(o))] + cbs
            for a, c in zip(its, its[1:]):
                nz = c != 0
                if nz.any() and float(np.max(np.abs((c - a)[nz] / c[nz]))) < 1e-10:
                    near = True                  # the stagnation exit (relative update below 1e-12) is in reach
            its = [rp(x0_vec(o))] + mlog
            for a, c in zip(its, its[1:]):
                nz = c != 0
                if np.all(np.isfinite(c)) and nz.any() and float(np.max(np.abs((c - a)[nz] / c[nz]))) < 1e-10:
                    near = True
            if near:
                ctx.near_skipped += 1
                ctx.feat('gmres-full-near-skipped' + ('-complex' if cplx else ''))
                continue
            ctx.corr(opname + ' ' + kind, pub, model, impl, 'status / history length / callback count')
            continue
        sc = float(np.max(np.abs(x))) + float(np.max(np.abs(x0_vec(o)))) + 1e-300
        bad = None
        if not np.all(np.isfinite(mx)) or np.max(np.abs(mx - x)) > 1e-8 * sc:
            bad = f'x differs by {float(np.max(np.abs(mx - x))):.3g}'
        for k, (a, c) in enumerate(zip(mlog, cbs)):
            if bad is None and (not np.all(np.isfinite(a)) or np.max(np.abs(a - c)) > 1e-8 * sc):
                bad = f'callback iterate {k + 1} differs by {float(np.max(np.abs(a - c))):.3g}'
        hs = hist_value(case, o, x)[1]
        r0 = res[0] if res else 0.0
        for k, (a, c) in enumerate(zip(mhist, res)):
            if bad is None and not abs(a - c) <= 1e-8 * (abs(c) + r0) + 1e-11 * hs:
                bad = f'residual entry {k}: model {a:.10g}, code {c:.10g}'
        ctx.rel_err(float(np.max(np.abs(mx - x))) / sc)
        ctx.feat('gmres-full-entries' + ('-complex' if cplx else ''), len(res))
        ctx.feat(f'gmres-full-compared{"-complex" if cplx else ""}:status {"0" if info == 0 else "maxiter" if info > 0 else "-1"}')
        if bad:
            ctx.corr(opname + ' ' + kind, pub, model, impl, bad)
            # a disagreement is not yet a violation: the property oracle already judged this very run in check_case


# ------------------------------------------------------------------------------------------------
# wave 4: exact zeros in b / in the start residual (all solvers); long runs across the
#         "every k-th iteration" branches
# ------------------------------------------------------------------------------------------------

# every-k-th-iteration branches of pyamg/krylov (read from the sources):
#   cg, cr, cgne, cgnr            recompute_r = 8 : residual of iterate k recomputed from x when k % 8 == 1, by recurrence otherwise
#   steepest_descent, minimal_residual  recompute_r = 50 : residual of iterate k by recurrence when k % 50 == 0, recomputed otherwise
#   bicgstab                      none (recurrence only)
#   gmres_mgs / gmres_householder / fgmres  restart boundary (explicit residual, new Householder/Arnoldi start vector),
#                                 last inner iteration of a cycle (inner == max_inner - 1), inner == n - 1,
#                                 maxiter=None -> min(n, 40) (only visible for n > 40), restart > n -> n
INTERVAL = {'cg': 8, 'cr': 8, 'cgne': 8, 'cgnr': 8, 'steepest_descent': 50, 'minimal_residual': 50}
STRUCT_KINDS = ['unit', 'unit', 'first0', 'lead0', 'trail0', 'sparse']


def _svec(rng, n, cplx, kind):
    """vector with exact zeros: c e_k / zero first entry / zero leading block / zero trailing block / sparse"""
    v = _rint(rng, n, 1, 3, cplx) * rng.choice([-1.0, 1.0], size=n)
    if rng.random() < 0.3:
        v = v * float(rng.choice([0.375, 1e-3, 2.0 ** 10]))
    if n == 1:
        return v, 'unit'
    if kind == 'unit':
        k = int([0, n - 1, 1, int(rng.integers(0, n))][int(rng.integers(0, 4))])
        e = np.zeros(n, dtype=v.dtype)
        e[k] = v[k]
        return e, 'unit'
    if kind == 'first0':
        v[0] = 0
    elif kind == 'lead0':
        v[:int(rng.integers(1, n))] = 0
    elif kind == 'trail0':
        v[n - int(rng.integers(1, n)):] = 0
    else:
        keep = rng.random(n) < 0.35
        keep[int(rng.integers(0, n))] = True
        keep[(int(np.flatnonzero(keep)[0]) + 1 + int(rng.integers(0, n - 1))) % n] = False
        v[~keep] = 0
    return v, kind


def structure_case(rng, case):
    """replace b / x0 of a case of make_case: b (x0 omitted or zero) or the start residual b - A x0 has exact zeros"""
    cplx, n, s = case['cplx'], case['n'], case['solver']
    Ad = np.atleast_2d(_dec(case['A'], cplx))
    if s in GM and n >= 3 and rng.random() < 0.12:
        # scaled cyclic shift (+ multiple of I): unitary up to scale, zero diagonal -> <v, A v> = 0 for a unit start vector
        c = float(rng.choice([1.0, -2.0, 0.5]))
        Ad = (c * np.roll(np.eye(n), 1, axis=0) + float(rng.choice([0.0, 0.0, 0.5])) * c * np.eye(n)).astype(Ad.dtype)
        if cplx and rng.random() < 0.5:
            Ad = Ad * 1j
        case['A'], case['fam'] = _enc(Ad), 'shift'
    v, kind = _svec(rng, n, cplx, STRUCT_KINDS[int(rng.integers(0, len(STRUCT_KINDS)))])
    v = v.astype(Ad.dtype)
    if rng.random() < 0.6:
        where, b = 'b', v
        x0 = None if rng.random() < 0.6 else np.zeros(n, dtype=Ad.dtype)
    else:
        where = 'r0'
        x0 = (_rint(rng, n, -3, 3, cplx) * float(rng.choice([1.0, 1.0, 0.5, 64.0]))).astype(Ad.dtype)
        b = Ad @ x0 + v                       # exact for the integer / dyadic families: r0 == v bit for bit
    case['b'], case['x0'] = _enc(b), None if x0 is None else _enc(x0)
    case['xkind'] = f'struct-{where}-{kind}'
    return case


def struct_part(ctx, count, nmax=12):
    rng = ctx.np_rng
    for t in range(count):
        s = ALL[t % len(ALL)]
        case = make_case(rng, s, exact=bool(rng.random() < 0.5), nmax=nmax)
        # (bicgstab on small-integer matrices with unit start residuals reaches the exact breakdown <r*, r_k> = 0: it used to
        # return NaN, repaired in /repo -- breakdown exit with status -1 -- and is part of the generator)
        o, out, V = check_case(ctx, structure_case(rng, case))
        if 'exc' not in out and o.n > 1:
            r0 = o.b - o.Ad @ x0_vec(o)
            ctx.feat('struct: start residual with exact zero ' + ('first entry' if r0[0] == 0 else 'entries' if np.any(r0 == 0) else '-- none (rounding)'))


def make_long_case(rng, solver):
    """n = 42..110, condition number 1e3..1e5, tiny tol: the run does not converge before the iteration limit"""
    gm = solver in GM
    cplx = bool(rng.random() < 0.35)
    n = int(rng.integers(42, 65)) if gm else int(rng.integers(78, 111))
    hpd = solver in NEEDS_HPD or rng.random() < 0.3
    k = int(rng.integers(0, 3))
    if k < 2:
        A = 2 * np.eye(n) - np.eye(n, k=1) - np.eye(n, k=-1)
        fam = 'long-poisson1d'
        if not hpd:
            A = A + float(rng.choice([0.25, 0.5])) * (np.eye(n, k=1) - np.eye(n, k=-1))
            fam = 'long-convdiff'
        if k == 1:
            d = rng.uniform(0.5, 2.0, n)
            A, fam = d[:, None] * A * d[None, :], fam + '-scaled'
        if cplx:
            ph = np.exp(2j * np.pi * rng.random(n))
            A = (ph[:, None] * A) * ph.conj()[None, :]
    else:
        def orth():
            return np.linalg.qr(rng.standard_normal((n, n)) + (1j * rng.standard_normal((n, n)) if cplx else 0))[0]
        U = orth()
        sv = np.logspace(0, float(rng.choice([2.0, 3.0])), n)
        A, fam = ((U * sv) @ U.conj().T, 'long-spectrum-hpd') if hpd else ((U * sv) @ orth().conj().T, 'long-spectrum')
        if hpd:
            A = (A + A.conj().T) / 2
    A = A.astype(complex if cplx else float)
    crit = CRITS[solver][int(rng.integers(0, len(CRITS[solver])))]
    mk = str(rng.choice(['none', 'dense', 'csr', 'linop']))
    Md, mfam = None, 'none'
    if mk != 'none':
        j = int(rng.integers(0, 3))
        if j == 0:
            Md, mfam = np.diag(1.0 / np.abs(np.diag(A))).astype(A.dtype), 'jacobi'
        elif j == 1:
            Md, mfam = np.diag(rng.uniform(0.5, 2.0, size=n)).astype(A.dtype), 'diag'
        else:
            S = rng.standard_normal((n, 3)) + (1j * rng.standard_normal((n, 3)) if cplx else 0)
            Md, mfam = (np.eye(n) + 0.3 * (S @ S.conj().T)).astype(A.dtype), 'near-id'
        sc = float(rng.choice([0.0625, 1.0, 1.0, 16.0]))
        if sc != 1.0:
            Md, mfam = Md * sc, mfam + '*s'
    xs = rng.standard_normal(n) + (1j * rng.standard_normal(n) if cplx else 0)
    b, x0, xk = A @ xs, None, 'none'
    u = rng.random()
    if u < 0.2:
        b = np.zeros(n, dtype=A.dtype)
        b[int(rng.integers(0, n))], xk = 1.0, 'struct-b-unit'
    elif u < 0.55:
        x0, xk = rng.standard_normal(n) + (1j * rng.standard_normal(n) if cplx else 0), 'random'
    case = {'solver': solver, 'crit': crit, 'cplx': cplx, 'n': n, 'fam': fam, 'A': _enc(A), 'b': _enc(b),
            'x0': None if x0 is None else _enc(x0), 'M': None if Md is None else _enc(Md),
            'akind': str(rng.choice(['dense', 'csr', 'csr', 'linop'])) if crit != 'rr+' else 'csr', 'mkind': mk,
            'mfam': mfam, 'xkind': xk, 'bcol': False, 'tol': float(rng.choice([1e-13, 1e-14])), 'maxiter': None,
            'prefill': False, 'x0col': False, 'restart': None, 'restrt': False, 'orthog': None, 'default_tol': False}
    if gm:
        r, mi = [(None, None), (None, 39), (None, 40), (None, 41), (None, n), (None, n + 1), (7, 8), (8, 7), (10, 5), (25, 2),
                 (40, 2), (49, 1), (n + 3, 1)][int(rng.integers(0, 13))]
        case['restart'], case['maxiter'] = r, mi
        if solver == 'gmres':
            case['orthog'] = str(rng.choice(['householder', 'mgs']))
    elif INTERVAL.get(solver) == 8:
        case['maxiter'] = int(rng.choice([48, 49, 50, 51, 56, 57, 100, 101, 104, 105]))
    else:
        case['maxiter'] = int(rng.choice([49, 50, 50, 51, 100, 100, 101]))
    return case


def long_part(ctx, count):
    rng = ctx.np_rng
    for t in range(count):
        s = ALL[t % len(ALL)]
        case = make_long_case(rng, s)
        o, out, V = check_case(ctx, case)
        if 'exc' in out:
            continue
        ncb, iv = len(out['cbs']), INTERVAL.get(s)
        ctx.feat('long: iterations', ncb)
        if iv:
            off = 1 if iv == 8 else 0         # iterates whose residual comes from the rarely taken branch: k % iv == off
            ctx.feat(f'long: {s} entries k = {off} mod {iv} (the rarely taken residual update) compared',
                     (ncb - off) // iv + off if (len(out['res']) == ncb + 1 and ncb) else 0)
            if ncb and ncb % iv == off:
                ctx.feat(f'long: {s} stopped at k = {off} mod {iv}')
        elif s in GM and case['restart']:
            ctx.feat('long: restart cycles', -(-ncb // min(case['restart'], o.n)))


# ------------------------------------------------------------------------------------------------
# entry points
# ------------------------------------------------------------------------------------------------

def run(ctx):
    model_part(ctx, ctx.scale(700, 8000))
    gmres_ctl_part(ctx, ctx.scale(300, 4000))
    reserve = 20 if ctx.quick else 300               # time kept for the parts below
    ctx.budget_s -= reserve
    search_part(ctx, ctx.scale(4400, 99000))
    ctx.budget_s += reserve
    gmres_full_part(ctx, ctx.scale(300, 4000))      # last: the random stream of the parts above is the one of earlier rounds
    struct_part(ctx, ctx.scale(1100, 30000))        # wave 4 (after the older parts for the same reason)
    long_part(ctx, ctx.scale(176, 2200))
    gmres_full_part(ctx, ctx.scale(150, 2400), cplx=True)   # extension E43: complex runs vs the pair models (ext_cg_full)


def search(ctx):
    search_part(ctx, ctx.scale(3000, 20000))
    struct_part(ctx, ctx.scale(2000, 20000))
    long_part(ctx, ctx.scale(220, 1100))


def replay(ctx, data):
    case = data['case']['case']
    print('replaying', case['solver'], _describe(case))
    o, out, V = check_case(ctx, case)
    if 'exc' not in out:
        print('  status', out['info'], 'residuals', out['res'][:6], 'callbacks', len(out['cbs']), 'x', out['x'].ravel()[:4])
    for kind, text in V[:8]:
        print('  ', kind, ':', text)
